"""Canonical dump of live Python objects, used as the state key of the explicit-state searches.

The dump is generic (not a hand-picked projection): every attribute reachable from the roots is
included, dicts and sets are sorted by the canonical form of their keys, numpy arrays are included as
(dtype, shape, bytes), cycles become back-reference indices, and the *aliasing pattern* is part of the
key: two slots that hold the identical mutable object are dumped as a back reference, and numpy arrays
that share memory are grouped.  Two states are merged only when all of this is equal, so merged states
have the same futures (the code under test is deterministic given that state).
"""
from __future__ import annotations
import numpy as np
from fractions import Fraction

_ATOM = (type(None), bool, int, float, complex, str, bytes, Fraction)


def canon(*roots, skip_attrs=(), with_alias=True):
    seen = {}      # id -> index (mutable containers / objects only)
    arrays = []    # (index, ndarray) for share-memory grouping
    keep = []      # keep objects alive so ids are not reused

    def go(x, depth=0):
        if isinstance(x, _ATOM):
            if isinstance(x, float):
                return ("f", x.hex() if x == x else "nan")
            if isinstance(x, complex):
                return ("c", repr(x))
            return x
        if isinstance(x, np.generic):
            return ("np", x.dtype.str, go(x.item(), depth + 1))
        ident = id(x)
        if ident in seen and with_alias:
            return ("ref", seen[ident])
        if depth > 60:
            return ("deep", type(x).__name__)
        if isinstance(x, np.ndarray):
            idx = len(seen); seen[ident] = idx; keep.append(x)
            arrays.append((idx, x))
            cls = type(x).__name__
            if x.dtype == object:
                return ("arr", idx, cls, "O", x.shape, tuple(go(v, depth + 1) for v in x.ravel().tolist()))
            return ("arr", idx, cls, x.dtype.str, x.shape, np.ascontiguousarray(x).tobytes())
        if isinstance(x, (list,)):
            idx = len(seen); seen[ident] = idx; keep.append(x)
            return ("L", idx, tuple(go(v, depth + 1) for v in x))
        if isinstance(x, tuple):
            return ("T", tuple(go(v, depth + 1) for v in x))
        if isinstance(x, dict):
            idx = len(seen); seen[ident] = idx; keep.append(x)
            items = [(go(k, depth + 1), k) for k in x.keys()]
            # keys are atoms/tuples in this code base: sort by canonical repr; value dumped after sort so
            # that back-reference numbering is independent of insertion order
            items.sort(key=lambda t: repr(t[0]))
            return ("D", idx, tuple((ck, go(x[k], depth + 1)) for ck, k in items))
        if isinstance(x, (set, frozenset)):
            idx = len(seen); seen[ident] = idx; keep.append(x)
            return ("S", idx, tuple(sorted((go(v, depth + 1) for v in x), key=repr)))
        if isinstance(x, range):
            return ("R", x.start, x.stop, x.step)
        if isinstance(x, type):
            return ("type", x.__module__, x.__qualname__)
        if callable(x) and not hasattr(x, "__dict__"):
            return ("callable", getattr(x, "__qualname__", repr(type(x))))
        d = getattr(x, "__dict__", None)
        slots = getattr(type(x), "__slots__", None)
        if d is None and slots is None:
            return ("opaque", type(x).__name__, repr(x)[:200])
        idx = len(seen); seen[ident] = idx; keep.append(x)
        fields = []
        if d is not None:
            for k in sorted(d):
                if k in skip_attrs:
                    continue
                fields.append((k, go(d[k], depth + 1)))
        if slots:
            for k in ([slots] if isinstance(slots, str) else slots):
                if hasattr(x, k) and k not in skip_attrs:
                    fields.append((k, go(getattr(x, k), depth + 1)))
        return ("O", idx, type(x).__module__ + "." + type(x).__qualname__, tuple(fields))

    body = tuple(go(r) for r in roots)
    share = ()
    if with_alias and len(arrays) > 1:
        groups = []
        for i, (ia, a) in enumerate(arrays):
            for ib, b in arrays[:i]:
                if a.size and b.size and np.shares_memory(a, b):
                    groups.append((ib, ia))
        share = tuple(groups)
    return (body, share)


def canon_key(*roots, **kw):
    from .core import h64
    return h64(canon(*roots, **kw))
