"""Helpers of the C02 driver (mesh construction normalises raw data, whatever its form).

* input families: point tables, face / cell menus, the edge alphabet and its ordered lists;
* the reference normaliser, written from the property statement in incidence-matrix / combinatorial style
  (mouette works with key sets and literal face tables);
* an observer that turns a built mesh into plain Python data;
* clause-by-clause comparison of an observed mesh with the reference normal form;
* minimal text writers for the file entry point (written from the format descriptions mouette documents);
* the battery of later behaviours used for the list / tuple / numpy-row twins.

mouette is only imported inside functions.
"""
from __future__ import annotations
import itertools, json, os, traceback

# ------------------------------------------------------------------------------------------------ families
# generic position (first four points: a proper tetrahedron), dyadic coordinates: exact in every text format
G_PTS = [[0, 0, 0], [1, 0, 0], [0, 1, 0], [0, 0, 1], [1, 1, 1], [2, 0.5, 0], [0.5, 2, 0.25], [0.25, 0.5, 2], [2, 2, 0.5]]
# two stacked unit cubes in the usual hexahedron numbering (bottom ring, top ring)
CUBE_PTS = [[0, 0, 0], [1, 0, 0], [1, 1, 0], [0, 1, 0], [0, 0, 1], [1, 0, 1], [1, 1, 1], [0, 1, 1],
            [0, 0, 2], [1, 0, 2], [1, 1, 2], [0, 1, 2], [3, 3, 3]]

FACE_MENU = {
    "none": [],
    "tri": [[0, 1, 2]],
    "tri2": [[0, 1, 2], [2, 1, 3]],                 # two triangles sharing side {1,2}, traversed both ways
    "quad": [[0, 1, 2, 3]],                         # = bottom face of the hexahedron menu entries
    "penta": [[0, 1, 2, 3, 4]],
    "tri_quad": [[0, 1, 2], [2, 1, 3, 4]],
    "tetface1": [[3, 2, 1]],                        # one face of tet (0,1,2,3), other rotation than the library's
    "tetfaces4": [[0, 1, 2], [0, 3, 1], [0, 2, 3], [1, 3, 2]],   # the four faces of tet (0,1,2,3) pre-declared
}
CELL_MENU = {
    "none": [],
    "tet": [[0, 1, 2, 3]],
    "tet2": [[0, 1, 2, 3], [1, 2, 3, 4]],           # share face {1,2,3}
    "hex": [[0, 1, 2, 3, 4, 5, 6, 7]],
    "tet_hex": [[0, 1, 3, 4], [0, 1, 2, 3, 4, 5, 6, 7]],
    "hex2": [[0, 1, 2, 3, 4, 5, 6, 7], [4, 5, 6, 7, 8, 9, 10, 11]],   # share face {4,5,6,7}
}
CELL_QUICK = ["none", "tet", "tet2", "hex"]
CELL_THOROUGH = ["none", "tet", "tet2", "hex", "tet_hex", "hex2"]

SYMS_SMALL = ["01", "21", "30", "11", "0N", "-10"]
SYMS_FULL = ["01", "10", "12", "21", "30", "11", "0N", "0X", "-10"]
_CONFLICT = {frozenset(("01", "10")), frozenset(("12", "21"))}


def pts_of(cname):
    return CUBE_PTS if "hex" in cname else G_PTS


def resolve(sym, nv):
    if sym == "0N":
        return [0, nv]                  # exactly one past the last vertex
    if sym == "0X":
        return [0, nv + 5]
    if sym == "-10":
        return [-1, 0]
    return [int(sym[0]), int(sym[1])]


def edge_lists(syms, maxlen):
    """All ordered lists of <= maxlen distinct symbols, no undirected edge declared twice."""
    out = [[]]
    for n in range(1, maxlen + 1):
        for seq in itertools.permutations(syms, n):
            if any(frozenset(p) in _CONFLICT for p in itertools.combinations(seq, 2)):
                continue
            out.append(list(seq))
    return out


def nv_needed(F, C):
    m = -1
    for row in list(F) + list(C):
        m = max(m, max(row))
    return m + 1


# ------------------------------------------------------------------------------------------------ reference
_CUBE_POS = [(0, 0, 0), (1, 0, 0), (1, 1, 0), (0, 1, 0), (0, 0, 1), (1, 0, 1), (1, 1, 1), (0, 1, 1)]
_GRAY = {(0, 0): 0, (1, 0): 1, (1, 1): 2, (0, 1): 3}


def hex_quads(c):
    """The six quads of a hexahedron given in the usual numbering, derived from the cube geometry: a quad is the
    set of corners with one coordinate fixed, walked around in Gray-code order of the other two."""
    out = []
    for ax in range(3):
        o = [a for a in range(3) if a != ax]
        for val in (0, 1):
            idx = [k for k in range(8) if _CUBE_POS[k][ax] == val]
            idx.sort(key=lambda k: _GRAY[(_CUBE_POS[k][o[0]], _CUBE_POS[k][o[1]])])
            out.append([c[k] for k in idx])
    return out


def tet_tris(c):
    return [[c[j] for j in range(4) if j != i] for i in range(4)]


def cell_faces_of(c):
    if len(c) == 4:
        return tet_tris(c)
    if len(c) == 8:
        return hex_quads(c)
    return None


def dihedral(seq):
    """Canonical form of a polygon up to rotation and reversal (same polygon, same sides)."""
    s = [int(x) for x in seq]
    n = len(s)
    best = None
    for t in (s, s[::-1]):
        for i in range(n):
            r = tuple(t[i:] + t[:i])
            if best is None or r < best:
                best = r
    return best


def reference(nv, pts, E, F, C, cE, cF, pad2d=False):
    """The normal form the statement prescribes for the declared data. Pure Python, no mouette."""
    V = []
    for i in range(nv):
        p = [float(x) for x in pts[i]]
        if pad2d:
            p = [p[0], p[1], 0.0]
        V.append(p)
    faces_decl = [[int(v) for v in f] for f in F]
    have = set(frozenset(f) for f in faces_decl)
    completed = []
    if cF:
        for c in C:
            for q in cell_faces_of(c):
                k = frozenset(q)
                if k not in have:                  # "a shared face once" (also: a pre-declared face once)
                    have.add(k)
                    completed.append(dihedral(q))
    surv, dropped = [], []
    for i, (a, b) in enumerate(E):
        ok = (a != b) and (0 <= a < nv) and (0 <= b < nv)
        (surv if ok else dropped).append(i)
    decl_keys = [(min(E[i]), max(E[i])) for i in surv]
    cells = [[int(v) for v in c] for c in C]
    return {"V": V, "faces_decl": faces_decl, "faces_completed": sorted(completed), "surv": surv, "dropped": dropped,
            "decl_keys": decl_keys, "cells": cells, "cE": cE, "cF": cF, "nv": nv}


def all_cell_faces(C):
    """the distinct faces of the cells, in cell order, as the oracle lists them"""
    out, seen = [], set()
    for c in C:
        for q in (cell_faces_of(c) or []):
            if frozenset(q) not in seen:
                seen.add(frozenset(q))
                out.append(list(q))
    return out


def subset_faces(C, mask):
    """the face list made of the faces of the cells whose bit is set in `mask`; subsets with an even number of faces
    are listed in the reverse order with every face traversed the other way round"""
    allf = all_cell_faces(C)
    F = [allf[i] for i in range(len(allf)) if (mask >> i) & 1]
    if F and len(F) % 2 == 0:
        F = [f[::-1] for f in F[::-1]]
    return F


def listed_incidences(F, C):
    """-> (number of cell-face incidences whose face is in the list F, number of cell-face incidences)"""
    have = set(frozenset(f) for f in F)
    qs = [q for c in C for q in (cell_faces_of(c) or [])]
    return sum(1 for q in qs if frozenset(q) in have), len(qs)


def expected_class(ref, n_faces_total):
    if ref["cells"]:
        return "VolumeMesh"
    if n_faces_total:
        return "SurfaceMesh"
    if ref["decl_keys"]:
        return "PolyLine"
    return "PointCloud"


# ------------------------------------------------------------------------------------------------ observation
def py(x, depth=0):
    """numpy scalars / arrays / tuples -> plain python (ints, floats, bools, lists); the *form* of a row is not
    behaviour, its content is."""
    import numpy as np
    if x is None or isinstance(x, (bool, int, float, str)):
        return x
    if isinstance(x, np.bool_):
        return bool(x)
    if isinstance(x, np.integer):
        return int(x)
    if isinstance(x, np.floating):
        return float(x)
    if isinstance(x, np.ndarray):
        return py(x.tolist(), depth + 1)
    if isinstance(x, (list, tuple)):
        return [py(v, depth + 1) for v in x]
    if isinstance(x, (set, frozenset)):
        return sorted((py(v, depth + 1) for v in x), key=repr)
    if isinstance(x, dict):
        return {repr(py(k)): py(v, depth + 1) for k, v in sorted(x.items(), key=lambda kv: repr(kv[0]))}
    if isinstance(x, range):
        return list(x)
    return repr(x)


def read_attr(attr, n):
    vals = []
    for i in range(n):
        try:
            vals.append(py(attr[i]))
        except Exception as e:          # noqa: BLE001 - a dense attribute shorter than its container
            vals.append("!" + type(e).__name__)
    return vals


def observe(m):
    """Plain-data dump of every container of a mesh object (or RawMeshData)."""
    from mouette.mesh.mesh_attributes import ArrayAttribute
    o = {"cls": type(m).__name__}
    o["V"] = [py(v) for v in m.vertices]
    o["Vtype"] = sorted(set(type(v).__name__ for v in m.vertices))
    for k, name in (("E", "edges"), ("F", "faces"), ("C", "cells")):
        o[k] = [py(r) for r in getattr(m, name)] if hasattr(m, name) else None
    for k, name in (("fc", "face_corners"), ("cc", "cell_corners"), ("cf", "cell_faces")):
        if hasattr(m, name):
            c = getattr(m, name)
            o[k] = [py(list(c._elem)), py(list(c._adj))]
        else:
            o[k] = None
    attrs = {}
    for name in ("vertices", "edges", "faces", "face_corners", "cells", "cell_corners", "cell_faces"):
        if not hasattr(m, name):
            continue
        c = getattr(m, name)
        for an in sorted(c.attributes):
            a = c.get_attribute(an)
            attrs[name + "." + an] = {"dense": isinstance(a, ArrayAttribute), "vals": read_attr(a, len(c))}
    o["attrs"] = attrs
    return o


def okey(o):
    return json.dumps(o, sort_keys=True, default=repr)


# ------------------------------------------------------------------------------------------------ comparison
W_VALUE = lambda i: i + 0.5                     # noqa: E731  float attribute "w", pairwise different, never an index
TAG_VALUE = lambda i: [10 + i, 20 + i]          # noqa: E731  int 2-vector attribute "tag"


def attr_positions(mode, nE):
    if mode == "none":
        return []
    if mode == "sparse_some":
        return [i for i in range(nE) if i % 2 == 0]
    if mode == "sparse_dflt":
        return [i for i in range(nE) if i % 2 == 1]
    return list(range(nE))


def attr_names(mode):
    """sparse modes carry a float scalar and an int 2-vector; the dense storage is exercised one attribute at a time
    (a failure on the vector must not hide what happens to the scalar)"""
    return {"none": [], "sparse_all": ["w", "tag"], "sparse_some": ["w", "tag"], "dense": ["w"], "dense_vec": ["tag"],
            "sparse_dflt": ["w"]}[mode]


CUSTOM_DEFAULT = -1.0          # mode "sparse_dflt": a sparse float attribute created with default_value=-1.0


def compare(o, ref, inp):
    """Clause-by-clause comparison. -> list of (subcheck, kind, input_class, detail)."""
    devs = []

    def dev(sub, kind, icls, **detail):
        devs.append((sub, kind, icls, detail))

    nv = ref["nv"]
    has_cells = bool(ref["cells"])
    ninval = len(ref["dropped"])
    # ---- 3-D vertices
    if len(o["V"]) != nv:
        dev("C02.vertices", "mismatch:count", "any", got=len(o["V"]), want=nv)
    else:
        for i, p in enumerate(o["V"]):
            if not isinstance(p, list) or len(p) != 3:
                dev("C02.vertices", "mismatch:not_3d", "points_2d" if inp.get("pad2d") else "points_3d", index=i, got=p)
                break
            if [float(x) for x in p] != ref["V"][i]:
                dev("C02.vertices", "mismatch:coordinates", "any", index=i, got=p, want=ref["V"][i])
                break
        if o["Vtype"] and o["Vtype"] != ["Vec"]:
            dev("C02.vertices", "mismatch:not_Vec", "any", got=o["Vtype"])
    # ---- faces: declared ones kept (as a prefix, as given), completed ones each once
    F = o["F"] if o["F"] is not None else []
    nd = len(ref["faces_decl"])
    if o["F"] is None:
        if ref["faces_decl"] or (ref["faces_completed"]):
            pass                                        # class clause reports a mesh without a face container
    else:
        if F[:nd] != ref["faces_decl"]:
            dev("C02.faces.declared", "mismatch:declared_faces_changed", "faces_declared",
                got=F[:nd + 2], want=ref["faces_decl"])
        try:
            extra = sorted(dihedral(f) for f in F[nd:])
        except Exception:  # noqa: BLE001
            extra = None
        want = ref["faces_completed"]
        if extra is None:
            dev("C02.faces.completed", "mismatch:malformed_face", "cells_present", got=F[nd:])
        elif extra != want:
            got_sets, want_sets = [frozenset(f) for f in extra], [frozenset(f) for f in want]
            cellk = "hex" if any(len(c) == 8 for c in ref["cells"]) else "tet"
            if len(set(got_sets)) < len(got_sets) or any(g in set(frozenset(f) for f in ref["faces_decl"]) for g in got_sets):
                kind = "mismatch:face_completed_twice"
                icls = "face_shared_or_predeclared"
            elif set(want_sets) - set(got_sets):
                kind, icls = "mismatch:cell_face_missing", cellk + ":completion_" + ("on" if ref["cF"] else "off")
            elif set(got_sets) - set(want_sets):
                kind, icls = "mismatch:extra_face", cellk + ":completion_" + ("on" if ref["cF"] else "off")
            else:
                kind, icls = "mismatch:wrong_polygon", cellk
            dev("C02.faces.completed", kind, icls, got=[list(f) for f in extra], want=[list(f) for f in want])
    # ---- edges
    E = o["E"] if o["E"] is not None else []
    want_sides = set()
    if ref["cE"] and F:
        inc = [[False] * nv for _ in range(nv)]            # incidence matrix of "is a side of some face"
        for f in F:
            k = len(f)
            for i in range(k):
                a, b = f[i], f[(i + 1) % k]
                if isinstance(a, int) and isinstance(b, int) and 0 <= a < nv and 0 <= b < nv and a != b:
                    inc[a][b] = inc[b][a] = True
        want_sides = set((a, b) for a in range(nv) for b in range(a + 1, nv) if inc[a][b])
    decl = list(ref["decl_keys"])
    wantE = set(decl) | want_sides
    keys = []
    inval_kept = notlow = malformed = None
    for i, e in enumerate(E):
        if not (isinstance(e, list) and len(e) == 2 and all(isinstance(x, int) for x in e)):
            malformed = malformed or (i, e)
            keys.append(None)
            continue
        a, b = e
        if a == b or not (0 <= a < nv) or not (0 <= b < nv):
            inval_kept = inval_kept or (i, e)
        elif a > b:
            notlow = notlow or (i, e)
        keys.append((min(a, b), max(a, b)))
    icE = ("invalid_declared" if ninval else "all_valid") if inp["E"] else "none_declared"
    if malformed:
        dev("C02.edges.form", "mismatch:malformed_edge", icE, index=malformed[0], got=malformed[1])
    if inval_kept:
        a, b = inval_kept[1]
        what = "self_loop" if a == b else ("negative_index" if min(a, b) < 0 else ("index==n" if max(a, b) == nv else "index>n"))
        dev("C02.edges.invalid_dropped", "mismatch:invalid_edge_kept", what, index=inval_kept[0], got=inval_kept[1], edges=E)
    if notlow:
        dev("C02.edges.low_first", "mismatch:not_low_index_first", "declared_reversed" if (min(notlow[1]), max(notlow[1])) in decl else "face_side",
            index=notlow[0], got=notlow[1])
    good = [k for k in keys if k is not None and k[0] != k[1] and 0 <= k[0] and k[1] < nv]
    if len(set(good)) < len(good):
        dup = sorted(k for k in set(good) if good.count(k) > 1)[0]
        dev("C02.edges.exactly_once", "mismatch:duplicate_edge", "declared_and_face_side" if dup in decl and dup in want_sides else
            ("face_side" if dup in want_sides else "declared"), edge=list(dup), edges=E)
    missing = wantE - set(good)
    if missing:
        md = sorted(missing & set(decl))
        ms = sorted(missing - set(decl))
        if md:
            dev("C02.edges.declared_kept", "mismatch:declared_edge_lost", icE, lost=[list(k) for k in md], edges=E)
        if ms:
            dev("C02.edges.face_sides", "mismatch:face_side_missing", ("volume" if has_cells else "surface"),
                missing=[list(k) for k in ms], edges=E)
    extra = set(good) - wantE
    if extra:
        dev("C02.edges.no_extra", "mismatch:extra_edge", "completion_" + ("on" if ref["cE"] else "off"),
            extra=[list(k) for k in sorted(extra)], edges=E)
    if not missing and not extra and good[:len(decl)] != decl and len(set(good)) == len(good):
        dev("C02.edges.declared_order", "mismatch:declared_edges_not_first_in_order", icE, got=[list(k) for k in good], want_prefix=[list(k) for k in decl])
    index_of = {}
    for i, k in enumerate(keys):
        if k is not None and k not in index_of:
            index_of[k] = i
    # ---- user attributes follow their edges; the values of dropped edges disappear
    if inp["attr"] != "none" and inp["E"]:
        pos = attr_positions(inp["attr"], len(inp["E"]))
        store = "dense" if inp["attr"].startswith("dense") else "sparse"
        icA = store + ":" + ("invalid_edges_dropped" if ninval else "no_invalid_edge")
        if inp["attr"] == "sparse_dflt":
            icA = "sparse_custom_default:" + ("invalid_edges_dropped" if ninval else "no_invalid_edge")
        names = inp.get("attr_names") or attr_names(inp["attr"])
        for an, valf, dflt in (("w", W_VALUE, 0.0), ("tag", TAG_VALUE, [0, 0])):
            if an not in names:
                continue
            if inp["attr"] == "sparse_dflt":
                dflt = CUSTOM_DEFAULT
            a = o["attrs"].get("edges." + an)
            if a is None:
                if o["E"] is not None:
                    dev("C02.edge_attr.kept", "mismatch:attribute_lost", icA, attribute=an)
                continue
            vals = a["vals"]
            declared_vals = [valf(i) for i in pos]
            bad = None
            for j, i in enumerate(ref["surv"]):
                k = ref["decl_keys"][j]
                if k not in index_of:
                    continue
                want = valf(i) if i in pos else dflt
                got = vals[index_of[k]]
                if got != want and not (isinstance(got, (int, float)) and isinstance(want, (int, float)) and float(got) == float(want)):
                    bad = bad or dict(edge=list(k), declared_at=i, now_at=index_of[k], got=got, want=want)
            if bad:
                if bad["want"] == CUSTOM_DEFAULT and inp["attr"] == "sparse_dflt":
                    kind = "mismatch:custom_default_lost"
                elif bad["got"] in (dflt, 0, 0.0, [0, 0], [0.0, 0.0]) or str(bad["got"]).startswith("!"):
                    kind = "mismatch:value_lost"
                else:
                    kind = "mismatch:value_of_other_edge"
                dev("C02.edge_attr.kept", kind, icA, attribute=an, values=vals, edges=E, **bad)
            surv_idx = set(index_of[ref["decl_keys"][j]] for j in range(len(ref["surv"])) if ref["decl_keys"][j] in index_of)
            stale = [(i, v) for i, v in enumerate(vals) if i not in surv_idx and v in declared_vals]
            if stale:
                dev("C02.edge_attr.dropped", "mismatch:value_of_dropped_edge_survives", icA, attribute=an, index=stale[0][0],
                    value=stale[0][1], values=vals, edges=E)
    # ---- hard edges
    h = o["attrs"].get("edges.hard_edges")
    # histories (mc/c02_hist.py): the edges the *caller* declared are not the whole edge list of the previous stage
    hard_may = [tuple(k) for k in inp["hard_may"]] if inp.get("hard_may") is not None else decl
    hard_must = [tuple(k) for k in inp["hard_must"]] if inp.get("hard_must") is not None else decl
    icH = inp.get("hard_class", "first_build")
    if inp.get("skip_hard"):
        pass                                    # the file carries its own hard_edges attribute next to all edges
    elif h is not None and o["E"] is not None:
        flagged = [i for i, v in enumerate(h["vals"]) if v is True or v == 1]
        notdecl = [i for i in flagged if keys[i] not in hard_may] if len(h["vals"]) == len(keys) else flagged
        if notdecl:
            dev("C02.hard_edges.only_declared", "mismatch:completed_edge_flagged", icH, index=notdecl[0],
                edge=E[notdecl[0]] if notdecl[0] < len(E) else None, flags=h["vals"], edges=E)
        unfl = [k for k in hard_must if k in index_of and index_of[k] not in flagged]
        if unfl and want_sides:
            dev("C02.hard_edges.declared_flagged", "mismatch:declared_edge_not_flagged", icE, edge=list(unfl[0]), flags=h["vals"], edges=E)
    elif o["E"] is not None and hard_must and want_sides - set(hard_must) and want_sides - set(decl):
        dev("C02.hard_edges.declared_flagged", "mismatch:no_hard_edges_attribute", icE, edges=E)
    # ---- corner records
    if o["fc"] is not None:
        we = [v for f in F for v in f]
        wa = [i for i, f in enumerate(F) for _ in f]
        pre = "prefilled" if inp.get("prefill", "absent") != "absent" else "generated"
        bad_e, bad_a = o["fc"][0] != we, o["fc"][1] != wa
        if bad_e or bad_a:
            dev("C02.face_corners", "mismatch:" + "+".join((["vertices"] if bad_e else []) + (["faces"] if bad_a else [])), pre,
                got_vertices=o["fc"][0], got_faces=o["fc"][1], want_vertices=we, want_faces=wa)
    Cb = o["C"] if o["C"] is not None else []
    if o["C"] is not None and Cb != ref["cells"]:
        dev("C02.cells.declared", "mismatch:cells_changed", "cells_present", got=Cb, want=ref["cells"])
    if o["cc"] is not None:
        we = [v for c in Cb for v in c]
        wa = [i for i, c in enumerate(Cb) for _ in c]
        pre = {"absent": "generated", "consistent": "prefilled", "cc_elem_only": "prefilled_elements_only"}[inp.get("prefill", "absent")]
        bad_e, bad_a = o["cc"][0] != we, o["cc"][1] != wa
        if bad_e or bad_a:
            dev("C02.cell_corners", "mismatch:" + "+".join((["vertices"] if bad_e else []) + (["cells"] if bad_a else [])), pre,
                got_vertices=o["cc"][0], got_cells=o["cc"][1], want_vertices=we, want_cells=wa)
    if o["cf"] is not None and Cb:
        fid = {}
        for i, f in enumerate(F):
            fid.setdefault(frozenset(f), i)
        blocks, owners, ok = [], [], True
        for ic, c in enumerate(Cb):
            qs = cell_faces_of(c)
            if qs is None:
                ok = False
                break
            ids = [fid.get(frozenset(q)) for q in qs]
            blocks.append(ids)
            owners += [ic] * len(ids)
        if ok and not all(x is not None for b in blocks for x in b):
            # the face list lacks faces of the cells (completion off, or a completion that failed and is reported by the
            # faces clause).  "one record per cell-face incidence ... with both its element and its owner": accepted are
            # (a) no record at all, (b) exactly one record per incidence whose face is in the list, cell by cell with the
            # owner; anything in between (records of some cells only, owners without faces) is neither
            got_e, got_a = o["cf"]
            pres = [[x for x in b if x is not None] for b in blocks]
            want_a = [ic for ic, b in enumerate(pres) for _ in b]
            none_at_all = (not got_e) and (not got_a)
            per_incidence = (got_a == want_a and len(got_e) == len(want_a))
            if per_incidence:
                pos = 0
                for b in pres:
                    if sorted(got_e[pos:pos + len(b)], key=repr) != sorted(b, key=repr):
                        per_incidence = False
                    pos += len(b)
            if not (none_at_all or per_incidence):
                dev("C02.cell_faces", "mismatch:records_of_some_incidences_only", "face_list_incomplete:completion_" + ("on" if ref["cF"] else "off"),
                    got_faces=got_e, got_cells=got_a, want="none, or one per incidence with a listed face",
                    listed_incidences=[[x, ic] for ic, b in enumerate(pres) for x in b])
        if ok and all(x is not None for b in blocks for x in b):
            got = o["cf"][0]
            pos, good_el = 0, len(got) == sum(len(b) for b in blocks)
            if good_el:
                for b in blocks:
                    if sorted(got[pos:pos + len(b)], key=repr) != sorted(b, key=repr):
                        good_el = False
                    pos += len(b)
            bad_a = o["cf"][1] != owners
            if (not good_el) or bad_a:
                kind = "mismatch:owner_not_recorded" if (good_el and not o["cf"][1]) else \
                    "mismatch:" + "+".join((["faces"] if not good_el else []) + (["cells"] if bad_a else []))
                dev("C02.cell_faces", kind, "cells_present", got_faces=got, got_cells=o["cf"][1], want_face_blocks=blocks, want_cells=owners)
    # ---- class
    wantcls = expected_class(ref, len(F) if o["F"] is not None else nd + len(ref["faces_completed"]))
    if o["cls"] != wantcls:
        dev("C02.class", "mismatch:class", wantcls + "_expected", got=o["cls"], want=wantcls)
    return devs


REBUILD_FIELDS = [("V", "vertices"), ("E", "edges"), ("F", "faces"), ("C", "cells"), ("fc", "face_corners"),
                  ("cc", "cell_corners"), ("cf", "cell_faces"), ("cls", "class")]


def diff_observations(o0, o1):
    """-> list of (field, got, want) for every container / attribute that differs."""
    out = []
    for k, name in REBUILD_FIELDS:
        if o0.get(k) != o1.get(k):
            out.append((name, o1.get(k), o0.get(k)))
    a0, a1 = o0["attrs"], o1["attrs"]
    for an in sorted(set(a0) | set(a1)):
        v0 = a0.get(an, {}).get("vals")
        v1 = a1.get(an, {}).get("vals")
        if v0 != v1:
            out.append(("attribute:" + an, v1, v0))
    return out


# ------------------------------------------------------------------------------------------------ text writers
def _num(x):
    return repr(float(x))


def write_medit(V, E, F, C):
    out = ["MeshVersionFormatted 1", "Dimension 3", "Vertices", str(len(V))]
    out += [" ".join(_num(c) for c in p) + " 1" for p in V]

    def block(name, rows):
        if rows:
            out.append(name)
            out.append(str(len(rows)))
            for r in rows:
                out.append(" ".join(str(v + 1) for v in r) + " 1")
    block("Edges", E)
    block("Triangles", [f for f in F if len(f) == 3])
    block("Quadrilaterals", [f for f in F if len(f) == 4])
    block("Tetrahedra", [c for c in C if len(c) == 4])
    block("Hexahedra", [c for c in C if len(c) == 8])
    out.append("End")
    return "\n".join(out) + "\n"


def write_obj(V, E, F, C):
    out = ["v " + " ".join(_num(c) for c in p) for p in V]
    out += [f"l {a + 1} {b + 1}" for a, b in E]
    out += ["f " + " ".join(str(v + 1) for v in f) for f in F]
    return "\n".join(out) + "\n"


def write_off(V, E, F, C):
    out = ["OFF", f"{len(V)} {len(F)} 0"]
    out += [" ".join(_num(c) for c in p) for p in V]
    out += [f"{len(f)} " + " ".join(str(v) for v in f) for f in F]
    return "\n".join(out) + "\n"


def write_tet(V, E, F, C):
    out = [f"{len(V)} vertices", f"{len(C)} tets"]
    out += [" ".join(_num(c) for c in p) for p in V]
    out += [f"{len(c)} " + " ".join(str(v) for v in c) for c in C]
    return "\n".join(out) + "\n"


def write_xyz(V, E, F, C):
    return "".join(" ".join(_num(c) for c in p) + "\n" for p in V)


def write_geogram(V, E, F, C, w=None):
    out = ["[HEAD]", '"GEOGRAM"', '"1.0"']

    def atts(name, n):
        out.extend(["[ATTS]", f'"GEO::Mesh::{name}"', str(n)])

    def attr(sname, aname, tname, size, dim, flat):
        out.extend(["[ATTR]", f'"GEO::Mesh::{sname}"', f'"{aname}"', f'"{tname}"', str(size), str(dim)])
        out.extend(flat)
    atts("vertices", len(V))
    attr("vertices", "point", "double", 8, 3, [_num(c) for p in V for c in p])
    if E:
        atts("edges", len(E))
        attr("edges", "GEO::Mesh::edges::edge_vertex", "index_t", 4, 2, [str(v) for e in E for v in e])
        if w is not None:
            attr("edges", "w", "double", 8, 1, [_num(x) for x in w])
    if F:
        atts("facets", len(F))
        if any(len(f) != 3 for f in F):
            ptr, k = [], 0
            for f in F:
                ptr.append(str(k))
                k += len(f)
            attr("facets", "GEO::Mesh::facets::facet_ptr", "index_t", 4, 1, ptr)
        atts("facet_corners", sum(len(f) for f in F))
        attr("facet_corners", "GEO::Mesh::facet_corners::corner_vertex", "index_t", 4, 1, [str(v) for f in F for v in f])
    if C:
        atts("cells", len(C))
        if any(len(c) != 4 for c in C):
            ptr, k = [], 0
            for c in C:
                ptr.append(str(k))
                k += len(c)
            attr("cells", "GEO::Mesh::cells::cell_ptr", "index_t", 4, 1, ptr)
        atts("cell_corners", sum(len(c) for c in C))
        attr("cell_corners", "GEO::Mesh::cell_corners::corner_vertex", "index_t", 4, 1, [str(v) for c in C for v in c])
    return "\n".join(out) + "\n"


WRITERS = {"mesh": write_medit, "obj": write_obj, "off": write_off, "tet": write_tet, "xyz": write_xyz,
           "geogram_ascii": write_geogram}


def format_can_declare(fmt, E, F, C):
    """What each reader documents (mouette/mesh/io/*.py docstrings + mesh.load): only those constructs are fed."""
    if any(a < 0 or b < 0 for a, b in E):
        return False                                  # no text format has a negative index
    ar_f = set(len(f) for f in F)
    ar_c = set(len(c) for c in C)
    if fmt == "mesh":
        return ar_f <= {3, 4} and ar_c <= {4, 8} and _stable(F, [3, 4]) and _stable(C, [4, 8])
    if fmt == "obj":
        return not C
    if fmt == "off":
        return not C and not E and ar_f <= {3}
    if fmt == "tet":
        return not E and not F and bool(C) and ar_c <= {4}
    if fmt == "xyz":
        return not E and not F and not C
    if fmt == "geogram_ascii":
        return ar_c <= {4, 8}
    return False


def _stable(rows, order):
    """the medit blocks are written arity by arity: the declared order must already be that order"""
    ar = [len(r) for r in rows]
    return ar == sorted(ar, key=order.index)


# ------------------------------------------------------------------------------------------------ battery
def lib_root(tb):
    """innermost frame of a traceback that lies inside the mouette package: the function the failure comes from"""
    root = None
    for fr in traceback.extract_tb(tb):
        if os.sep + "mouette" + os.sep in fr.filename:
            root = fr.name
    return root or "?"


class Ans:
    """answers of one behaviour: list of (argument, value | '!Exc'), roots of the exceptions"""

    def __init__(self):
        self.items = []
        self.roots = {}

    def q(self, arg, fn, *a, **k):
        try:
            v = py(fn(*a, **k))
        except Exception as e:  # noqa: BLE001
            v = "!" + type(e).__name__
            self.roots.setdefault(v, lib_root(e.__traceback__))
        self.items.append((arg, v))


SETLIKE = {"vertex_to_vertices", "vertex_to_edges", "vertex_to_cell", "cell_to_face", "edge_to_cell", "edge_to_face",
           "boundary_vertices", "interior_vertices", "vertex_to_faces", "vertex_to_corners", "face_to_cells",
           "boundary_mesh"}



def _pairs(n):
    return [(u, v) for u in range(n) for v in range(n) if u != v]


def behaviours(cls):
    """-> ordered list of (name, fn(M, m, A, tmp)); every behaviour is run on a freshly built mesh."""
    B = []

    def add(name):
        def deco(fn):
            B.append((name, fn))
            return fn
        return deco

    def conn_per(name, dom, unpack=False, attr="connectivity"):
        def run(M, m, A, tmp):
            c = getattr(m, attr)
            for x in dom(m):
                if unpack:
                    A.q(list(x), getattr(c, name), *x)
                else:
                    A.q(x, getattr(c, name), x)
        B.append((name, run))

    nV = lambda m: range(len(m.vertices))                   # noqa: E731
    nE = lambda m: range(len(m.edges))                      # noqa: E731
    nF = lambda m: range(len(m.faces))                      # noqa: E731
    nCn = lambda m: range(len(m.face_corners))              # noqa: E731
    nC = lambda m: range(len(m.cells))                      # noqa: E731
    vv = lambda m: _pairs(len(m.vertices))                  # noqa: E731

    if cls == "VolumeMesh":
        conn_per("face_to_cells", nF)                  # first: the most direct accessor names a shared root cause
        conn_per("cell_to_face", nC)
    if cls in ("PolyLine", "SurfaceMesh", "VolumeMesh"):
        conn_per("edge_id", vv, True)
        conn_per("vertex_to_vertices", nV)
        conn_per("vertex_to_edges", nV)
        conn_per("edge_to_vertices", nE)
        conn_per("other_edge_end", lambda m: [(e, v) for e in nE(m) for v in nV(m)], True)
    if cls in ("SurfaceMesh", "VolumeMesh"):
        B.append(("face_id", lambda M, m, A, tmp: [A.q(py(f), m.connectivity.face_id, *f) for f in list(m.faces)]))
        conn_per("vertex_to_faces", nV)
        conn_per("vertex_to_corners", nV)
        conn_per("vertex_to_corner_in_face", lambda m: [(v, f) for v in nV(m) for f in nF(m)], True)
        for nm in ("next_corner", "previous_corner", "opposite_corner", "corner_to_half_edge", "corner_to_face"):
            conn_per(nm, nCn)
        for nm in ("half_edge_to_corner", "direct_face", "edge_to_faces"):
            conn_per(nm, vv, True)
        conn_per("opposite_face", lambda m: [(u, v, f) for (u, v) in [tuple(py(e)) for e in m.edges] for f in nF(m)], True)
        conn_per("common_edge", lambda m: [(f, g) for f in nF(m) for g in nF(m) if f != g], True)
        for nm in ("face_to_vertices", "face_to_edges", "face_to_corners", "face_to_faces", "face_to_first_corner"):
            conn_per(nm, nF)
        conn_per("in_face_index", lambda m: [(f, v) for f in nF(m) for v in nV(m)], True)
    if cls == "SurfaceMesh":
        B.append(("is_edge_on_border", lambda M, m, A, tmp: [A.q([u, v], m.is_edge_on_border, u, v) for u, v in vv(m)]))
        for nm in ("boundary_edges", "interior_edges", "boundary_vertices", "interior_vertices"):
            B.append((nm, lambda M, m, A, tmp, nm=nm: A.q(None, lambda: sorted(py(getattr(m, nm))))))
        B.append(("is_vertex_on_border", lambda M, m, A, tmp: [A.q(v, m.is_vertex_on_border, v) for v in nV(m)]))
        B.append(("is_triangular", lambda M, m, A, tmp: (A.q(None, m.is_triangular), A.q("quad", m.is_quad))))
    if cls == "VolumeMesh":
        B.append(("is_face_on_border", lambda M, m, A, tmp: [A.q(f, m.is_face_on_border, f) for f in nF(m)]))
        for nm in ("cell_to_cell", "cell_to_vertex", "cell_to_edge"):
            conn_per(nm, nC)
        conn_per("other_face_side", lambda m: [(c, f) for c in nC(m) for f in nF(m)], True)
        conn_per("common_face", lambda m: [(c, d) for c in nC(m) for d in nC(m) if c != d], True)
        conn_per("vertex_to_cell", nV)
        conn_per("in_cell_index", lambda m: [(c, v) for c in nC(m) for v in nV(m)], True)
        conn_per("in_cell_face_index", lambda m: [(c, f) for c in nC(m) for f in nF(m)], True)
        conn_per("edge_to_face", nE)
        conn_per("edge_to_cell", nE)
        for nm in ("boundary_faces", "interior_faces", "boundary_edges", "interior_edges", "boundary_vertices", "interior_vertices"):
            B.append((nm, lambda M, m, A, tmp, nm=nm: A.q(None, lambda: sorted(py(getattr(m, nm))))))
        B.append(("is_edge_on_border", lambda M, m, A, tmp: [A.q(e, m.is_edge_on_border, e) for e in nE(m)]))
        B.append(("is_vertex_on_border", lambda M, m, A, tmp: [A.q(v, m.is_vertex_on_border, v) for v in nV(m)]))
        B.append(("is_tetrahedral", lambda M, m, A, tmp: A.q(None, lambda: bool(m.is_tetrahedral()))))

        def bmesh(M, m, A, tmp):
            def go():
                m.enable_boundary_connectivity()
                return observe(m.boundary_mesh)
            A.q(None, go)
        B.append(("enable_boundary_connectivity", bmesh))

    # ---- save into each text format the class can be written to; the text is the answer
    fmts = {"PointCloud": ["xyz", "obj", "mesh", "geogram_ascii"], "PolyLine": ["mesh", "obj", "geogram_ascii"],
            "SurfaceMesh": ["mesh", "obj", "off", "geogram_ascii"], "VolumeMesh": ["mesh", "tet", "geogram_ascii"]}[cls]
    for fmt in fmts:
        def sv(M, m, A, tmp, fmt=fmt):
            def go():
                path = os.path.join(tmp, "twin." + fmt)
                if os.path.exists(path):
                    os.remove(path)
                M.mesh.save(m, path)
                with open(path) as f:
                    return f.read()
            A.q(fmt, go)
        B.append(("save:" + fmt, sv))

    B.append(("copy", lambda M, m, A, tmp: A.q(None, lambda: observe(M.mesh.copy(m)))))
    B.append(("copy:attributes", lambda M, m, A, tmp: A.q(None, lambda: observe(M.mesh.copy(m, copy_attributes=True)))))
    # merge needs a second, independent twin: the caller passes it through tmp["other"]
    B.append(("merge", None))
    if cls == "PolyLine":
        B.append(("split_edge", lambda M, m, A, tmp: A.q(0, lambda: observe(M.mesh.split_edge(m, 0)))))
    if cls == "SurfaceMesh":
        def sub(method, *args):
            def run(M, m, A, tmp):
                def go():
                    with M.mesh.SurfaceSubdivision(m) as s:
                        getattr(s, method)(*args)
                    return observe(s.mesh)
                A.q(list(args), go)
            return run
        B.append(("SurfaceSubdivision.triangulate", sub("triangulate")))
        B.append(("SurfaceSubdivision.split_face_as_fan", sub("split_face_as_fan", 0)))
        B.append(("SurfaceSubdivision.loop_subdivision", sub("loop_subdivision")))
        B.append(("SurfaceSubdivision.subdivide_triangles_3quads", sub("subdivide_triangles_3quads")))
    if cls == "VolumeMesh":
        def vsub(method, *args):
            def run(M, m, A, tmp):
                def go():
                    with M.mesh.VolumeSubdivision(m) as s:
                        getattr(s, method)(*args)
                    return observe(s.mesh)
                A.q(list(args), go)
            return run
        B.append(("VolumeSubdivision.split_cell_as_fan", vsub("split_cell_as_fan", 0)))
        B.append(("VolumeSubdivision.split_tet_from_face_center", vsub("split_tet_from_face_center", 0)))
    return B


# ------------------------------------------------------------------------------------------------ self-test
def selftest():
    """Pins the families and checks the reference normaliser against brute-force definitions (DESIGN 6.5).
    -> list of failure strings (empty = ok)"""
    bad = []
    if [len(edge_lists(SYMS_SMALL, 2)), len(edge_lists(SYMS_FULL, 2)), len(edge_lists(SYMS_FULL, 3))] != [37, 78, 498]:
        bad.append("edge list counts changed")
    # hexahedron: a 4-subset of corners is a face iff one coordinate is constant; consecutive corners differ in one bit
    c = list(range(10, 18))
    qs = hex_quads(c)
    brute = set()
    for sub in itertools.combinations(range(8), 4):
        if any(len(set(_CUBE_POS[k][ax] for k in sub)) == 1 for ax in range(3)):
            brute.add(frozenset(c[k] for k in sub))
    if set(frozenset(q) for q in qs) != brute or len(qs) != 6:
        bad.append("hex_quads: wrong vertex sets")
    for q in qs:
        for i in range(4):
            a, b = _CUBE_POS[q[i] - 10], _CUBE_POS[q[(i + 1) % 4] - 10]
            if sum(x != y for x, y in zip(a, b)) != 1:
                bad.append("hex_quads: consecutive corners are not joined by a cube edge")
    if sorted(map(sorted, tet_tris([5, 6, 7, 8]))) != sorted(map(list, itertools.combinations([5, 6, 7, 8], 3))):
        bad.append("tet_tris")
    for seq in ([3, 1, 2], [4, 9, 2, 7], [0, 1, 2, 3, 4]):
        forms = set()
        for t in (seq, seq[::-1]):
            for i in range(len(seq)):
                forms.add(dihedral(t[i:] + t[:i]))
        if len(forms) != 1:
            bad.append("dihedral is not invariant")
    if dihedral([0, 1, 2, 3]) == dihedral([0, 2, 1, 3]):
        bad.append("dihedral merges different quads")
    # a hand-worked example: two tets sharing a face, one face pre-declared, edges: reversed, self-loop, index==n
    r = reference(5, G_PTS, [[2, 1], [1, 1], [0, 5], [3, 0]], [[3, 2, 1]], [[0, 1, 2, 3], [1, 2, 3, 4]], True, True)
    if r["surv"] != [0, 3] or r["dropped"] != [1, 2] or r["decl_keys"] != [(1, 2), (0, 3)]:
        bad.append("reference: edge classification")
    if len(r["faces_completed"]) != 6 or (1, 2, 3) in r["faces_completed"]:
        bad.append("reference: 4+4 triangles minus the shared one minus the pre-declared one = 6")
    if expected_class(r, 7) != "VolumeMesh" or expected_class(reference(2, G_PTS, [[1, 1]], [], [], True, True), 0) != "PointCloud":
        bad.append("reference: class")
    r0 = reference(5, G_PTS, [], [], [[0, 1, 2, 3]], True, False)
    if r0["faces_completed"]:
        bad.append("reference: completion off must not complete")
    return bad


if __name__ == "__main__":
    print(selftest() or "c02_lib ok")
