"""Explicit-state breadth-first search over histories of real API calls (shape S1 of DESIGN.md).

A state is identified by the canonical key returned by `step`; it is *re-created* by replaying its
history on fresh objects (live meshes do not deep-copy reliably).  While replaying a prefix every
step's observation is compared with the one recorded the first time: a divergence means uncaptured
nondeterminism and is a hard harness error.
"""
from __future__ import annotations
from collections import deque


class ReplayDivergence(Exception):
    pass


def bfs(make, events_of, apply, key_of, depth, on_state=None, max_states=None):
    """
    make()                      -> fresh state object (real objects + reference model)
    events_of(state)            -> iterable of events enabled in that state (simplest first)
    apply(state, ev)            -> observation (hashable / comparable); performs the oracle checks itself
    key_of(state)               -> canonical key
    depth                       -> max history length (None = until fixed point)
    Returns dict(states=, transitions=, capped=bool, max_depth=)
    """
    s0 = make()
    k0 = key_of(s0)
    seen = {k0}
    if on_state:
        on_state(s0, ())
    frontier = deque([((), ())])   # (history, observations)
    transitions = 0
    maxd = 0
    capped = False
    while frontier:
        hist, obs = frontier.popleft()
        st = make()
        for ev, o in zip(hist, obs):
            got = apply(st, ev)
            if got != o:
                raise ReplayDivergence(f"replaying {hist!r}: event {ev!r} gave {got!r}, first time {o!r}")
        evs = list(events_of(st))
        first = True
        for ev in evs:
            if not first:
                st = make()
                for e2 in hist:
                    apply(st, e2)
            first = False
            o = apply(st, ev)
            transitions += 1
            k = key_of(st)
            if k not in seen:
                seen.add(k)
                if on_state:
                    on_state(st, hist + (ev,))
                if depth is None or len(hist) + 1 < depth:
                    if max_states is not None and len(seen) > max_states:
                        capped = True
                        continue
                    frontier.append((hist + (ev,), obs + (o,)))
                    maxd = max(maxd, len(hist) + 1)
    return dict(states=len(seen), transitions=transitions, capped=capped, max_depth=maxd)
