"""Helpers of props/c09.py (no library code is judged here).

1. LONG SPECIMENS: meshes in which a shortest path has >= 1500 edges (deeper than the interpreter's default recursion limit
   of 1000 frames), with short members of the same shapes as controls, and a single-source exact oracle (label-correcting, a
   FIFO queue - not the heap-based Dijkstra of the library; all-pairs Floyd-Warshall is cubic and out of reach at this size).
2. IN-PLACE EDITS: the operations by which a caller changes a live mesh between two queries - through the public element
   containers (append / item assignment / clear + re-append of the corners) followed by the documented resets, or through
   the library's own editing entry points (split_edge, SurfaceSubdivision, VolumeSubdivision).
"""
from __future__ import annotations
import itertools, math
from collections import deque
from mc import families as F


# ------------------------------------------------------------------------------------------------ single-source oracle
def neighbours(n, E, weight_of):
    """nbr[v] = list of (u, w) over the undirected edge set E."""
    nbr = [[] for _ in range(n)]
    for (a, b) in sorted(E):
        w = weight_of(a, b)
        nbr[a].append((b, w))
        nbr[b].append((a, w))
    return nbr


def single_source(n, nbr, s):
    """Distances from s by label correcting with a FIFO queue (non-negative weights). Integers stay integers."""
    inf = math.inf
    dist = [inf] * n
    dist[s] = 0
    queue = deque([s])
    queued = [False] * n
    queued[s] = True
    while queue:
        v = queue.popleft()
        queued[v] = False
        dv = dist[v]
        for u, w in nbr[v]:
            x = dv + w
            if x < dist[u]:
                dist[u] = x
                if not queued[u]:
                    queued[u] = True
                    queue.append(u)
    return dist


class LazyRows:
    """D[s] = distances from s, computed on first use (stands in for the all-pairs table of the small meshes)."""

    def __init__(self, n, nbr):
        self.n, self.nbr, self.rows = n, nbr, {}

    def __getitem__(self, s):
        if s not in self.rows:
            self.rows[s] = single_source(self.n, self.nbr, s)
        return self.rows[s]


class WeightRows:
    """W[a][b] = weight of the edge ab (KeyError if ab is no edge: never asked, the walk clause is judged first)."""

    def __init__(self, n, nbr):
        self.rows = [dict(l) for l in nbr]

    def __getitem__(self, a):
        return self.rows[a]


# ------------------------------------------------------------------------------------------------ long specimens
def _relabel(N, how):
    """label of position p. 'order': p; 'reversed': N-1-p; 'interleaved': p*K mod N with K coprime to N (neighbours along
    the path are far apart in the numbering, and the numbering wraps around several times)."""
    if how == "order":
        return list(range(N))
    if how == "reversed":
        return [N - 1 - p for p in range(N)]
    K = next(k for k in (7, 11, 13, 17, 19, 23, 29) if math.gcd(k, N) == 1)
    return [(p * K) % N for p in range(N)]


def chain(N, how="order"):
    L = _relabel(N, how)
    pts = [None] * N
    for p in range(N):
        pts[L[p]] = (p, 0, 0)
    edges = [(L[p], L[p + 1]) for p in range(N - 1)]
    return {"kind": "polyline", "pts": pts, "elems": edges, "shape": "chain:" + how,
            "text": f"chain of {N} vertices: position p = 0..{N - 1} at (p,0,0) carries the label "
                    + {"order": "p", "reversed": f"{N - 1}-p"}.get(how, f"p*K mod {N} (K = smallest of 7,11,13,... coprime to {N})")
                    + ", edges between consecutive positions",
            "a": L[0], "b": L[N - 1], "mid": L[N // 2], "near": L[min(N - 1, 5)], "far_set": [L[N - 1], L[N - 2], L[N - 3]][:max(1, min(3, N - 1))],
            "span": N - 1}


def cycle(N):
    """closed chain laid on two rows of a unit lattice (every edge has length 1): two routes to every vertex, a tie at the
    antipode; the longest shortest path has N//2 edges"""
    h = N // 2
    pts = [(p, 0, 0) for p in range(h)] + [(N - 1 - p, 1, 0) for p in range(h, N)]
    edges = [(p, p + 1) for p in range(N - 1)] + [(0, N - 1)]
    return {"kind": "polyline", "pts": pts, "elems": edges, "shape": "cycle",
            "text": f"cycle of {N} vertices: p < {h} at (p,0,0), p >= {h} at ({N - 1}-p,1,0), edges (p,p+1) and (0,{N - 1})",
            "a": 0, "b": h, "mid": h // 2, "near": min(5, N - 1), "far_set": [h, h - 1, h + 1], "span": h}


def strip(N, mode):
    """2 x N strip (F.grid(N, 2, mode)): vertex 2i+j at (i,j,0); every vertex is on the border"""
    pts, faces = F.grid(N, 2, mode)
    return {"kind": "surface", "pts": pts, "elems": [tuple(f) for f in faces], "shape": "strip:" + mode,
            "text": f"mc.families.grid({N}, 2, {mode!r}): vertex 2i+j at (i,j,0), i < {N}, j < 2",
            "a": 0, "b": 2 * N - 1, "mid": 2 * (N // 2), "near": min(2 * N - 1, 10), "far_set": [2 * N - 2, 2 * N - 1], "span": N - 1}


def tube_points(N):
    return [((0, 0), (2, 0), (0, 2))[r] + (j,) for j in range(N) for r in range(3)]


def tube(N, mode):
    """triangular tube of N rings closed by one triangle at ring 0: the border is ring N-1, N-1 edges away from the cap"""
    faces = [(0, 2, 1)]
    for j in range(N - 1):
        for r in range(3):
            a, b = 3 * j + r, 3 * j + (r + 1) % 3
            c, d = b + 3, a + 3
            if mode == "quad":
                faces.append((a, b, c, d))
            else:
                faces += [(a, b, c), (a, c, d)]
    return {"kind": "surface", "pts": tube_points(N), "elems": faces, "shape": "capped_tube:" + mode,
            "text": f"capped tube: vertex 3j+r at ((0,0),(2,0),(0,2))[r] + (j,), j < {N}; face (0,2,1) and, for every j < {N - 1} and r, "
                    "the quad (3j+r, 3j+r', 3j+3+r', 3j+3+r), r' = (r+1)%3" + ("" if mode == "quad" else ", split as (a,b,c),(a,c,d)"),
            "a": 0, "b": 3 * N - 1, "mid": 3 * (N // 2), "near": min(3 * N - 1, 15), "far_set": [3 * N - 3, 3 * N - 2, 3 * N - 1], "span": N - 1}


def tet_strip(N):
    """N-1 triangular prisms in a row, each cut into three tetrahedra (staircase triangulation)"""
    pts = tube_points(N)
    cells = []
    for j in range(N - 1):
        a = [3 * j, 3 * j + 1, 3 * j + 2]
        b = [x + 3 for x in a]
        cells += [(a[0], a[1], a[2], b[0]), (a[1], a[2], b[0], b[1]), (a[2], b[0], b[1], b[2])]
    cells = [tuple(c) for c in F.orient_cells_positive(cells, pts)]
    return {"kind": "volume", "pts": pts, "elems": cells, "shape": "tet_strip",
            "text": f"tetrahedral strip: vertex 3j+r at ((0,0),(2,0),(0,2))[r] + (j,), j < {N}; prism j cut into the cells on "
                    "(3j,3j+1,3j+2,3j+3), (3j+1,3j+2,3j+3,3j+4), (3j+2,3j+3,3j+4,3j+5), positively oriented",
            "a": 0, "b": 3 * N - 1, "mid": 3 * (N // 2), "near": min(3 * N - 1, 15), "far_set": [3 * N - 3, 3 * N - 2, 3 * N - 1], "span": N - 1}


LONG_SHAPES = ("chain:order", "chain:reversed", "chain:interleaved", "cycle", "strip:tri", "strip:quad", "capped_tube:tri",
               "capped_tube:quad", "tet_strip")


def specimen(shape, N):
    if shape.startswith("chain:"):
        return chain(N, shape.split(":")[1])
    if shape == "cycle":
        return cycle(2 * N)          # the farthest vertex of a cycle is half way round
    if shape.startswith("strip:"):
        return strip(N, shape.split(":")[1])
    if shape.startswith("capped_tube:"):
        return tube(N, shape.split(":")[1])
    if shape == "tet_strip":
        return tet_strip(N)
    raise ValueError(shape)


# ------------------------------------------------------------------------------------------------ in-place edits
def _key(a, b):
    return (a, b) if a < b else (b, a)


def reset(mesh):
    """The documented resets after an in-place edit of the containers."""
    mesh.connectivity.clear()
    if hasattr(mesh, "clear_boundary_data"):
        mesh.clear_boundary_data()


def append_edge(mesh, e):
    mesh.edges.append(_key(*e))


def append_face(mesh, f):
    """faces.append + one corner per vertex + the sides that are not yet edges (what RawMeshData.prepare writes at construction)"""
    have = {_key(*e) for e in mesh.edges}
    nf = len(mesh.faces)
    mesh.faces.append(list(f))
    for v in f:
        mesh.face_corners.append(v, nf)
    for i in range(len(f)):
        k = _key(f[i], f[(i + 1) % len(f)])
        if k not in have:
            have.add(k)
            mesh.edges.append(k)


def append_cell(mesh, c):
    """cells.append + corners + the triangles / edges that are not there yet + cell_faces, in the conventions of
    RawMeshData.prepare (face i of a tetrahedron is opposite to its vertex i)"""
    v0, v1, v2, v3 = c
    nc = len(mesh.cells)
    mesh.cells.append(list(c))
    for v in c:
        mesh.cell_corners.append(v, nc)
    face_id = {tuple(sorted(f)): i for i, f in enumerate(mesh.faces)}
    have = {_key(*e) for e in mesh.edges}
    for face in [(v1, v3, v2), (v0, v2, v3), (v3, v1, v0), (v0, v1, v2)]:
        k = tuple(sorted(face))
        if k not in face_id:
            face_id[k] = len(mesh.faces)
            mesh.faces.append(face)
            for v in face:
                mesh.face_corners.append(v, face_id[k])
            for i in range(3):
                e = _key(face[i], face[(i + 1) % 3])
                if e not in have:
                    have.add(e)
                    mesh.edges.append(e)
        mesh.cell_faces.append(face_id[k], nc)


def replace_edge(mesh, i, e):
    mesh.edges[i] = _key(*e)


def rewrite_corners(mesh):
    """face_corners has no item assignment: emptied and written again from the faces (as the library's editing blocks do)"""
    mesh.face_corners.clear()
    for i, f in enumerate(mesh.faces):
        for v in f:
            mesh.face_corners.append(v, i)


def flips(n, faces):
    """Every flip of an edge shared by two triangles that leaves an oriented manifold: (i1, i2, (a,b), new1, new2, (c,d))."""
    faces = [tuple(f) for f in faces]
    E = F.undirected_edges(faces)
    owner = {}
    for i, f in enumerate(faces):
        for k in range(len(f)):
            owner[(f[k], f[(k + 1) % len(f)])] = i
    out = []
    for (a, b), i1 in sorted(owner.items()):
        i2 = owner.get((b, a))
        if a > b or i2 is None or len(faces[i1]) != 3 or len(faces[i2]) != 3:
            continue
        c = next(v for v in faces[i1] if v not in (a, b))
        d = next(v for v in faces[i2] if v not in (a, b))
        if c == d or _key(c, d) in E:
            continue
        new1, new2 = (a, d, c), (d, b, c)
        g = list(faces)
        g[i1], g[i2] = new1, new2
        if F.is_oriented_manifold(g, n, require_all_used=False):
            out.append((i1, i2, (a, b), new1, new2, _key(c, d)))
    return out


def flip_edge(mesh, flip):
    i1, i2, ab, new1, new2, cd = flip
    e = next(i for i, x in enumerate(mesh.edges) if _key(*x) == _key(*ab))
    mesh.faces[i1] = list(new1)
    mesh.faces[i2] = list(new2)
    mesh.edges[e] = cd
    rewrite_corners(mesh)


def move_point(p):
    """invertible affine map that is no similarity (lengths change unequally); exact on lattice points"""
    x, y, z = (tuple(p) + (0, 0))[:3]
    return (2 * x + y + 1, 3 * y - z, z + 0.5 * x + 2)


def move_vertices(mesh, pts):
    import mouette as M
    new = [move_point(p) for p in pts]
    for i, p in enumerate(new):
        mesh.vertices[i] = M.Vec(float(p[0]), float(p[1]), float(p[2]))
    return new


def read_back(mesh, kind):
    """Points and element list of the mesh as its containers hold them now (public data; the connectivity is not asked)."""
    pts = [tuple(float(c) for c in v) for v in mesh.vertices]
    src = mesh.edges if kind == "polyline" else mesh.faces if kind == "surface" else mesh.cells
    return pts, [tuple(int(v) for v in e) for e in src]
