"""Regenerates mc/data/classes.json (isomorphism-class representatives of SURF(6) triangles and TET(6)).
Pure combinatorics, independent of /repo. selftest/test_families.py re-derives and compares a slice."""
import json, os, sys, itertools
from multiprocessing import Pool
sys.path.insert(0, os.path.dirname(os.path.dirname(os.path.abspath(__file__))))
from mc import families as F

def cs(f): return F.canonical_class(f, 6)
def ct(cells):
    best=None
    for perm in itertools.permutations(range(6)):
        r=F.relabel_cells(cells, perm)
        if best is None or r<best: best=r
    return best

if __name__=="__main__":
    with Pool(16) as p:
        s6=sorted(set(p.map(cs, F.surf_enum(6), chunksize=64)))
        t6=sorted(set(p.map(ct, F.tet_enum(6), chunksize=32)))
    out={"surf6_tri_classes":s6, "tet6_classes":t6, "surf6_count":len(F.surf_enum(6)), "tet6_count":len(F.tet_enum(6))}
    json.dump(out, open(os.path.join(os.path.dirname(__file__),"data","classes.json"),"w"))
    print(len(s6), len(t6))
