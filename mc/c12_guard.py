"""Helpers of props/c12.py: guarded calls of real mouette code (argument byte images + numpy error
configuration observed around EVERY call, returning or raising) and attribution of an error-state change
to the innermost library function that caused it (so that one defect gives one fingerprint)."""
from __future__ import annotations
import os, sys

INITS = {
    "default": dict(divide="warn", over="warn", under="ignore", invalid="warn"),
    "ignore": dict(divide="ignore", over="ignore", under="ignore", invalid="ignore"),
    "raise": dict(divide="raise", over="raise", under="raise", invalid="raise"),
    "mixed": dict(divide="raise", over="ignore", under="warn", invalid="ignore"),
}


def blame_run(np, lib_dir, fn, args, kw):
    """Run fn(*args, **kw) under a profile hook. Returns (ok, value, excname, msg, culprit) where culprit is
    the qualified name of the INNERMOST function defined under lib_dir whose entry/exit numpy.geterr()
    differ (None if no library frame changed it)."""
    stack = []
    found = []

    def prof(frame, event, arg):
        if event == "call":
            if frame.f_code.co_filename.startswith(lib_dir):
                stack.append((frame, np.geterr()))
        elif event == "return":
            if stack and stack[-1][0] is frame:
                _, g0 = stack.pop()
                if not found and np.geterr() != g0:
                    found.append(getattr(frame.f_code, "co_qualname", frame.f_code.co_name))

    old = sys.getprofile()
    sys.setprofile(prof)
    try:
        try:
            val = fn(*args, **kw)
            res = (True, val, None, "")
        except Exception as e:  # noqa
            res = (False, None, type(e).__name__, str(e)[:200])
    finally:
        sys.setprofile(old)
    return res + ((found[0] if found else None),)


def _short(x, np):
    if isinstance(x, np.ndarray):
        return {"dtype": x.dtype.str, "value": x.tolist()}
    if hasattr(x, "mini") and hasattr(x, "maxi"):
        return {"box": [x.mini.tolist(), x.maxi.tolist()], "dtype": x.mini.dtype.str}
    if isinstance(x, complex):
        return repr(x)
    if isinstance(x, (int, float, str, list, type(None))):
        return x
    return repr(x)[:120]


class Guard:
    """Calls real code; after every call (return or raise) checks that numpy.geterr() is what it was
    and that every array / box / list passed as argument is byte-identical; restores the error state so
    that one execution cannot pollute the next.  Violations are de-duplicated per task by fingerprint."""

    def __init__(self, rep, np, AABB, init, lib_dir):
        self.rep, self.np, self.AABB, self.init, self.lib_dir = rep, np, AABB, dict(init), lib_dir
        self.seen = set()
        self.blamed = {}
        self.ncalls = 0
        np.seterr(**self.init)

    def viol(self, sub, callee, kind, icls, detail):
        fp = (sub, callee, kind, icls)
        self.rep.count("occurrences:" + " | ".join(fp))
        if fp in self.seen:
            return
        self.seen.add(fp)
        self.rep.violation(sub, callee, kind, icls, detail)

    def call(self, name, fn, *args, **kw):
        np = self.np
        snaps = []
        for i, a in enumerate(args):
            if isinstance(a, np.ndarray):
                snaps.append((i, a, a.shape, a.tobytes()))
            elif isinstance(a, self.AABB):
                snaps.append((i, a, None, (a.mini.tobytes(), a.maxi.tobytes())))
            elif isinstance(a, list):
                snaps.append((i, a, "list", repr(a)))
        try:
            val = fn(*args, **kw)
            ok, exc = True, None
        except Exception as e:  # noqa
            val, ok, exc = None, False, type(e).__name__
        self.ncalls += 1
        if np.geterr() != self.init:
            self._errstate(name, fn, args, kw, ok)
        for i, a, shp, img in snaps:
            if shp is None:
                now = (a.mini.tobytes(), a.maxi.tobytes())
            elif shp == "list":
                now = repr(a)
            else:
                now = a.tobytes()
                if a.shape != shp:
                    now = None
            if now != img:
                self.viol("C12.effects.arguments_unchanged", name, "side_effect:argument_changed",
                          f"arg{i}:{'returns' if ok else 'raises'}",
                          {"call": name, "args_after": [_short(x, np) for x in args], "arg_index": i,
                           "before_bytes": repr(img)[:200]})
        return ok, val, exc

    def _errstate(self, name, fn, args, kw, ok):
        np = self.np
        after = np.geterr()
        np.seterr(**self.init)
        key = (name, ok)
        if key not in self.blamed:
            # the swept functions are pure: run the same call again under the profile hook to find the
            # innermost library function that leaves the state changed
            r = blame_run(np, self.lib_dir, fn, args, kw)
            np.seterr(**self.init)
            self.blamed[key] = r[4] or name
        self.viol("C12.effects.numpy_errstate", self.blamed[key], "side_effect:numpy_errstate",
                  "on_return" if ok else "on_raise",
                  {"call": name, "args": [_short(x, np) for x in args], "geterr_before": self.init,
                   "geterr_after": after, "outcome": "returned" if ok else "raised"})


def lib_dir_of(module):
    return os.path.dirname(os.path.realpath(module.__file__)) + os.sep
