"""Helpers of props/c12.py: guarded calls of real mouette code (argument byte images + numpy error
configuration observed around EVERY call, returning or raising) and attribution of an error-state change
to the innermost library function that caused it (so that one defect gives one fingerprint)."""
from __future__ import annotations
import os, sys

INITS = {
    "default": dict(divide="warn", over="warn", under="ignore", invalid="warn"),
    "ignore": dict(divide="ignore", over="ignore", under="ignore", invalid="ignore"),
    "raise": dict(divide="raise", over="raise", under="raise", invalid="raise"),
    "mixed": dict(divide="raise", over="ignore", under="warn", invalid="ignore"),
}


def blame_run(np, lib_dir, fn, args, kw):
    """Run fn(*args, **kw) under a profile hook. Returns (ok, value, excname, msg, culprit) where culprit is
    the qualified name of the INNERMOST function defined under lib_dir whose entry/exit numpy.geterr()
    differ (None if no library frame changed it)."""
    stack = []
    found = []

    def prof(frame, event, arg):
        if event == "call":
            if frame.f_code.co_filename.startswith(lib_dir):
                stack.append((frame, np.geterr()))
        elif event == "return":
            if stack and stack[-1][0] is frame:
                _, g0 = stack.pop()
                if not found and np.geterr() != g0:
                    found.append(getattr(frame.f_code, "co_qualname", frame.f_code.co_name))

    old = sys.getprofile()
    sys.setprofile(prof)
    try:
        try:
            val = fn(*args, **kw)
            res = (True, val, None, "")
        except Exception as e:  # noqa
            res = (False, None, type(e).__name__, str(e)[:200])
    finally:
        sys.setprofile(old)
    return res + ((found[0] if found else None),)


def _short(x, np):
    if isinstance(x, np.ndarray):
        return {"dtype": x.dtype.str, "value": x.tolist()}
    if hasattr(x, "mini") and hasattr(x, "maxi"):
        return {"box": [x.mini.tolist(), x.maxi.tolist()], "dtype": x.mini.dtype.str}
    if isinstance(x, complex):
        return repr(x)
    if isinstance(x, (int, float, str, list, type(None))):
        return x
    return repr(x)[:120]


def hdr(np, a):
    """everything observable about an array besides its bytes: class, dtype, shape, strides, the WRITEABLE / ALIGNED flags
    and the instance attributes of an ndarray subclass (a Vec has a __dict__)"""
    d = getattr(a, "__dict__", None)
    return (type(a).__name__, a.dtype.str, tuple(a.shape), tuple(a.strides), bool(a.flags.writeable), bool(a.flags.aligned),
            tuple(sorted((str(k), repr(v)[:60]) for k, v in d.items())) if d else ())


HDR_FIELDS = ("class", "dtype", "shape", "strides", "writeable_flag", "aligned_flag", "instance_attributes")


def hdr_diff(h0, h1):
    """names of the header fields that differ"""
    return [f for f, x, y in zip(HDR_FIELDS, h0, h1) if x != y]


def _leaves(v, np, AABB, out, depth=0):
    """flattens a result into (tag | number) leaves for the tolerant comparison of two argument forms"""
    if isinstance(v, AABB):
        out.append("box"); _leaves(v.mini, np, AABB, out, depth + 1); _leaves(v.maxi, np, AABB, out, depth + 1)
    elif isinstance(v, np.ndarray) and v.ndim == 0 and v.dtype != object:
        out.append(complex(v.item()))          # a 0-d array (np.sum of a Vec is a 0-d Vec) is a number
    elif isinstance(v, np.ndarray):
        out.append(("arr", tuple(v.shape)))
        if v.dtype == object:
            out.extend(repr(x) for x in v.ravel().tolist())
        else:
            out.extend(complex(x) for x in v.ravel().tolist())
    elif isinstance(v, (tuple, list)) and depth < 6:
        out.append(("seq", len(v)))
        for x in v:
            _leaves(x, np, AABB, out, depth + 1)
    elif isinstance(v, (bool, np.bool_)):
        out.append(("bool", bool(v)))
    elif isinstance(v, (int, float, complex, np.number)):
        out.append(complex(v))
    else:
        out.append(("other", type(v).__name__, repr(v)[:80]))


def same_result(a, b, np, AABB, tol=1e-9):
    la, lb = [], []
    _leaves(a, np, AABB, la); _leaves(b, np, AABB, lb)
    if len(la) != len(lb):
        return False
    for x, y in zip(la, lb):
        if isinstance(x, complex) and isinstance(y, complex):
            if x == y or (x != x and y != y):
                continue
            if x != x or y != y or abs(x) == float("inf") or abs(y) == float("inf"):
                return False
            if abs(x - y) > tol * max(abs(x), abs(y)):
                return False
        elif x != y:
            return False
    return True


class Guard:
    """Calls real code; after every call (return or raise) checks that numpy.geterr() is what it was
    and that every array / box / list passed as argument is byte-identical AND has the header it had (class, dtype,
    shape, strides, WRITEABLE / ALIGNED flags, instance attributes); restores the error state so
    that one execution cannot pollute the next.  Violations are de-duplicated per task by fingerprint.

    Argument-form deviation: the swept sweeps hand plain numpy arrays; the documented argument type of the primitives is
    mouette's Vec.  For every entry point (callee name) the first VEC_FIRST guarded calls of a task and every VEC_EVERY-th
    one after that are repeated with every plain 1-D numeric array argument replaced by a Vec that owns a copy of the
    data; the repeated call is guarded like any other (bytes, header, numpy error state of the Vec arguments) and its
    answer must be the answer of the array form (relative 1e-9; 'raises' against 'returns' is counted, not judged).
    Calls made through a lambda (documented in-place targets hidden from the guard) are not repeated."""
    VEC_FIRST, VEC_EVERY = 4, 8

    def __init__(self, rep, np, AABB, init, lib_dir, Vec=None):
        self.rep, self.np, self.AABB, self.init, self.lib_dir = rep, np, AABB, dict(init), lib_dir
        self.Vec = Vec
        self.seen = set()
        self.blamed = {}
        self.ncalls = 0
        self.per_name = {}
        np.seterr(**self.init)

    def viol(self, sub, callee, kind, icls, detail):
        fp = (sub, callee, kind, icls)
        self.rep.count("occurrences:" + " | ".join(fp))
        if fp in self.seen:
            return
        self.seen.add(fp)
        self.rep.violation(sub, callee, kind, icls, detail)

    def call(self, name, fn, *args, **kw):
        ok, val, exc = self._guarded(name, fn, args, kw, "")
        np, Vec = self.np, self.Vec
        if Vec is not None and getattr(fn, "__name__", "") != "<lambda>":
            plain = [i for i, a in enumerate(args) if type(a) is np.ndarray and a.ndim == 1 and a.dtype.kind in "fiu"]
            if plain:
                n = self.per_name[name] = self.per_name.get(name, 0) + 1
                if n <= self.VEC_FIRST or n % self.VEC_EVERY == 0:
                    args2 = list(args)
                    for i in plain:
                        args2[i] = Vec(args[i].copy())
                    ok2, val2, exc2 = self._guarded(name, fn, tuple(args2), kw, ":Vec_argument")
                    self.rep.count("forms:vec_argument_reruns")
                    self.rep.flag("vecform:" + name)
                    if ok != ok2:
                        self.rep.count(f"observed:vec_argument_outcome_differs:{name}:{'returns' if ok2 else 'raises'}")
                    elif ok:
                        self.rep.count("eval:C12.forms.vec_argument")
                        self.rep.evaluations += 1
                        if not same_result(val, val2, np, self.AABB):
                            self.viol("C12.forms.vec_argument", name, "mismatch:differs_from_ndarray_argument", "Vec_argument",
                                      {"call": name, "args": [_short(x, np) for x in args], "ndarray_form": repr(val)[:200],
                                       "Vec_form": repr(val2)[:200]})
        return ok, val, exc

    def _guarded(self, name, fn, args, kw, form):
        np = self.np
        snaps = []
        for i, a in enumerate(args):
            if isinstance(a, np.ndarray):
                snaps.append((i, a, hdr(np, a), a.tobytes()))
            elif isinstance(a, self.AABB):
                snaps.append((i, a, None, (a.mini.tobytes(), a.maxi.tobytes(), hdr(np, a.mini), hdr(np, a.maxi))))
            elif isinstance(a, list):
                snaps.append((i, a, "list", repr(a)))
        try:
            val = fn(*args, **kw)
            ok, exc = True, None
        except Exception as e:  # noqa
            val, ok, exc = None, False, type(e).__name__
        self.ncalls += 1
        if np.geterr() != self.init:
            self._errstate(name, fn, args, kw, ok)
        for i, a, h0, img in snaps:
            what, changed, before, after = None, False, None, None
            if h0 is None:
                now = (a.mini.tobytes(), a.maxi.tobytes(), hdr(np, a.mini), hdr(np, a.maxi))
                changed = now[:2] != img[:2]
                what = sorted(set(hdr_diff(img[2], now[2]) + hdr_diff(img[3], now[3])))
                before, after = img[2:], now[2:]
            elif h0 == "list":
                changed = repr(a) != img
            else:
                h1 = hdr(np, a)
                what = hdr_diff(h0, h1)
                changed = a.tobytes() != img or "shape" in what
                before, after = h0, h1
            if changed:
                self.viol("C12.effects.arguments_unchanged", name, "side_effect:argument_changed",
                          f"arg{i}:{'returns' if ok else 'raises'}{form}",
                          {"call": name, "args_after": [_short(x, np) for x in args], "arg_index": i,
                           "before_bytes": repr(img)[:200]})
            elif what:
                self.viol("C12.effects.arguments_unchanged", name, "side_effect:argument_header_changed",
                          f"{'+'.join(what)}{form}",
                          {"call": name, "args_after": [_short(x, np) for x in args], "arg_index": i, "changed": what,
                           "outcome": "returned" if ok else "raised " + str(exc),
                           "header_before": repr(before), "header_after": repr(after)})
        return ok, val, exc

    def _errstate(self, name, fn, args, kw, ok):
        np = self.np
        after = np.geterr()
        np.seterr(**self.init)
        key = (name, ok)
        if key not in self.blamed:
            # the swept functions are pure: run the same call again under the profile hook to find the
            # innermost library function that leaves the state changed
            r = blame_run(np, self.lib_dir, fn, args, kw)
            np.seterr(**self.init)
            self.blamed[key] = r[4] or name
        self.viol("C12.effects.numpy_errstate", self.blamed[key], "side_effect:numpy_errstate",
                  "on_return" if ok else "on_raise",
                  {"call": name, "args": [_short(x, np) for x in args], "geterr_before": self.init,
                   "geterr_after": after, "outcome": "returned" if ok else "raised"})


def lib_dir_of(module):
    return os.path.dirname(os.path.realpath(module.__file__)) + os.sep
