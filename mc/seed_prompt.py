"""Prints the prompt for a seeded-change sub-agent: python3 mc/seed_prompt.py C01 /tmp/wt/c01 /tmp/seed_out/C01"""
import json, sys
pid, wt, out = sys.argv[1:4]
EXTRA = sys.argv[4] if len(sys.argv) > 4 else ""
p = [json.loads(l) for l in open('/verif/properties.jsonl') if json.loads(l)['id'] == pid][0]
print(f"""You are helping to evaluate a verification tool for the Python geometry library "mouette". Your own git worktree of the library is at {wt} (a scratch copy: edit it freely; never touch /repo, never look at or touch /verif). Run Python with /venv/bin/python from inside {wt} (cwd first on sys.path, so `import mouette` picks up YOUR copy - verify with `python -c "import mouette; print(mouette.__file__)"`).

Here is a semantic property of the library that should hold:

TITLE: {p['title']}
STATEMENT: {p['statement']}
QUANTIFIED OVER: {p['quantifier']['text']}
RELEVANT FILES: {', '.join(p['anchors']['files'])}

Your job: produce THREE different, realistic, subtle changes to the library source (each a small patch, 1-10 lines, the kind of slip a maintainer could make in a refactoring or "optimisation") such that, for each change taken alone:
 (1) the library still imports and the EXISTING test suite still passes exactly as before: run `cd {wt} && /venv/bin/python -m pytest -q -p no:cacheprovider -n 8 --timeout=900 -x -q 2>&1 | tail -15` before any change to get the baseline (a fixed set of tests about OSQP/levenberg_marquardt/LSCM/volume framefield fail or error in the baseline for environment reasons - those must simply stay the same set) and after each change;
 (2) the change BREAKS the property above (some clause of the statement becomes false for some input / history / configuration);
 (3) the breakage needs something specific to manifest - a particular order of calls, a multi-step sequence of operations, an unusual (but legal) input shape or parameter relation, a particular configuration switch, or two cooperating sites that each look fine alone - NOT something ordinary use would expose at once;
 (4) you provide a demonstration: a small standalone Python program demo.py (run as `/venv/bin/python demo.py` from the worktree root) that exits 0 on the unmodified library and exits 1 (printing what went wrong) with the change applied.
Prefer changes in shared mutable state, lazy-cache/guard logic, index/offset arithmetic, comparison operators in bounds, defaults and aliasing - in the files listed above. The three changes should touch different mechanisms/clauses.
{EXTRA}

Deliverables: for k in a, b, c create the directory {out}/{{k}}/ containing: patch.diff (output of `git -C {wt} diff` for that change alone, applicable with `git apply` to a clean checkout), demo.py, and notes.txt (which clause it breaks, what it needs in order to manifest, the exact commands you ran and their outcome: baseline test summary line, test summary line with the change, demo exit codes without/with the change). After saving each patch, restore the worktree with `git -C {wt} checkout -- .` before making the next change. Leave the worktree clean at the end. Your final message: a short summary of the three changes (one paragraph each).""")
