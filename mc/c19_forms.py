"""Helpers of the C19 driver: documented defaults / argument forms of one public entry point.

Nothing here imports mouette.  A documented signature is a list of [name, default] in the documented order
(`REQ` for a parameter without default), pinned in the driver - never read from the library at run time.

* `forms(sig, values)`        every way of making ONE call whose meaning, by the documented signature, is
                              "every parameter = values[name]": all by keyword (the unambiguous reading), all
                              positional, required positional + options by keyword, positional up to the j-th
                              option, each option that has its documented default omitted (alone, all together).
* `canon(outcome)`            the whole answer of a call as a comparable, JSON-able value (type names, sizes,
                              every coordinate / index / attribute value; an exception = ("raises", class)).
* `differ(want, got)`         None if two canonical answers say the same, else the kind of the difference.
* `signature_diffs(fn, sig)`  the library's signature against the pinned one.
"""
from __future__ import annotations
import inspect

REQ = "<required>"


def options_of(sig):
    return [n for n, d in sig if not _is_req(d)]


def required_of(sig):
    return [n for n, d in sig if _is_req(d)]


def _is_req(d):
    return isinstance(d, str) and d == REQ


def same_value(a, b):
    """documented default == value (bool only equals bool, None only None; 0 == 0.0)."""
    if a is None or b is None:
        return a is None and b is None
    if isinstance(a, bool) or isinstance(b, bool):
        return isinstance(a, bool) and isinstance(b, bool) and a == b
    if isinstance(a, (int, float)) and isinstance(b, (int, float)):
        return a == b
    if isinstance(a, str) or isinstance(b, str):
        return isinstance(a, str) and isinstance(b, str) and a == b
    return False


def forms(sig, values):
    """[dict(sub, cls, pos=[names passed positionally], kw=[names passed by keyword], omitted=[names])]; the first
    one is the all-keyword form (the reading every other form is compared with)."""
    names = [n for n, _ in sig]
    req, opts = required_of(sig), options_of(sig)
    doc = dict((n, d) for n, d in sig)
    out = [{"sub": "keyword", "cls": "all_by_keyword", "pos": [], "kw": list(names), "omitted": []}]
    # positional in the documented order: up to the j-th option, the rest by keyword (j = len(opts): all positional)
    # (shortest first: a parameter that sits at another position breaks the shortest form that reaches it, whatever the values)
    for j in range(0, len(opts) + 1):
        if j == 0 and not req:
            continue
        cls = "positional_upto:" + (opts[j - 1] if j else req[-1])
        out.append({"sub": "positional", "cls": cls, "pos": req + opts[:j], "kw": opts[j:], "omitted": []})
    # omissions: only options whose requested value IS the documented default may be left out
    at_default = [p for p in opts if same_value(doc[p], values[p])]
    for p in at_default:
        out.append({"sub": "omitted", "cls": p, "pos": list(req), "kw": [q for q in opts if q != p], "omitted": [p]})
    if len(at_default) >= 2:
        out.append({"sub": "omitted", "cls": "several_options_together", "pos": list(req),
                    "kw": [q for q in opts if q not in at_default], "omitted": list(at_default)})
    return out


def call_text(callee, form, values, show):
    parts = [show(values[n]) for n in form["pos"]] + [f"{n}={show(values[n])}" for n in form["kw"]]
    return f"{callee}({', '.join(parts)})"


# ------------------------------------------------------------------------------------------------ canonical answers
def _arr(x):
    import numpy as np
    a = np.asarray(x)
    if a.dtype == object:
        return repr(x)
    return a.tolist()


def _container(c):
    n = len(c)
    out = {"n": n, "data": [_arr(c[i]) for i in range(n)], "attributes": {}}
    names = sorted(str(a) for a in getattr(c, "attributes", ()))
    for a in names:
        attr = c.get_attribute(a)
        out["attributes"][a] = [_arr(attr[i]) for i in range(n)]
    return out


def canon_value(v):
    import numpy as np
    if v is None or isinstance(v, (bool, int, float, str)):
        return [type(v).__name__, [], v]
    if isinstance(v, (np.integer, np.floating, np.bool_)):
        return [type(v).__name__, [], v.item()]
    if isinstance(v, np.ndarray):
        return [type(v).__name__, list(v.shape), _arr(v)]
    if isinstance(v, (tuple, list)):
        items = [canon_value(x) for x in v]
        return [type(v).__name__, [len(v)] + [it[1] for it in items], items]
    if hasattr(v, "vertices") and hasattr(v.vertices, "get_attribute"):           # a mesh of any type
        body, size = {}, []
        for cname in ("vertices", "edges", "faces", "cells"):
            c = getattr(v, cname, None)
            if c is not None and hasattr(c, "__len__"):
                body[cname] = _container(c)
                size.append(len(c))
        return [type(v).__name__, size, body]
    if hasattr(v, "mini") and hasattr(v, "maxi"):                                 # a box
        return [type(v).__name__, [len(v.mini)], {"mini": _arr(v.mini), "maxi": _arr(v.maxi)}]
    if hasattr(v, "pts"):                                                          # a curve / patch: its control points
        pts = v.pts
        if len(pts) and not isinstance(pts[0], np.ndarray):
            data = [[_arr(p) for p in row] for row in pts]
            return [type(v).__name__, [len(data), len(data[0])], data]
        data = [_arr(pts[i]) for i in range(len(pts))]
        return [type(v).__name__, [len(data)], data]
    return [type(v).__name__, [], repr(v)]


def canon(o):
    if not o.ok:
        return ["raises", [], o.exc]
    return canon_value(o.value)


def differ(want, got):
    """None, or the kind of the first difference between two canonical answers."""
    if want[0] == "raises" or got[0] == "raises":
        if want[0] == got[0]:
            return None                       # which exception is not compared
        return ("raises:" + str(got[2])) if got[0] == "raises" else "mismatch:answers_where_the_explicit_call_raises"
    if want[0] != got[0]:
        return "mismatch:return_type"
    if want[1] != got[1]:
        if want[0] in ("tuple", "list") and len(want[2]) == len(got[2]):
            for a, b in zip(want[2], got[2]):
                d = differ(a, b)
                if d:
                    return d
        return "mismatch:count"
    if want[0] in ("tuple", "list"):
        for a, b in zip(want[2], got[2]):
            d = differ(a, b)
            if d:
                return d
        return None
    return None if _eq(want[2], got[2]) else "mismatch:value"


def _eq(a, b):
    if isinstance(a, float) and isinstance(b, float):
        return a == b or (a != a and b != b)
    if isinstance(a, dict) and isinstance(b, dict):
        return a.keys() == b.keys() and all(_eq(a[k], b[k]) for k in a)
    if isinstance(a, (list, tuple)) and isinstance(b, (list, tuple)):
        return len(a) == len(b) and all(_eq(x, y) for x, y in zip(a, b))
    return type(a) is type(b) and a == b or (isinstance(a, (int, float)) and isinstance(b, (int, float))
                                             and not isinstance(a, bool) and not isinstance(b, bool) and a == b)


def brief(c, k=6):
    """short, JSON-able view of a canonical answer for the detail of a report"""
    def cut(x, depth=0):
        if isinstance(x, dict):
            return {kk: cut(v, depth + 1) for kk, v in list(x.items())[:k]}
        if isinstance(x, (list, tuple)):
            return [cut(v, depth + 1) for v in list(x)[:k]] + (["..."] if len(x) > k else [])
        return x
    return {"type": c[0], "size": c[1], "content": cut(c[2])}


# ------------------------------------------------------------------------------------------------ signature
def signature_diffs(fn, sig):
    """[(kind, parameter, library signature as [[name, repr(default)]])] - empty when the library's signature is the
    documented one.  A required parameter that became optional, and extra optional parameters, are no difference."""
    params = [p for p in inspect.signature(fn).parameters.values()]
    if params and params[0].name in ("self", "cls"):
        params = params[1:]
    named = [p for p in params if p.kind not in (inspect.Parameter.VAR_POSITIONAL, inspect.Parameter.VAR_KEYWORD)]
    names = [p.name for p in named]
    lib = [[p.name, REQ if p.default is inspect.Parameter.empty else repr(p.default)] for p in named]
    out = []
    for i, (n, d) in enumerate(sig):
        if n not in names:
            out.append(("mismatch:parameter_missing", n, lib))
            continue
        p = named[names.index(n)]
        if names.index(n) != i:
            out.append(("mismatch:parameter_order", n, lib))
        if p.kind is not inspect.Parameter.POSITIONAL_OR_KEYWORD:
            out.append(("mismatch:parameter_kind", n, lib))
        if _is_req(d):
            continue
        if p.default is inspect.Parameter.empty or not same_value(d, p.default):
            out.append(("mismatch:default_value", n, lib))
    doc_names = [n for n, _ in sig]
    for p in named:
        if p.name not in doc_names and p.default is inspect.Parameter.empty:
            out.append(("mismatch:new_required_parameter", p.name, lib))
    return out


def selftest():
    bad = []
    sig = [["a", REQ], ["n", REQ], ["mode", "uniform"], ["flag", False]]
    fs = forms(sig, {"a": 1, "n": 2, "mode": "uniform", "flag": False})
    got = sorted((f["sub"], f["cls"]) for f in fs)
    want = sorted([("keyword", "all_by_keyword"), ("positional", "positional_upto:flag"), ("positional", "positional_upto:mode"),
                   ("positional", "positional_upto:n"), ("omitted", "mode"), ("omitted", "flag"), ("omitted", "several_options_together")])
    if got != want:
        bad.append(f"forms: {got}")
    if [f for f in forms(sig, {"a": 1, "n": 2, "mode": "grid", "flag": 0}) if f["sub"] == "omitted"]:
        bad.append("forms: an option away from its documented default (or 0 for False) was omitted")

    def f_ok(a, n, mode="uniform", flag=False): pass
    def f_def(a, n, mode="grid", flag=False): pass
    def f_ord(a, n, flag=False, mode="uniform"): pass
    def f_new(a, n, extra, mode="uniform", flag=False): pass
    if signature_diffs(f_ok, sig):
        bad.append("signature_diffs: false alarm")
    if [(k, p) for k, p, _ in signature_diffs(f_def, sig)] != [("mismatch:default_value", "mode")]:
        bad.append("signature_diffs: changed default")
    if {(k, p) for k, p, _ in signature_diffs(f_ord, sig)} != {("mismatch:parameter_order", "mode"), ("mismatch:parameter_order", "flag")}:
        bad.append("signature_diffs: swapped order")
    if ("mismatch:new_required_parameter", "extra") not in {(k, p) for k, p, _ in signature_diffs(f_new, sig)}:
        bad.append("signature_diffs: new required parameter")
    import numpy as np

    class O:
        def __init__(self, v): self.ok, self.value, self.exc, self.msg = True, v, None, ""
    a = canon(O(np.array([[1., 2.]])))
    if differ(a, canon(O(np.array([[1., 2.]])))) is not None or differ(a, canon(O(np.array([[1., 2.5]])))) != "mismatch:value" \
            or differ(a, canon(O(np.array([[1., 2.], [0., 0.]])))) != "mismatch:count" \
            or differ(a, canon(O((np.array([[1., 2.]]), 1)))) != "mismatch:return_type":
        bad.append("differ")
    return bad
