"""Producers for C06: every way the library hands out a mesh, at minimal size.

Each producer is a function ``ctx -> Built``; ``ctx.dir`` is a scratch directory that already holds the
input files (written once per task by ``write_files``).  A producer creates FRESH real objects on every call
(the explorer re-creates states by replaying histories).  ``Built`` lists

    meshes   [(real mesh, label)]                live meshes handed to the experiment (1 or 2)
    links    [(i, j, label)]                     derivation edges between those meshes (who was made from whom)
    callers  [(numpy array, owner index, label)] arrays that belong to the CALLER and were passed to the producer

mouette is imported inside the functions only.
"""
from __future__ import annotations
import os

# exact dyadic coordinates; vertex 0 is deliberately NOT the origin
PTS = [[1.0, 0.5, -1.0], [2.0, 0.5, -1.0], [1.0, 1.5, -1.0], [2.0, 1.5, -0.5], [1.5, 1.0, 1.0]]
TRIS = [[0, 1, 2], [1, 3, 2]]
TETS = [[0, 1, 2, 3], [1, 2, 3, 4]]

FILES = {
    "s.obj": "v 1.0 0.5 -1.0\nv 2.0 0.5 -1.0\nv 1.0 1.5 -1.0\nv 2.0 1.5 -0.5\nf 1 2 3 \nf 2 4 3 \n",
    "l.obj": "v 1.0 0.5 -1.0\nv 2.0 0.5 -1.0\nv 1.0 1.5 -1.0\nl 1 2\nl 2 3\n",
    "s.off": "OFF\n4 2 5\n1.0 0.5 -1.0\n2.0 0.5 -1.0\n1.0 1.5 -1.0\n2.0 1.5 -0.5\n3 0 1 2\n3 1 3 2\n",
    "s.mesh": "MeshVersionFormatted 1\nDimension 3\nVertices\n4\n1.0 0.5 -1.0 1\n2.0 0.5 -1.0 1\n1.0 1.5 -1.0 1\n"
              "2.0 1.5 -0.5 1\n\nEdges\n0\n\nTriangles\n2\n1 2 3 1\n2 4 3 1\n\n",
    "v.mesh": "MeshVersionFormatted 1\nDimension 3\nVertices\n4\n1.0 0.5 -1.0 1\n2.0 0.5 -1.0 1\n1.0 1.5 -1.0 1\n"
              "2.0 1.5 -0.5 1\n\nEdges\n0\n\nTriangles\n4\n2 4 3 1\n1 3 4 1\n4 2 1 1\n1 2 3 1\n\nTetrahedra\n1\n1 2 3 4 1\n\n",
    "l.mesh": "MeshVersionFormatted 1\nDimension 3\nVertices\n4\n1.0 0.5 -1.0 1\n2.0 0.5 -1.0 1\n1.0 1.5 -1.0 1\n"
              "2.0 1.5 -0.5 1\n\nEdges\n2\n1 2 1\n2 3 1\n\n",
    "e.mesh": "MeshVersionFormatted 1\nDimension 3\nVertices\n5\n1.0 0.5 -1.0 1\n2.0 0.5 -1.0 1\n1.0 1.5 -1.0 1\n"
              "2.0 1.5 -0.5 1\n1.5 1.0 1.0 1\n\nEdges\n3\n3 4 1\n4 5 1\n1 2 1\n\nTriangles\n2\n1 2 3 1\n2 4 3 1\n\n",
    "h.mesh": "MeshVersionFormatted 1\nDimension 3\nVertices\n12\n1 1 1 1\n2 1 1 1\n2 2 1 1\n1 2 1 1\n1 1 2 1\n2 1 2 1\n"
              "2 2 2 1\n1 2 2 1\n1 1 3.5 1\n2 1 3.5 1\n2 2 3.5 1\n1 2 3.5 1\n\nHexahedra\n2\n1 2 3 4 5 6 7 8 1\n"
              "5 6 7 8 9 10 11 12 1\n\n",
    "p.xyz": "1.0 0.5 -1.0\n2.0 0.5 -1.0\n1.0 1.5 -1.0\n2.0 1.5 -0.5\n",
    "v.tet": "4 vertices\n1 tets\n1.0 0.5 -1.0\n2.0 0.5 -1.0\n1.0 1.5 -1.0\n2.0 1.5 -0.5\n4 0 1 2 3\n",
    "s.ply": "ply\nformat ascii 1.0\nelement vertex 4\nproperty float x\nproperty float y\nproperty float z\n"
             "element face 2\nproperty list uchar int vertex_indices\nend_header\n1 0.5 -1\n2 0.5 -1\n1 1.5 -1\n"
             "2 1.5 -0.5\n3 0 1 2\n3 1 3 2\n",
    "s.stl": "solid t\nfacet normal 0 0 1\nouter loop\nvertex 1 0.5 -1\nvertex 2 0.5 -1\nvertex 1 1.5 -1\nendloop\n"
             "endfacet\nfacet normal 0 0 1\nouter loop\nvertex 2 0.5 -1\nvertex 2 1.5 -0.5\nvertex 1 1.5 -1\nendloop\n"
             "endfacet\nendsolid t\n",
    "s.geogram_ascii": "\n".join(
        '[HEAD]|"GEOGRAM"|"1.0"|[ATTS]|"GEO::Mesh::vertices"|4|[ATTR]|"GEO::Mesh::vertices"|"point"|"double"|8|3|1.0|0.5|'
        '-1.0|2.0|0.5|-1.0|1.0|1.5|-1.0|2.0|1.5|-0.5|[ATTS]|"GEO::Mesh::edges"|5|[ATTR]|"GEO::Mesh::edges"|'
        '"GEO::Mesh::edges::edge_vertex"|"index_t"|4|2|0|1|1|2|0|2|1|3|2|3|[ATTR]|"GEO::Mesh::edges"|"hard_edges"|"bool"|1|1|0|'
        '0|0|0|0|[ATTS]|"GEO::Mesh::facets"|2|[ATTS]|"GEO::Mesh::facet_corners"|6|[ATTR]|"GEO::Mesh::facet_corners"|'
        '"GEO::Mesh::facet_corners::corner_vertex"|"index_t"|4|1|0|1|2|1|3|2|'.split("|")),
}


def write_files(d):
    for name, txt in FILES.items():
        with open(os.path.join(d, name), "w") as f:
            f.write(txt)


class Built:
    def __init__(self, meshes, links=(), callers=()):
        self.meshes = list(meshes)
        self.links = list(links)
        self.callers = list(callers)


def _one(m, label, callers=()):
    return Built([(m, label)], (), [(a, 0, label) for a in callers])


# ---------------------------------------------------------------------------------------------------
def _loader(fname):
    def f(ctx):
        import mouette as M
        return _one(M.mesh.load(os.path.join(ctx.dir, fname)), "load:" + fname.split(".", 1)[1] + ":" + fname[0])
    return f


def _arr(rows, dtype=float):
    import numpy as np
    return np.array(rows, dtype=dtype)


def _vecs(rows):
    from mouette import Vec
    return [Vec(float(r[0]), float(r[1]), float(r[2])) for r in rows]


def fa_pointcloud(ctx):
    import mouette as M
    V = _arr(PTS[:4])
    return _one(M.mesh.from_arrays(V), "from_arrays", [V])


def fa_polyline(ctx):
    import mouette as M
    V = _arr(PTS[:4])
    return _one(M.mesh.from_arrays(V, E=_arr([[0, 1], [1, 2], [2, 3]], int)), "from_arrays", [V])


def fa_surface(ctx):
    import mouette as M
    V = _arr(PTS[:4])
    return _one(M.mesh.from_arrays(V, F=_arr(TRIS, int)), "from_arrays", [V])


def fa_volume(ctx):
    import mouette as M
    V = _arr(PTS)
    return _one(M.mesh.from_arrays(V, C=_arr(TETS, int)), "from_arrays", [V])


def fa_2col(ctx):
    import mouette as M
    V = _arr([p[:2] for p in PTS[:4]])
    return _one(M.mesh.from_arrays(V, F=_arr(TRIS, int)), "from_arrays(2 columns)", [V])


def fa_int(ctx):
    import mouette as M
    V = _arr([[1, 0, -1], [2, 0, -1], [1, 1, -1], [2, 1, 0]], int)
    return _one(M.mesh.from_arrays(V, F=_arr(TRIS, int)), "from_arrays(int array)", [V])


def raw_lists(ctx):
    """RawMeshData filled with plain python lists (the documented manual construction)"""
    import mouette as M
    raw = M.mesh.RawMeshData()
    raw.vertices += [list(p) for p in PTS[:4]]
    raw.faces += [tuple(t) for t in TRIS]
    return _one(M.mesh.SurfaceMesh(raw), "RawMeshData(lists)")


def _volume():
    import mouette as M
    raw = M.mesh.RawMeshData()
    raw.vertices += _vecs(PTS)
    raw.cells += [tuple(t) for t in TETS]
    return M.mesh.VolumeMesh(raw)


def raw_volume(ctx):
    return _one(_volume(), "RawMeshData(Vec)")


def raw_whisker(ctx):
    """two triangles plus a declared free-standing edge (3,4) that no face carries"""
    import mouette as M
    raw = M.mesh.RawMeshData()
    raw.vertices += _vecs(PTS)
    raw.faces += [tuple(t) for t in TRIS]
    raw.edges += [(3, 4)]
    return _one(M.mesh.SurfaceMesh(raw), "RawMeshData(Vec)")


def raw_volume_extras(ctx):
    """one tetrahedron plus a declared face that no cell carries and a declared edge that no face carries"""
    import mouette as M
    raw = M.mesh.RawMeshData()
    raw.vertices += _vecs(PTS + [[3.0, 1.0, 1.0]])
    raw.cells += [tuple(TETS[0])]
    raw.faces += [(1, 2, 4)]
    raw.edges += [(4, 5)]
    return _one(M.mesh.VolumeMesh(raw), "RawMeshData(Vec)")


# ---- meshes filled by hand with vectors that come out of the factories of Vec ---------------------------------------
def _factory_vectors():
    from mouette import Vec
    return [Vec.zeros(3), Vec.X(), Vec.Y(), Vec.Z(), Vec.X() + Vec.Z() / 2, Vec.zeros(3) - Vec.Y() * 2]


def hand_pointcloud(ctx):
    """PointCloud() filled through its append(): the vertex objects ARE the vectors the factories handed out (vertex 0
    is Vec.zeros(3), the origin)"""
    import mouette as M
    pc = M.mesh.PointCloud()
    for v in _factory_vectors()[:4]:
        pc.append(v)
    return _one(pc, "PointCloud().append(Vec factory)")


def hand_polyline(ctx):
    """PolyLine() whose containers are filled through their append() (no RawMeshData, no prepare())"""
    import mouette as M
    pl = M.mesh.PolyLine()
    for v in _factory_vectors():
        pl.vertices.append(v)
    for e in [(0, 1), (1, 2), (2, 3), (3, 4), (4, 5)]:
        pl.edges.append(e)
    return _one(pl, "PolyLine().vertices.append(Vec factory)")


def raw_factory(ctx):
    """RawMeshData filled with factory vectors, then SurfaceMesh(raw) (goes through prepare())"""
    import mouette as M
    raw = M.mesh.RawMeshData()
    raw.vertices += _factory_vectors()[:5]
    raw.faces += [(0, 1, 2), (0, 2, 3), (1, 4, 2)]
    return _one(M.mesh.SurfaceMesh(raw), "RawMeshData(Vec factory)")


def p_reorder(ctx):
    """reorder_vertices derives a mesh from another one (the source stays live)"""
    import mouette as M
    from mouette.mesh.mesh import reorder_vertices
    src = M.mesh.load(os.path.join(ctx.dir, "s.obj"))
    out = reorder_vertices(src, [3, 2, 1, 0])
    return Built([(src, "load:obj:s"), (out, "reorder_vertices")], [(0, 1, "reorder_vertices")])


# ---- procedural -------------------------------------------------------------------------------------
def p_triangle(ctx):
    import mouette as M
    P = _vecs(PTS[:3])
    return _one(M.procedural.triangle(*P), "triangle", P)


def p_quad(ctx):
    import mouette as M
    P = _vecs(PTS[:3])
    return _one(M.procedural.quad(*P), "quad", P)


def p_quad_tri(ctx):
    import mouette as M
    P = _vecs(PTS[:3])
    return _one(M.procedural.quad(*P, triangulate=True), "quad", P)


def p_grid(ctx):
    import mouette as M
    return _one(M.procedural.unit_grid(2, 2), "unit_grid")


def p_grid_tri_uv(ctx):
    import mouette as M
    return _one(M.procedural.unit_grid(3, 3, triangulate=True, generate_uvs=True), "unit_grid")


def p_unit_triangle(ctx):
    import mouette as M
    return _one(M.procedural.unit_triangle(2, 2), "unit_triangle")


def p_ring_closed(ctx):
    import mouette as M
    return _one(M.procedural.ring(3, 0.5), "ring(closed)")


def p_ring_open(ctx):
    import mouette as M
    return _one(M.procedural.ring(3, 0.5, open=True), "ring(open)")


def p_ring_open_cover2(ctx):
    import mouette as M
    return _one(M.procedural.ring(3, 0.5, open=True, n_cover=2), "ring(open)")


def p_flat_ring(ctx):
    import mouette as M
    return _one(M.procedural.flat_ring(3, 0.5), "flat_ring")


def p_tet_surface(ctx):
    import mouette as M
    P = _vecs(PTS[:4])
    return _one(M.procedural.tetrahedron(*P), "tetrahedron", P)


def p_tet_volume(ctx):
    import mouette as M
    P = _vecs(PTS[:4])
    return _one(M.procedural.tetrahedron(*P, volume=True), "tetrahedron", P)


CUBE = [[1, 1, 1], [2, 1, 1], [2, 2, 1], [1, 2, 1], [1, 1, 2], [2, 1, 2], [2, 2, 2], [1, 2, 2]]


def p_hexa_colored(ctx):
    import mouette as M
    P = _vecs(CUBE)
    return _one(M.procedural.hexahedron(*P, colored=True, triangulate=True), "hexahedron", P)


def p_hexa_volume(ctx):
    import mouette as M
    P = _vecs(CUBE)
    return _one(M.procedural.hexahedron(*P, volume=True), "hexahedron", P)


def p_hexa4_volume(ctx):
    import mouette as M
    P = _vecs([[1, 1, 1], [2, 1, 1], [1, 2, 1], [1, 1, 2]])
    return _one(M.procedural.hexahedron_4pts(*P, volume=True), "hexahedron_4pts", P)


CUBE2 = CUBE + [[1, 1, 3.5], [2, 1, 3.5], [2, 2, 3.5], [1, 2, 3.5]]
HEXES = [[0, 1, 2, 3, 4, 5, 6, 7], [4, 5, 6, 7, 8, 9, 10, 11]]


def fa_hex(ctx):
    """two hexahedra that share a face, from arrays"""
    import mouette as M
    V = _arr(CUBE2)
    return _one(M.mesh.from_arrays(V, C=_arr(HEXES, int)), "from_arrays", [V])


def raw_hex_tet(ctx):
    """one hexahedron and one tetrahedron standing on its top face in ONE volume mesh (cells of 8 and of 4 corners)"""
    import mouette as M
    raw = M.mesh.RawMeshData()
    raw.vertices += _vecs(CUBE + [[1.5, 1.5, 3.0]])
    raw.cells += [tuple(HEXES[0]), (4, 5, 7, 8)]
    return _one(M.mesh.VolumeMesh(raw), "RawMeshData(Vec)")


def p_merge_hex_tet(ctx):
    """merge of a tetrahedral volume and a hexahedral volume (the inputs stay live)"""
    import mouette as M
    t = M.procedural.tetrahedron(*_vecs(PTS[:4]), volume=True)
    h = M.procedural.hexahedron(*_vecs(CUBE), volume=True)
    mg = M.mesh.merge([t, h])
    return Built([(t, "tetrahedron"), (h, "hexahedron"), (mg, "merge")], [(0, 2, "merge"), (1, 2, "merge")])


def p_cube(ctx):
    import mouette as M
    return _one(M.procedural.axis_aligned_cube(), "axis_aligned_cube")


def p_hexa4(ctx):
    import mouette as M
    P = _vecs([[1, 1, 1], [2, 1, 1], [1, 2, 1], [1, 1, 2]])
    return _one(M.procedural.hexahedron_4pts(*P), "hexahedron_4pts", P)


def p_octahedron(ctx):
    import mouette as M
    return _one(M.procedural.octahedron(), "octahedron")


def p_icosahedron(ctx):
    import mouette as M
    return _one(M.procedural.icosahedron(), "icosahedron")


def p_dodecahedron(ctx):
    import mouette as M
    return _one(M.procedural.dodecahedron(), "dodecahedron")


def p_cylinder_caps(ctx):
    import mouette as M
    P = _vecs([[1, 0.5, -1], [1, 0.5, 1]])
    return _one(M.procedural.cylinder(P[0], P[1], radius=0.5, N=3), "cylinder", P)


def p_cylinder_open(ctx):
    import mouette as M
    P = _vecs([[1, 0.5, -1], [1, 0.5, 1]])
    return _one(M.procedural.cylinder(P[0], P[1], radius=0.5, N=3, fill_caps=False), "cylinder", P)


def p_torus(ctx):
    import mouette as M
    return _one(M.procedural.torus(3, 3, 1., 0.25), "torus")


def p_sphere_uv(ctx):
    import mouette as M
    C = _vecs([[1, 0.5, -1]])
    return _one(M.procedural.sphere_uv(3, 3, C[0], 2.), "sphere_uv", C)


def p_icosphere0(ctx):
    import mouette as M
    C = _vecs([[1, 0.5, -1]])
    return _one(M.procedural.icosphere(0, C[0], 2.), "icosphere", C)


def p_icosphere1(ctx):
    import mouette as M
    return _one(M.procedural.icosphere(1), "icosphere")


def p_fibo_points(ctx):
    import mouette as M
    return _one(M.procedural.sphere_fibonacci(5, build_surface=False), "sphere_fibonacci")


def p_fibo_surface(ctx):
    import mouette as M
    return _one(M.procedural.sphere_fibonacci(6), "sphere_fibonacci")


def p_chain(ctx):
    import mouette as M
    V = _arr(PTS[:4])
    return _one(M.procedural.chain_of_vertices(V), "chain_of_vertices", [V])


def p_chain_loop(ctx):
    import mouette as M
    V = _arr(PTS[:4])
    return _one(M.procedural.chain_of_vertices(V, loop=True), "chain_of_vertices", [V])


def p_vector_field(ctx):
    import mouette as M
    O, D = _arr(PTS[:2]), _arr([[0, 0, 1], [0.5, 0, 0]])
    return _one(M.procedural.vector_field(O, D, 2.), "vector_field", [O, D])


def p_spherify(ctx):
    import mouette as M
    V = _arr(PTS[:2])
    pc = M.mesh.from_arrays(V)
    sp = M.procedural.spherify_vertices(pc, radius=0.5, n_subdiv=0)
    return Built([(pc, "from_arrays"), (sp, "spherify_vertices")], [(0, 1, "spherify_vertices")], [(V, 0, "from_arrays")])


def p_cylindrify(ctx):
    import mouette as M
    raw = M.mesh.RawMeshData()
    raw.vertices += _vecs(PTS[:3])
    raw.edges += [(0, 1), (1, 2)]
    pl = M.mesh.PolyLine(raw)
    cy = M.procedural.cylindrify_edges(pl, radius=0.25, N=3)
    return Built([(pl, "RawMeshData(Vec)"), (cy, "cylindrify_edges")], [(0, 1, "cylindrify_edges")])


def p_dual_bary(ctx):
    import mouette as M
    g = M.procedural.unit_grid(3, 3, triangulate=True)
    d = M.procedural.dual_mesh(g, "barycenter")
    return Built([(g, "unit_grid"), (d, "dual_mesh(barycenter)")], [(0, 1, "dual_mesh(barycenter)")])


def p_dual_circ(ctx):
    import mouette as M
    g = M.procedural.unit_grid(3, 3, triangulate=True)
    d = M.procedural.dual_mesh(g, "circumcenter")
    return Built([(g, "unit_grid"), (d, "dual_mesh(circumcenter)")], [(0, 1, "dual_mesh(circumcenter)")])


# ---- merge as a starting point (heterogeneous inputs) -------------------------------------------------
def p_merge_mixed(ctx):
    import mouette as M
    V = _arr(PTS[:4])
    pl = M.mesh.from_arrays(V, E=_arr([[0, 1], [1, 2]], int))
    g = M.procedural.unit_grid(2, 2)
    mg = M.mesh.merge([pl, g])
    return Built([(pl, "from_arrays"), (g, "unit_grid"), (mg, "merge")], [(0, 2, "merge"), (1, 2, "merge")],
                 [(V, 0, "from_arrays")])


# ---- subdivision (the mesh that was passed in is consumed: only the result is live) --------------------
def _surf_subdiv(label, source, op):
    def f(ctx):
        import mouette as M
        src = source()
        with M.mesh.SurfaceSubdivision(src) as s:
            op(s)
        return _one(s.mesh, label)
    return f


def _grid22():
    import mouette as M
    return M.procedural.unit_grid(2, 2)


def _twotris():
    import mouette as M
    raw = M.mesh.RawMeshData()
    raw.vertices += _vecs(PTS[:4])
    raw.faces += [tuple(t) for t in TRIS]
    return M.mesh.SurfaceMesh(raw)


def p_split_double(ctx):
    import mouette as M
    src = _twotris()
    out = M.mesh.split_double_boundary_edges_triangles(src)
    return _one(out, "split_double_boundary_edges_triangles")


def _vol_subdiv(label, op):
    def f(ctx):
        import mouette as M
        src = _volume()
        with M.mesh.VolumeSubdivision(src) as s:
            op(s)
        return _one(s.mesh, label)
    return f


# ---- boundary extraction (source stays live) ------------------------------------------------------------
def p_boundary_surface(ctx):
    from mouette.processing import border
    src = _twotris()
    b, _ = border.extract_boundary_of_surface(src)
    return Built([(src, "RawMeshData(Vec)"), (b, "extract_boundary_of_surface")], [(0, 1, "extract_boundary_of_surface")])


def p_boundary_surface_ring(ctx):
    import mouette as M
    from mouette.processing import border
    src = M.procedural.ring(3, 0.5)
    b, _ = border.extract_boundary_of_surface(src)
    return Built([(src, "ring(closed)"), (b, "extract_boundary_of_surface")], [(0, 1, "extract_boundary_of_surface")])


def p_boundary_volume(ctx):
    from mouette.processing import border
    src = _volume()
    b, _, _ = border.extract_boundary_of_volume(src)
    return Built([(src, "RawMeshData(Vec)"), (b, "extract_boundary_of_volume")], [(0, 1, "extract_boundary_of_volume")])


PRODUCERS = {
    "load.obj": _loader("s.obj"), "load.obj.polyline": _loader("l.obj"), "load.off": _loader("s.off"),
    "load.mesh.surface": _loader("s.mesh"), "load.mesh.volume": _loader("v.mesh"), "load.mesh.polyline": _loader("l.mesh"),
    "load.mesh.edges": _loader("e.mesh"),
    "load.mesh.hex": _loader("h.mesh"),
    "load.xyz": _loader("p.xyz"), "load.tet": _loader("v.tet"), "load.ply": _loader("s.ply"),
    "load.stl_ascii": _loader("s.stl"), "load.geogram_ascii": _loader("s.geogram_ascii"),
    "from_arrays.pointcloud": fa_pointcloud, "from_arrays.polyline": fa_polyline, "from_arrays.surface": fa_surface,
    "from_arrays.volume": fa_volume, "from_arrays.hex": fa_hex, "from_arrays.2col": fa_2col, "from_arrays.int": fa_int,
    "raw.lists": raw_lists, "raw.volume": raw_volume, "raw.whisker": raw_whisker, "raw.volume.extras": raw_volume_extras,
    "raw.hex_tet": raw_hex_tet,
    "hand.pointcloud": hand_pointcloud, "hand.polyline": hand_polyline, "raw.factory": raw_factory,
    "reorder_vertices": p_reorder,
    "triangle": p_triangle, "quad": p_quad, "quad.tri": p_quad_tri, "unit_grid": p_grid, "unit_grid.tri_uv": p_grid_tri_uv,
    "unit_triangle": p_unit_triangle, "ring.closed": p_ring_closed, "ring.open": p_ring_open,
    "ring.open.cover2": p_ring_open_cover2, "flat_ring": p_flat_ring,
    "tetrahedron.surface": p_tet_surface, "tetrahedron.volume": p_tet_volume, "hexahedron.colored": p_hexa_colored,
    "hexahedron.volume": p_hexa_volume, "axis_aligned_cube": p_cube, "hexahedron_4pts": p_hexa4,
    "hexahedron_4pts.volume": p_hexa4_volume,
    "octahedron": p_octahedron, "icosahedron": p_icosahedron, "dodecahedron": p_dodecahedron,
    "cylinder.caps": p_cylinder_caps, "cylinder.open": p_cylinder_open, "torus": p_torus, "sphere_uv": p_sphere_uv,
    "icosphere0": p_icosphere0, "icosphere1": p_icosphere1, "sphere_fibonacci.points": p_fibo_points,
    "sphere_fibonacci.surface": p_fibo_surface, "chain_of_vertices": p_chain, "chain_of_vertices.loop": p_chain_loop,
    "vector_field": p_vector_field, "spherify_vertices": p_spherify, "cylindrify_edges": p_cylindrify,
    "dual_mesh.barycenter": p_dual_bary, "dual_mesh.circumcenter": p_dual_circ,
    "merge.mixed": p_merge_mixed, "merge.hex_tet": p_merge_hex_tet,
    "subdiv.triangulate": _surf_subdiv("SurfaceSubdivision.triangulate", _grid22, lambda s: s.triangulate()),
    "subdiv.fan": _surf_subdiv("SurfaceSubdivision.split_face_as_fan", _grid22, lambda s: s.split_face_as_fan(0)),
    "subdiv.loop": _surf_subdiv("SurfaceSubdivision.loop_subdivision", _twotris, lambda s: s.loop_subdivision(1)),
    "subdiv.3quads": _surf_subdiv("SurfaceSubdivision.subdivide_triangles_3quads", _twotris,
                                  lambda s: s.subdivide_triangles_3quads()),
    "subdiv.tri6": _surf_subdiv("SurfaceSubdivision.subdivide_triangles_6", _twotris, lambda s: s.subdivide_triangles_6(1)),
    "subdiv.split_double": p_split_double,
    "subdiv.vol.cell_fan": _vol_subdiv("VolumeSubdivision.split_cell_as_fan", lambda s: s.split_cell_as_fan(0)),
    "subdiv.vol.face_center": _vol_subdiv("VolumeSubdivision.split_tet_from_face_center",
                                          lambda s: s.split_tet_from_face_center(0)),
    "boundary.surface": p_boundary_surface, "boundary.surface.ring": p_boundary_surface_ring,
    "boundary.volume": p_boundary_volume,
}

# producers whose meshes are known (from reading the code) to involve shared storage or caller arrays, plus one
# representative per mesh class: these get the deepest exploration
DEEP = ["ring.open", "from_arrays.surface", "from_arrays.volume", "triangle", "boundary.surface", "boundary.volume",
        "load.obj", "load.ply", "unit_grid", "raw.volume", "from_arrays.pointcloud", "load.mesh.polyline",
        "subdiv.loop", "cylinder.caps"]
PAIRS = [("ring.open", "load.mesh.polyline"), ("from_arrays.surface", "raw.volume"), ("from_arrays.pointcloud", "unit_grid"),
         ("load.ply", "from_arrays.polyline"), ("hexahedron.volume", "triangle"), ("load.xyz", "load.tet"),
         ("subdiv.loop", "ring.open"), ("torus", "from_arrays.volume")]
