"""Runs the registered checks against the seeded property-breaking changes kept under /verif/seeded/.

usage: /venv/bin/python -B -m mc.seeded_eval [name or glob ...] [--thorough] [--demo]
For each seeded/<name>/ (patch.diff, demo.py, meta.json with "property"): a scratch worktree of /repo's
HEAD is created under /tmp, the patch applied, `./check <property>` run with VERIF_REPO pointing at it
(evidence and replays go to a scratch directory), the outcome appended to seeded/RESULTS.json, and the
worktree removed. Never touches /repo's working tree."""
import json, os, shutil, subprocess, sys, time
VERIF = os.path.dirname(os.path.dirname(os.path.abspath(__file__)))
SEEDED = os.path.join(VERIF, "seeded")


def run(cmd, **kw):
    return subprocess.run(cmd, capture_output=True, text=True, **kw)


def pyenv(wt):
    """demo programs must import the worktree's mouette, not the editable install of /repo"""
    return dict(os.environ, PYTHONPATH=wt)


def evaluate(name, tier, demo):
    d = os.path.join(SEEDED, name)
    meta = json.load(open(os.path.join(d, "meta.json")))
    props = meta["property"] if isinstance(meta["property"], list) else [meta["property"]]
    wt = f"/tmp/wt_eval_{name.replace('/', '_')}"
    run(["git", "-C", "/repo", "worktree", "remove", "--force", wt])
    r = run(["git", "-C", "/repo", "worktree", "add", "-f", "--detach", wt, "HEAD"])
    assert r.returncode == 0, r.stderr
    out = {"name": name, "properties": props, "tier": tier, "checks": {}}
    try:
        r = run(["git", "-C", wt, "apply", os.path.join(d, "patch.diff")])
        if r.returncode != 0:
            out["error"] = "patch does not apply: " + r.stderr[-300:]
            return out
        if demo and os.path.exists(os.path.join(d, "demo.py")):
            r = run(["/venv/bin/python", "-B", os.path.join(d, "demo.py")], cwd=wt, timeout=600, env=pyenv(wt))
            out["demo_exit_with_change"] = r.returncode
        scratch = f"/tmp/seeded_scratch_{name.replace('/', '_')}"
        env = dict(os.environ, VERIF_CONFIRM_CAP=os.environ.get("VERIF_CONFIRM_CAP", "3"), VERIF_REPO=wt, VERIF_EVIDENCE_DIR=scratch, VERIF_REPLAY_DIR=scratch + "/replay")
        for pid in props:
            t0 = time.time()
            r = run([os.path.join(VERIF, "check"), pid, "--tier", tier], cwd=VERIF, env=env, timeout=3600)
            fps = [l.strip()[len("fingerprint: "):] for l in r.stdout.splitlines() if l.strip().startswith("fingerprint:")]
            out["checks"][pid] = {"exit": r.returncode, "violations": sum(1 for l in r.stdout.splitlines() if l.startswith("VIOLATION")),
                                   "fingerprints": fps[:8], "wall_s": round(time.time() - t0, 1),
                                   "harness_errors": [l for l in r.stdout.splitlines() if l.startswith("HARNESS-ERROR")][:3]}
        shutil.rmtree(scratch, ignore_errors=True)
    finally:
        run(["git", "-C", "/repo", "worktree", "remove", "--force", wt])
    out["detected"] = any(c["exit"] == 1 and c["violations"] > 0 for c in out["checks"].values())
    return out


def main():
    args = [a for a in sys.argv[1:] if not a.startswith("--")]
    tier = "thorough" if "--thorough" in sys.argv else "quick"
    names = args or sorted(n for n in os.listdir(SEEDED) if os.path.isdir(os.path.join(SEEDED, n)) and os.path.exists(os.path.join(SEEDED, n, "meta.json")))
    respath = os.path.join(SEEDED, "RESULTS.json")
    import fcntl, fnmatch
    allnames = sorted(n for n in os.listdir(SEEDED) if os.path.isdir(os.path.join(SEEDED, n)) and os.path.exists(os.path.join(SEEDED, n, "meta.json")))
    names = [m for n in names for m in (fnmatch.filter(allnames, n) if any(c in n for c in "*?[") else [n])]
    for n in names:
        o = evaluate(n, tier, "--demo" in sys.argv)
        print(n, tier, "DETECTED" if o.get("detected") else "MISSED", json.dumps(o.get("checks", o.get("error")))[:400], flush=True)
        # several evaluators may run side by side: read-modify-write under a lock
        with open(respath + ".lock", "w") as lk:
            fcntl.flock(lk, fcntl.LOCK_EX)
            results = json.load(open(respath)) if os.path.exists(respath) else {}
            results[n + ":" + tier] = o
            tmp = respath + ".tmp"
            json.dump(results, open(tmp, "w"), indent=1, sort_keys=True)
            os.replace(tmp, respath)


if __name__ == "__main__":
    main()
