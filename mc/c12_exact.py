"""Helpers of props/c12.py:

(1) CALLING FORMS - every primitive that can be called in two ways (det_3x3(M) / det_3x3(A,B,C), det_2x2 with
    complex numbers / pairs, norm / Vec.norm, dot / Vec.dot, distance(A,B) / norm(B-A), face_basis(A,B,C) /
    face_basis([A,B,C]), Vec(x,y,z) / Vec([x,y,z]), Vec.normalized / Vec.normalize, rotate_2d / rotation about z,
    angle_2vec2D / signed 3-D angle about z, principal_angle(a) / angle_diff(a,0), triangle_area / triangle_area_2D)
    must give the same answer in both;
(2) EXACT ELEMENT TYPES - on lattices of LARGE magnitude (entries base + {-1,0,1}, plus mixed-sign / mixed-magnitude
    vectors) the + - * primitives (determinants, dot, cross, l1 / linf norms and distances) are compared with the
    rational oracle for every argument type: int64 arrays, Vec of int64, lists of Python ints, object arrays of
    Python ints / Fractions (thirds included) and float64.  EXACT equality is demanded where the arithmetic of the
    element type is exact: object arrays always, integer types when a computed bound on every intermediate
    (number of terms x max|entry|^factors) fits int64 (otherwise the call is filtered and counted), float64 when the
    bound fits 53 bits; float64 beyond that keeps a tolerance relative to the bound.
Argument forms that the docstrings do not name (lists, object arrays) may raise (counted, not reported); an ANSWER
must be right."""
from __future__ import annotations
import itertools, math
from fractions import Fraction as Fr
from mc import exact as X

INT_TYPES = ("int64", "vec_int64", "pyint_list")
OBJ_TYPES = ("object_int", "object_fraction", "object_thirds")
ARGTYPES = INT_TYPES + OBJ_TYPES + ("float64",)
DOCUMENTED = ("int64", "vec_int64", "float64")            # np.ndarray / Vec of a numeric dtype: an answer is promised
TWO53, TWO63 = 2 ** 53, 2 ** 63
TOL = 1e-12


def alphabet(base, sub=False):
    """Vectors around `base`: {base-1, base, base+1}^3 (sub: {base-1, base+1}^3) plus, for base > 1, nine vectors
    mixing signs and magnitudes (0, +-1, +-(base+-1)).  base == 0 is the small lattice {-1,0,1}^3."""
    if base == 0:
        return list(itertools.product((-1, 0, 1), repeat=3))
    b = base
    lat = list(itertools.product((b - 1, b + 1) if sub else (b - 1, b, b + 1), repeat=3))
    mixed = [(b + 1, 0, -1), (-b, 1, b - 1), (0, -(b + 1), b), (1, b, -(b - 1)), (-(b + 1), -(b - 1), 0),
             (b, -1, 1), (0, 0, 0), (-1, 0, b + 1), (b - 1, -b, -(b + 1))]
    return lat + mixed


def build(np, Vec, v, at):
    """-> (argument object, exact value tuple) or None when the element type cannot hold the entries."""
    m = max(abs(x) for x in v)
    if at == "int64":
        return (np.array(v, dtype=np.int64), tuple(v)) if m < TWO63 else None
    if at == "vec_int64":
        return (Vec(np.array(v, dtype=np.int64)), tuple(v)) if m < TWO63 else None
    if at == "pyint_list":
        return ([int(x) for x in v], tuple(v)) if m < TWO63 else None
    if at == "object_int":
        return np.array([int(x) for x in v], dtype=object), tuple(v)
    if at == "object_fraction":
        return np.array([Fr(x) for x in v], dtype=object), tuple(v)
    if at == "object_thirds":
        return np.array([Fr(x, 3) for x in v], dtype=object), tuple(Fr(x, 3) for x in v)
    if at == "float64":
        return (np.array(v, dtype=float), tuple(v)) if m < TWO53 else None
    raise KeyError(at)


def magclass(bound):
    return "intermediates<2^53" if bound < TWO53 else "intermediates<2^63" if bound < TWO63 else "intermediates>=2^63"


def mode_of(at, bound):
    """'exact' | 'tolerance' | None (= the element type overflows: not called)"""
    if at in OBJ_TYPES:
        return "exact"
    if at == "float64":
        return "exact" if bound < TWO53 else "tolerance"
    return "exact" if bound < TWO63 else None


def exact_of(x, np):
    """exact rational value of a scalar answer; None when it is not one finite number"""
    if isinstance(x, np.ndarray):
        if x.ndim != 0:
            return None
        x = x.item()
    if isinstance(x, Fr):
        return x
    if isinstance(x, (bool, np.bool_)):
        return None
    if isinstance(x, (int, np.integer)):
        return Fr(int(x))
    if isinstance(x, (float, np.floating)):
        f = float(x)
        return Fr(f) if math.isfinite(f) else None
    return None


def _show(x):
    return repr(x)[:80]


class Judge:
    """One comparison = one evaluation; fingerprints: subcheck x callee x kind x 'argtype:form:magnitude class'."""

    def __init__(self, c):
        self.c, self.np, self.rep = c, c.np, c.rep

    def value(self, name, callee, at, form, bound, ok, got, exc, want, detail, tol_ref=None, force_tol=False):
        """name: 'det_3x3' ... ; returns the exact value of the answer (None if none)."""
        c = self.c
        mode = "tolerance" if force_tol else mode_of(at, bound)
        icls = f"{at}:{form}:{magclass(bound)}"
        sub = f"C12.exact.{name}" if mode == "exact" else f"C12.prim.{name}.large_magnitude"
        if not ok:
            if at in DOCUMENTED:
                c.ev(sub)
                c.bad(sub, callee, "raises:" + exc, icls, detail)
            else:
                self.rep.count(f"observed:undocumented_argument_type_raises:{callee}:{at}:{exc}")
            return None
        c.ev(sub)
        self.rep.flag("mode:" + mode)
        e = exact_of(got, self.np)
        if e is None:
            c.bad(sub, callee, "mismatch:not_a_number", icls, dict(detail, got=_show(got)))
            return None
        if mode == "exact":
            if e != want:
                c.bad(sub, callee, "mismatch:not_exact", icls, dict(detail, got=_show(got), want=str(want)))
        else:
            ref = float(tol_ref if tol_ref is not None else bound)
            if abs(float(e - want)) > TOL * max(ref, 1.0):
                c.bad(sub, callee, "mismatch:value", icls, dict(detail, got=_show(got), want=str(want)))
        return e

    def agree(self, name, callee, at, bound, e1, e2, forms, detail, force_tol=False):
        """both calling forms answered e1, e2 (exact values): the same answer"""
        if e1 is None or e2 is None:
            return
        c = self.c
        sub = f"C12.forms.{name}"
        c.ev(sub)
        mode = "tolerance" if force_tol else mode_of(at, bound)
        same = (e1 == e2) if mode == "exact" else abs(float(e1 - e2)) <= TOL * max(float(bound), 1.0)
        if not same:
            c.bad(sub, callee, "mismatch:forms_disagree", f"{at}:{magclass(bound)}",
                  dict(detail, forms=list(forms), answers=[str(e1), str(e2)]))


# ------------------------------------------------------------------------------------------------
def _base(task):
    """bexp None: the small lattice {-1,0,1}; otherwise entries 2^bexp + {-1,0,1}"""
    return 0 if task["bexp"] is None else 2 ** task["bexp"]


def run_xdet3(task, c):
    """every ordered triple of the alphabet x argument types x {three vectors, one matrix}"""
    np, G, g, rep, Vec = c.np, c.G, c.g, c.rep, c.Vec
    base = _base(task)
    V = alphabet(base, task.get("sub", False))
    J = Judge(c)
    built = {at: [build(np, Vec, v, at) for v in V] for at in task["argtypes"]}
    rep.flag(f"xdet3:base=2^{task['bexp']}" if base else "xdet3:base=0")
    for i in range(task["chunk"], len(V), task["of"]):
        A = V[i]
        rep.case(("xdet3", base, A))
        for j, B in enumerate(V):
            for k, C in enumerate(V):
                rep.traces += 1
                m = max(max(abs(x) for x in A), max(abs(x) for x in B), max(abs(x) for x in C))
                bound = 6 * m ** 3
                det = X.det3(A, B, C)
                for at in task["argtypes"]:
                    ba, bb, bc = built[at][i], built[at][j], built[at][k]
                    if ba is None or bb is None or bc is None:
                        continue
                    if mode_of(at, bound) is None:
                        rep.count("filtered:integer_type_would_overflow")
                        continue
                    want = Fr(det, 27) if at == "object_thirds" else Fr(det)
                    d = {"A": [str(x) for x in ba[1]], "B": [str(x) for x in bb[1]], "C": [str(x) for x in bc[1]], "argument_type": at}
                    ok, v, exc = g.call("det_3x3", G.det_3x3, ba[0], bb[0], bc[0])
                    e3 = J.value("det_3x3", "det_3x3", at, "three_vectors", bound, ok, v, exc, want, d)
                    if at in ("vec_int64", "pyint_list"):
                        continue                      # their matrix is the int64 matrix
                    mat = np.array([ba[0], bb[0], bc[0]])
                    ok, v, exc = g.call("det_3x3", G.det_3x3, mat)
                    em = J.value("det_3x3", "det_3x3", at, "matrix", bound, ok, v, exc, want, d)
                    J.agree("det_3x3", "det_3x3", at, bound, e3, em, ("det_3x3(A,B,C)", "det_3x3(array([A,B,C]))"), d)


def run_xpair(task, c):
    """every ordered pair of the alphabet x argument types: dot / Vec.dot, cross, norms, distances, det_2x2 in all forms"""
    np, G, g, rep, Vec = c.np, c.G, c.g, c.rep, c.Vec
    base = _base(task)
    V = alphabet(base, task.get("sub", False))
    J = Judge(c)
    built = {at: [build(np, Vec, v, at) for v in V] for at in task["argtypes"]}
    rep.flag(f"xpair:base=2^{task['bexp']}" if base else "xpair:base=0")
    NORMS = ("l1", "linf", "l2")

    def norm_want(ex, w):
        if w == "l1":
            return sum(abs(x) for x in ex)
        if w == "linf":
            return max(abs(x) for x in ex)
        return Fr(math.sqrt(sum(x * x for x in ex)))

    for i in range(task["chunk"], len(V), task["of"]):
        A = V[i]
        rep.case(("xpair", base, A))
        mA = max(abs(x) for x in A)
        for at in task["argtypes"]:
            ba = built[at][i]
            if ba is None:
                continue
            a, exA = ba
            d = {"A": [str(x) for x in exA], "argument_type": at}
            for w in NORMS:
                l2 = w == "l2"
                bound = 3 * mA * mA if l2 else (3 * mA if w == "l1" else mA)
                if mode_of(at, bound) is None:
                    rep.count("filtered:integer_type_would_overflow")
                    continue
                want = Fr(norm_want(exA, w))
                ref = float(want)
                ok, v, exc = g.call("norm", G.norm, a, w)
                e1 = J.value("norm_" + w, "norm", at, "norm(x)", bound, ok, v, exc, want, d, tol_ref=ref, force_tol=l2)
                if at == "pyint_list":
                    continue
                ok, v, exc = g.call("Vec.norm", Vec.norm, Vec(a), w)
                e2 = J.value("norm_" + w, "Vec.norm", at, "Vec.norm(x)", bound, ok, v, exc, want, d, tol_ref=ref, force_tol=l2)
                J.agree("norm", "Vec.norm", at, bound if not l2 else ref, e1, e2, ("norm(x,w)", "Vec(x).norm(w)"), dict(d, which=w), force_tol=l2)
        for j, B in enumerate(V):
            rep.traces += 1
            m = max(mA, max(abs(x) for x in B))
            for at in task["argtypes"]:
                ba, bb = built[at][i], built[at][j]
                if ba is None or bb is None:
                    continue
                (a, exA), (b, exB) = ba, bb
                d = {"A": [str(x) for x in exA], "B": [str(x) for x in exB], "argument_type": at}
                # ---- dot
                bound = 3 * m * m
                if mode_of(at, bound) is None:
                    rep.count("filtered:integer_type_would_overflow")
                else:
                    want = Fr(X.dot(exA, exB))
                    ok, v, exc = g.call("dot", G.dot, a, b)
                    e1 = J.value("dot", "dot", at, "dot(A,B)", bound, ok, v, exc, want, d)
                    ok, v, exc = g.call("Vec.dot", Vec.dot, Vec(a), b)
                    e2 = J.value("dot", "Vec.dot", at, "Vec.dot(A,B)", bound, ok, v, exc, want, d)
                    J.agree("dot", "Vec.dot", at, bound, e1, e2, ("dot(A,B)", "Vec(A).dot(B)"), d)
                # ---- cross.  The answer is a NEW Vec built from three scalars: numpy infers its dtype again, so Python
                # ints (object_int) are held exactly only while they fit int64 - treated as an integer type here
                bound = 2 * m * m
                mode = mode_of("int64" if at == "object_int" else at, bound)
                if mode is None:
                    rep.count("filtered:integer_type_would_overflow")
                else:
                    wantc = X.cross(exA, exB)
                    ok, v, exc = g.call("cross", G.cross, a, b)
                    sub = "C12.exact.cross" if mode == "exact" else "C12.prim.cross.large_magnitude"
                    icls = f"{at}:cross(A,B):{magclass(bound)}"
                    if not ok:
                        if at in DOCUMENTED:
                            c.ev(sub)
                            c.bad(sub, "cross", "raises:" + exc, icls, d)
                        else:
                            rep.count(f"observed:undocumented_argument_type_raises:cross:{at}:{exc}")
                    else:
                        c.ev(sub)
                        comps = [exact_of(x, np) for x in (v.tolist() if isinstance(v, np.ndarray) and v.shape == (3,) else [None] * 3)]
                        if any(x is None for x in comps):
                            c.bad(sub, "cross", "mismatch:not_a_vector_of_3_numbers", icls, dict(d, got=_show(v)))
                        elif mode == "exact":
                            if comps != [Fr(x) for x in wantc]:
                                c.bad(sub, "cross", "mismatch:not_exact", icls, dict(d, got=_show(v), want=[str(x) for x in wantc]))
                        elif any(abs(float(x - Fr(y))) > TOL * bound for x, y in zip(comps, wantc)):
                            c.bad(sub, "cross", "mismatch:value", icls, dict(d, got=_show(v), want=[str(x) for x in wantc]))
                # ---- distances (l1 / linf exact, l2 tolerance) and distance(A,B) == norm(B-A)
                if at != "pyint_list":
                    exD = X.sub(exB, exA)
                    for w in NORMS:
                        l2 = w == "l2"
                        bound = 12 * m * m if l2 else (6 * m if w == "l1" else 2 * m)
                        if mode_of(at, bound) is None:
                            continue
                        want = Fr(norm_want(exD, w))
                        ref = max(float(want), float(m))
                        ok, v, exc = g.call("distance", G.distance, a, b, w)
                        e1 = J.value("distance_" + w, "distance", at, "distance(A,B)", bound, ok, v, exc, want, d, tol_ref=ref, force_tol=l2)
                        ok, v, exc = g.call("norm", lambda p, q, ww: G.norm(q - p, ww), a, b, w)
                        e2 = exact_of(v, np) if ok else None
                        J.agree("distance", "distance", at, bound if not l2 else ref, e1, e2, ("distance(A,B,w)", "norm(B-A,w)"), dict(d, which=w), force_tol=l2)
                # ---- det_2x2 on the first two coordinates: pairs / complex / mixed
                bound = 2 * m * m
                if mode_of(at, bound) is None:
                    continue
                want = Fr(exA[0] * exB[1] - exA[1] * exB[0])
                ok, v, exc = g.call("det_2x2", G.det_2x2, a[:2], b[:2])
                e1 = J.value("det_2x2", "det_2x2", at, "pairs", bound, ok, v, exc, want, d)
                if at in ("int64", "float64", "object_int") and m < TWO53:
                    ca, cb = complex(int(exA[0]), int(exA[1])), complex(int(exB[0]), int(exB[1]))
                    for form, x, y in (("complex", ca, cb), ("complex_and_pair", ca, b[:2]), ("pair_and_complex", a[:2], cb)):
                        cat = "float64" if form == "complex" else at
                        # a complex number holds binary64 parts: exact only while the products fit 53 bits
                        tol = bound >= TWO53
                        ok, v, exc = g.call("det_2x2", G.det_2x2, x, y)
                        e2 = J.value("det_2x2", "det_2x2", cat, form, bound, ok, v, exc, want, d, force_tol=tol)
                        J.agree("det_2x2", "det_2x2", cat, bound, e1, e2, ("det_2x2(pair,pair)", f"det_2x2 {form}"), d, force_tol=tol)


# ------------------------------------------------------------------------------------------------
def _vclose(p, q, tol=1e-12):
    return len(p) == len(q) and all(abs(float(x) - float(y)) <= tol * max(1.0, abs(float(x)), abs(float(y))) for x, y in zip(p, q))


class _Hidden:
    """hides the target of a documented in-place operation from the guard's argument snapshot"""
    def __init__(self, v):
        self.v = v


def _lst(v):
    return [float(x) for x in v.tolist()]


def run_forms_misc(task, c):
    """the remaining two-form primitives on the small lattices"""
    np, G, g, rep, Vec, maths = c.np, c.G, c.g, c.rep, c.Vec, c.maths
    f = lambda p: np.array(p, dtype=float)
    part = task["part"]
    L1 = list(itertools.product((-1, 0, 1), repeat=3))
    L2 = list(itertools.product((-2, -1, 0, 1, 2), repeat=3))
    P2 = list(itertools.product((-2, -1, 0, 1, 2), repeat=2))
    if part == "face_basis":
        # face_basis(A,B,C) / face_basis([A,B,C]) / face_basis((A,B,C)); value: orthonormal, X along AB, Z normal to ABC
        firsts = L1 if task["full"] else [(0, 0, 0), (1, -1, 0), (-1, 1, 1)]
        for i in range(task["chunk"], len(firsts), task["of"]):
            A = firsts[i]
            rep.case(("fb", A))
            for B in L1:
                for C in L1:
                    rep.traces += 1
                    a, b, cc = f(A), f(B), f(C)
                    u, v = X.sub(B, A), X.sub(C, A)
                    n = X.cross(u, v)
                    d = {"A": list(A), "B": list(B), "C": list(C)}
                    r1 = g.call("face_basis", G.face_basis, a, b, cc)
                    r2 = g.call("face_basis", G.face_basis, [a, b, cc])
                    r3 = g.call("face_basis", G.face_basis, (a, b, cc))
                    rep.outcome("face_basis", "value" if r1[0] else r1[2])
                    if X.sqnorm(n) == 0:
                        rep.count("degenerate_calls:face_basis_collinear")
                        icls = "collinear_or_repeated_points"
                    else:
                        icls = "nondegenerate"
                        c.ev("C12.prim.face_basis")
                        if not r1[0]:
                            c.bad("C12.prim.face_basis", "face_basis", "raises:" + r1[2], icls, d)
                        else:
                            got = [_lst(x) for x in r1[1]]
                            lu, ln = math.sqrt(X.sqnorm(u)), math.sqrt(X.sqnorm(n))
                            wx = [x / lu for x in u]
                            wz = [x / ln for x in n]
                            wy = list(X.cross(wz, wx))
                            if not (len(got) == 3 and _vclose(got[0], wx) and _vclose(got[1], wy) and _vclose(got[2], wz)):
                                c.bad("C12.prim.face_basis", "face_basis", "mismatch:basis", icls, dict(d, got=got, want=[wx, wy, wz]))
                    for form, r in (("list_of_points", r2), ("tuple_of_points", r3)):
                        c.ev("C12.forms.face_basis")
                        if r[0] != r1[0]:
                            c.bad("C12.forms.face_basis", "face_basis", "mismatch:forms_disagree", icls + ":" + form,
                                  dict(d, three_points="value" if r1[0] else "raises " + r1[2], other="value" if r[0] else "raises " + r[2]))
                        elif r[0] and not all(_vclose(_lst(x), _lst(y)) for x, y in zip(r1[1], r[1])):
                            c.bad("C12.forms.face_basis", "face_basis", "mismatch:forms_disagree", icls + ":" + form,
                                  dict(d, three_points=[_lst(x) for x in r1[1]], other=[_lst(x) for x in r[1]]))
        return
    if part == "vec":
        # Vec(x,y,z) / Vec([x,y,z]) / Vec((x,y,z)) / Vec(ndarray); Vec.from_complex; normalized / normalize
        big = [(2 ** 20 + 1, -(2 ** 20), 1), (2 ** 53 + 1, 0, -1)]
        for Vv in L2 + big:
            rep.traces += 1
            rep.case(("vec", Vv))
            for dt, conv in (("int", int), ("float", float)):
                if dt == "float" and max(abs(x) for x in Vv) >= TWO53:
                    continue
                xs = [conv(x) for x in Vv]
                rs = [g.call("Vec", Vec, *xs), g.call("Vec", Vec, list(xs)), g.call("Vec", Vec, tuple(xs)),
                      g.call("Vec", Vec, np.array(xs))]
                c.ev("C12.forms.vec_constructor")
                vals = [[exact_of(np.asarray(r[1])[k], np) for k in range(3)] if r[0] and np.asarray(r[1]).shape == (3,) else None for r in rs]
                if any(v != [Fr(x) for x in Vv] for v in vals):
                    c.bad("C12.forms.vec_constructor", "Vec.__new__", "mismatch:forms_disagree", dt,
                          {"components": [str(x) for x in Vv], "got": [_show(r[1]) if r[0] else "raises " + r[2] for r in rs],
                           "forms": ["Vec(x,y,z)", "Vec([x,y,z])", "Vec((x,y,z))", "Vec(array)"]})
                if rs[0][0]:
                    vv = rs[0][1]
                    c.ev("C12.forms.vec_accessors")
                    if [exact_of(t, np) for t in (vv.x, vv.y, vv.z)] != [Fr(x) for x in Vv] or [exact_of(t, np) for t in vv.xy] != [Fr(x) for x in Vv[:2]]:
                        c.bad("C12.forms.vec_accessors", "Vec.x", "mismatch:accessor_vs_index", dt, {"components": [str(x) for x in Vv]})
            if max(abs(x) for x in Vv) < TWO53:
                z = complex(Vv[0], Vv[1])
                ok, r, exc = g.call("Vec.from_complex", Vec.from_complex, z)
                c.ev("C12.forms.vec_constructor")
                if not ok or _lst(r) != [float(Vv[0]), float(Vv[1])]:
                    c.bad("C12.forms.vec_constructor", "Vec.from_complex", "mismatch:forms_disagree" if ok else "raises:" + exc,
                          "complex", {"c": repr(z), "got": _show(r)})
            if Vv in big:
                continue
            for w in ("l2", "l1", "linf"):
                src = f(Vv)
                ok1, r1, e1 = g.call("Vec.normalized", Vec.normalized, src, w)
                tgt = Vec(f(Vv))
                ok2, _, e2 = g.call("Vec.normalize", lambda t, ww: t.v.normalize(ww), _Hidden(tgt), w)
                if X.sqnorm(Vv) == 0:
                    rep.count("degenerate_calls:normalize_zero_vector")
                    rep.outcome("normalized_zero", e1 if not ok1 else "value")
                    continue
                nw = {"l2": math.sqrt(X.sqnorm(Vv)), "l1": sum(abs(x) for x in Vv), "linf": max(abs(x) for x in Vv)}[w]
                want = [x / nw for x in Vv]
                d = {"v": list(Vv), "which": w}
                c.ev("C12.prim.normalized")
                if not ok1 or not _vclose(_lst(r1), want):
                    c.bad("C12.prim.normalized", "Vec.normalized", "mismatch:unit_vector" if ok1 else "raises:" + e1, "nonzero", dict(d, got=_show(r1)))
                c.ev("C12.forms.normalize")
                if not ok2 or not _vclose(_lst(tgt), want):
                    c.bad("C12.forms.normalize", "Vec.normalize", "mismatch:forms_disagree" if ok2 else "raises:" + e2, "nonzero",
                          dict(d, in_place=_show(tgt), static=_show(r1)))
        return
    if part == "angles":
        # principal_angle(a) / angle_diff(a, 0); angle_2vec2D / signed 3-D angle about +z; rotate_2d / rotation about +z
        TWO_PI = 2 * math.pi
        cong = lambda x, y: abs((x - y) / TWO_PI - round((x - y) / TWO_PI)) <= 1e-9
        for k in range(-36, 37):
            for e in (0.0, 1e-12, -1e-12):
                a = k * math.pi / 6 + e
                rep.traces += 1
                ok1, r1, _ = g.call("principal_angle", maths.principal_angle, a)
                ok2, r2, _ = g.call("angle_diff", maths.angle_diff, a, 0.0)
                c.ev("C12.forms.principal_angle")
                if not (ok1 and ok2) or not cong(r1, r2):
                    c.bad("C12.forms.principal_angle", "principal_angle", "mismatch:forms_disagree", "finite",
                          {"a": a, "principal_angle": _show(r1), "angle_diff(a,0)": _show(r2)})
        zed = f((0, 0, 1))
        for V1 in P2:
            rep.case(("ang2", V1))
            for V2 in P2:
                rep.traces += 1
                ok1, r1, e1 = g.call("angle_2vec2D", G.angle_2vec2D, f(V1), f(V2))
                if V1[0] * V2[1] - V1[1] * V2[0] == 0:
                    rep.count("degenerate_calls:angle_2vec2D_parallel_or_zero")
                    continue
                ok2, r2, e2 = g.call("signed_angle_2vec3D", G.signed_angle_2vec3D, f(V1 + (0,)), f(V2 + (0,)), zed)
                want = math.atan2(V1[0] * V2[1] - V1[1] * V2[0], V1[0] * V2[0] + V1[1] * V2[1])
                d = {"V1": list(V1), "V2": list(V2)}
                c.ev("C12.prim.angle_2vec2D.value")
                if not ok1 or not cong(r1, want):
                    c.bad("C12.prim.angle_2vec2D.value", "angle_2vec2D", "mismatch:angle" if ok1 else "raises:" + e1, "secant", dict(d, got=_show(r1), want=want))
                c.ev("C12.forms.planar_angle")
                if ok1 and (not ok2 or not cong(r1, r2)):
                    c.bad("C12.forms.planar_angle", "angle_2vec2D", "mismatch:forms_disagree", "secant",
                          dict(d, angle_2vec2D=_show(r1), signed_angle_2vec3D_about_z=_show(r2)))
            for k in range(-12, 13):
                ang = k * math.pi / 6
                ok1, r1, e1 = g.call("rotate_2d", G.rotate_2d, f(V1), ang)
                ok2, r2, e2 = g.call("rotate_around_axis", G.rotate_around_axis, f(V1 + (0,)), zed, ang)
                c.ev("C12.forms.planar_rotation")
                if not (ok1 and ok2) or not _vclose(_lst(r1) + [0.0], _lst(r2), 1e-11):
                    c.bad("C12.forms.planar_rotation", "rotate_2d", "mismatch:forms_disagree", "lattice",
                          {"v": list(V1), "angle": f"{k}*pi/6", "rotate_2d": _show(r1), "rotate_around_axis_z": _show(r2)})
        return
    if part == "areas":
        # triangle_area (embedded in z = 0) / triangle_area_2D / exact |det|/2
        for i in range(task["chunk"], len(P2), task["of"]):
            A = P2[i]
            rep.case(("area", A))
            for B in P2:
                for C in P2:
                    rep.traces += 1
                    want = abs((B[0] - A[0]) * (C[1] - A[1]) - (B[1] - A[1]) * (C[0] - A[0])) / 2
                    ok1, r1, e1 = g.call("triangle_area_2D", G.triangle_area_2D, f(A), f(B), f(C))
                    ok2, r2, e2 = g.call("triangle_area", G.triangle_area, f(A + (0,)), f(B + (0,)), f(C + (0,)))
                    d = {"A": list(A), "B": list(B), "C": list(C), "want": want}
                    for name, ok, r, e in (("triangle_area_2D", ok1, r1, e1), ("triangle_area", ok2, r2, e2)):
                        c.ev("C12.prim.triangle_area")
                        x = exact_of(r, np) if ok else None
                        if x is None or abs(float(x) - want) > 1e-12 * max(1.0, want):
                            c.bad("C12.prim.triangle_area", name, "mismatch:area" if ok else "raises:" + e, "planar_lattice_triangle", dict(d, got=_show(r)))
                    c.ev("C12.forms.triangle_area")
                    if ok1 and ok2 and abs(float(r1) - float(r2)) > 1e-12 * max(1.0, want):
                        c.bad("C12.forms.triangle_area", "triangle_area", "mismatch:forms_disagree", "planar_lattice_triangle",
                              dict(d, triangle_area_2D=_show(r1), triangle_area=_show(r2)))
        return
    raise KeyError(part)


# ------------------------------------------------------------------------------------------------


def tasks(tier):
    T = []
    th = tier == "thorough"

    def chunks(d, n):
        for i in range(n):
            T.append(dict(d, chunk=i, of=n))
    # determinants: the small lattice and 2^20 (6 * (2^20+1)^3 < 2^63: int64 exact, binary64 not) with every type; beyond
    # that only the element types without a range (and int64, to exercise the overflow filter)
    chunks(dict(kind="xdet3", bexp=None, argtypes=list(ARGTYPES)), 9)
    chunks(dict(kind="xdet3", bexp=20, sub=not th, argtypes=list(ARGTYPES)), 27 if th else 6)
    chunks(dict(kind="xdet3", bexp=21, sub=True, argtypes=["int64", "object_int", "object_fraction"]), 2)
    chunks(dict(kind="xdet3", bexp=53, sub=True, argtypes=["int64", "object_int", "object_fraction", "object_thirds"]), 3)
    if th:
        chunks(dict(kind="xdet3", bexp=70, sub=True, argtypes=["object_int", "object_fraction", "object_thirds"]), 3)
    # two-factor primitives: 2^30 as well (3 * (2^30+1)^2 < 2^63)
    for bexp in (None, 20, 30):
        chunks(dict(kind="xpair", bexp=bexp, argtypes=list(ARGTYPES)), 3)
    chunks(dict(kind="xpair", bexp=31, sub=True, argtypes=["int64", "object_int", "object_fraction"]), 1)
    chunks(dict(kind="xpair", bexp=53, sub=True, argtypes=["int64", "pyint_list", "object_int", "object_fraction", "object_thirds"]), 1)
    chunks(dict(kind="xpair", bexp=70, sub=True, argtypes=["object_int", "object_fraction", "object_thirds"]), 1)
    chunks(dict(kind="forms_misc", part="face_basis", full=th), 27 if th else 3)
    chunks(dict(kind="forms_misc", part="vec"), 1)
    chunks(dict(kind="forms_misc", part="angles"), 1)
    chunks(dict(kind="forms_misc", part="areas"), 5)
    return T


RUNNERS = {"xdet3": run_xdet3, "xpair": run_xpair, "forms_misc": run_forms_misc}

EXPECTED_EVALS = [
    "C12.exact.det_3x3", "C12.prim.det_3x3.large_magnitude", "C12.forms.det_3x3", "C12.exact.det_2x2", "C12.forms.det_2x2",
    "C12.prim.det_2x2.large_magnitude", "C12.exact.dot", "C12.prim.dot.large_magnitude", "C12.forms.dot", "C12.exact.cross",
    "C12.prim.cross.large_magnitude", "C12.exact.norm_l1", "C12.exact.norm_linf", "C12.prim.norm_l2.large_magnitude",
    "C12.forms.norm", "C12.exact.distance_l1", "C12.exact.distance_linf", "C12.forms.distance", "C12.forms.face_basis",
    "C12.prim.face_basis", "C12.forms.vec_constructor", "C12.forms.normalize", "C12.prim.normalized", "C12.forms.principal_angle",
    "C12.forms.planar_angle", "C12.forms.planar_rotation", "C12.forms.triangle_area", "C12.prim.triangle_area",
]


def finish(tier, rep):
    fails = []
    for f in ("mode:exact", "mode:tolerance", "xdet3:base=0", "xdet3:base=2^20", "xdet3:base=2^53", "xpair:base=2^30"):
        if f not in rep.flags:
            fails.append("coverage flag missing: " + f)
    if rep.counters.get("filtered:integer_type_would_overflow", 0) <= 0:
        fails.append("the int64 overflow filter was never exercised")
    if len(rep.outcomes.get("face_basis", ())) < 2:
        fails.append("event kind face_basis produced a single outcome")
    return fails
