"""C07 helpers: exact (Fraction) oracles for the per-element geometric quantities of surface and
tetrahedral meshes, the metamorphic partners (24 axis-permuting rotations, translations, dyadic scales,
relabelings) and planar-faced polyhedra with integer coordinates (exact convex hull).

Everything here is written from the textbook definitions, on plain lists / tuples of Fractions; nothing
calls mouette.
"""
from __future__ import annotations
import itertools, math
from fractions import Fraction as Fr
from . import exact as X
from . import families as F

# a corner is "ill-conditioned" when its angle is < ~9.97 deg or > ~170.03 deg: cos^2 > 97/100  (exact predicate)
COS2_MAX = Fr(97, 100)
REL = 1e-9
ABS = 1e-12
CANCEL = 1e-3     # a weighted normal sum shorter than CANCEL * (sum of weights) is ill-conditioned


# ------------------------------------------------------------------------------------------ partners
def rotations24():
    out = []
    for perm in itertools.permutations(range(3)):
        for signs in itertools.product((1, -1), repeat=3):
            R = [[0] * 3 for _ in range(3)]
            for i in range(3):
                R[i][perm[i]] = signs[i]
            if F.det3(*R) == 1:
                out.append(R)
    assert len(out) == 24 and out[0] == [[1, 0, 0], [0, 1, 0], [0, 0, 1]]
    return out


def matvec(R, p):
    return tuple(sum(R[i][k] * p[k] for k in range(3)) for i in range(3))


def transform_points(pts, R, s, t):
    """p -> R (s p) + t, exactly (Fractions)."""
    s = Fr(s)
    return [tuple(c + Fr(tt) for c, tt in zip(matvec(R, tuple(Fr(x) * s for x in p)), t)) for p in pts]


def pts_to_json(pts):
    """Fractions that are dyadic become exact floats / ints (JSON-pure)."""
    out = []
    for p in pts:
        row = []
        for x in p:
            x = Fr(x)
            if x.denominator == 1:
                row.append(int(x))
            else:
                row.append(float(x))      # exact for dyadic rationals; nearest float for float-coordinate specimens
        out.append(row)
    return out


# ------------------------------------------------------------------------------------------ coordinates
def generic_points(n):
    """Well-conditioned integer points in general position (no 3 collinear, no 4 coplanar: asserted)."""
    base = [(7, 1, 0), (-6, 2, 1), (1, 8, -1), (0, -7, 2), (2, -1, 9), (-1, 1, -8), (5, 5, 5), (-4, -5, 3)]
    return base[:n]


def coords(alpha, n):
    if alpha == "moment":
        return F.moment_curve(n)
    if alpha == "lattice":
        return F.sphere_lattice_points(n)
    if alpha == "generic":
        return generic_points(n)
    raise ValueError(alpha)


def general_position(pts):
    P = [X.F(p) for p in pts]
    for a, b, c in itertools.combinations(P, 3):
        if X.sqnorm(X.cross(X.sub(b, a), X.sub(c, a))) == 0:
            return False
    for a, b, c, d in itertools.combinations(P, 4):
        if X.tet_volume6(a, b, c, d) == 0:
            return False
    return True


# ------------------------------------------------------------------------------------------ polyhedra
def hull_faces(pts):
    """Faces (outward counter-clockwise cycles) of the convex hull of integer points in convex position."""
    P = [X.F(p) for p in pts]
    n = len(P)
    seen, faces = set(), []
    for i, j, k in itertools.combinations(range(n), 3):
        nrm = X.cross(X.sub(P[j], P[i]), X.sub(P[k], P[i]))
        if X.sqnorm(nrm) == 0:
            continue
        ds = [X.dot(nrm, X.sub(p, P[i])) for p in P]
        if all(d >= 0 for d in ds):
            nrm = X.scale(nrm, -1)
        elif not all(d <= 0 for d in ds):
            continue
        on = [q for q, d in enumerate(ds) if d == 0]
        key = frozenset(on)
        if key in seen:
            continue
        seen.add(key)
        cf = X.barycenter([P[q] for q in on])
        u = X.sub(P[on[0]], cf)
        nf = tuple(float(x) for x in nrm)
        def ang(q):
            w = X.sub(P[q], cf)
            cr = X.cross(u, w)
            return math.atan2(float(X.dot(cr, nrm)), float(X.dot(u, w)) * math.sqrt(sum(x * x for x in nf)))
        cyc = sorted(on, key=ang)
        faces.append(F.rot_min(tuple(cyc)))
    faces.sort()
    return faces


def perms_signs(base):
    out = set()
    for perm in itertools.permutations(base):
        for signs in itertools.product((1, -1), repeat=3):
            out.add(tuple(s * x for s, x in zip(signs, perm)))
    return sorted(out)


def polyhedron(name):
    """(points, faces): closed convex polyhedra with integer coordinates and exactly planar faces."""
    if name == "cube":
        pts = [(x, y, z) for x in (0, 2) for y in (0, 2) for z in (0, 2)]
    elif name == "pyritohedron":        # combinatorial dodecahedron, 12 planar pentagons (h = 1/2, scaled by 4)
        pts = [(x, y, z) for x in (4, -4) for y in (4, -4) for z in (4, -4)]
        for a in (6, -6):
            for b in (3, -3):
                pts += [(0, a, b), (b, 0, a), (a, b, 0)]
    elif name == "cuboctahedron":       # 8 triangles + 6 squares
        pts = [p for p in perms_signs((1, 1, 0))]
    elif name == "truncated_octahedron":  # 6 squares + 8 hexagons
        pts = [p for p in perms_signs((0, 1, 2))]
    elif name.startswith("prism"):      # k-gonal prism: 2 k-gons + k quads
        k = int(name[5:])
        poly = F.convex_polygon_points(k)
        pts = [(x, y, 0) for x, y in poly] + [(x, y, 3) for x, y in poly]
    elif name.startswith("pyramid"):    # k-gonal pyramid: 1 k-gon + k triangles
        k = int(name[7:])
        poly = F.convex_polygon_points(k)
        pts = [(2 * x, 2 * y, 0) for x, y in poly] + [(k, 1, 5)]
    else:
        raise ValueError(name)
    return pts, hull_faces(pts)


AFFINE = {
    "id": ([[1, 0, 0], [0, 1, 0], [0, 0, 1]], (0, 0, 0)),
    "shear": ([[2, 1, 0], [0, 1, 1], [1, 0, 3]], (1, -2, 3)),      # det 7: planar faces stay planar and convex
    "skew": ([[1, 2, -1], [-1, 1, 2], [2, 0, 1]], (0, 5, -1)),     # det 13
}


def affine(pts, name):
    Mx, t = AFFINE[name]
    return [tuple(int(c) + tt for c, tt in zip(matvec(Mx, p), t)) for p in pts]


# ------------------------------------------------------------------------------------------ tolerant comparison
def close(got, want, unit=1.0, rel=REL):
    try:
        got = float(got); want = float(want)
    except Exception:
        return False
    if got != got or want != want:
        return False
    return abs(got - want) <= rel * max(abs(got), abs(want)) + ABS * unit


def vclose(got, want, unit=1.0, rel=REL):
    try:
        g = [float(x) for x in got]; w = [float(x) for x in want]
    except Exception:
        return False
    if len(g) != len(w) or any(x != x for x in g):
        return False
    scale = max([unit] + [abs(x) for x in w])
    return max(abs(a - b) for a, b in zip(g, w)) <= rel * scale + ABS * unit


def fl(p):
    return tuple(float(x) for x in p)


def _sqrt_fr(q):
    """sqrt of a non-negative Fraction as float, accurately even for huge numerators/denominators."""
    q = Fr(q)
    if q == 0:
        return 0.0
    try:
        return math.sqrt(float(q))
    except OverflowError:
        return math.sqrt(q.numerator) / math.sqrt(q.denominator)


# ------------------------------------------------------------------------------------------ surface oracle
class SurfGeo:
    """Textbook quantities of a polygonal surface, exact where rational. Corners are numbered face by face."""

    def __init__(self, pts, faces, edges):
        self.P = [X.F(p) for p in pts]
        self.n = len(self.P)
        self.faces = [tuple(int(v) for v in f) for f in faces]
        self.edges = [tuple(int(v) for v in e) for e in edges]
        self.nf, self.ne = len(self.faces), len(self.edges)
        self.off, self.corner_v, self.corner_f, self.corner_i = [], [], [], []
        for fi, f in enumerate(self.faces):
            self.off.append(len(self.corner_v))
            for i, v in enumerate(f):
                self.corner_v.append(v); self.corner_f.append(fi); self.corner_i.append(i)
        self.nc = len(self.corner_v)
        self.tri = all(len(f) == 3 for f in self.faces)
        self.v_corners = [[] for _ in range(self.n)]
        for c, v in enumerate(self.corner_v):
            self.v_corners[v].append(c)
        bh = F.border_half_edges(self.faces)
        self.border_vertices = set(a for a, b in bh) | set(b for a, b in bh)
        self.closed = not bh
        self.he = {}
        for fi, f in enumerate(self.faces):
            for i, (a, b) in enumerate(F.directed_edges(f)):
                self.he[(a, b)] = (fi, i)
        used = set(self.corner_v)
        self.chi = len(used) - len(F.undirected_edges(self.faces)) + self.nf
        lo = [min(p[k] for p in self.P) for k in range(3)]
        hi = [max(p[k] for p in self.P) for k in range(3)]
        self.L = max(1e-300, float(max(h - l for h, l in zip(hi, lo))))     # length unit for absolute tolerances
        self.M = max(self.L, float(max(max(abs(x) for x in p) for p in self.P)))
        self._face = {}
        self._corner = {}

    # ---- faces
    def face(self, f):
        d = self._face.get(f)
        if d is not None:
            return d
        idx = self.faces[f]
        pts = [self.P[v] for v in idx]
        vec2 = X.polygon_area_vector2(pts)
        a2 = X.sqnorm(vec2)
        k = len(pts)
        planar = all(X.dot(vec2, X.sub(p, pts[0])) == 0 for p in pts)
        convex = a2 != 0 and all(
            X.dot(X.cross(X.sub(pts[i], pts[i - 1]), X.sub(pts[(i + 1) % k], pts[i])), vec2) > 0 for i in range(k))
        d = dict(vec2=vec2, a2=a2, planar=planar, convex=convex, ok=planar and convex and a2 != 0, k=k)
        if a2 != 0:
            nrm = _sqrt_fr(a2)
            d["area"] = nrm / 2
            d["normal"] = tuple(_sqrt_fr(x * x / a2) * (1 if x >= 0 else -1) for x in vec2)
        d["bary"] = X.barycenter(pts)
        d["circum"] = X.circumcenter(*pts) if (k == 3 and a2 != 0) else None
        self._face[f] = d
        return d

    # ---- corners
    def corner(self, c):
        d = self._corner.get(c)
        if d is not None:
            return d
        f, i = self.corner_f[c], self.corner_i[c]
        idx = self.faces[f]; k = len(idx)
        p, a, b = self.P[idx[i]], self.P[idx[i - 1]], self.P[idx[(i + 1) % k]]
        u, w = X.sub(a, p), X.sub(b, p)
        dot, uu, ww = X.dot(u, w), X.sqnorm(u), X.sqnorm(w)
        cr2 = X.sqnorm(X.cross(u, w))
        d = dict(degenerate=(cr2 == 0))
        if cr2 != 0:
            d["ill"] = dot * dot > COS2_MAX * uu * ww
            sgn = 1 if dot >= 0 else -1
            d["angle"] = math.acos(max(-1.0, min(1.0, sgn * _sqrt_fr(dot * dot / (uu * ww)))))
            d["angle2"] = math.atan2(_sqrt_fr(cr2), float(dot))      # self-test partner of the acos formula
            d["cot"] = sgn * _sqrt_fr(dot * dot / cr2)
            d["ok"] = not d["ill"]
        else:
            d["ok"] = False
        self._corner[c] = d
        return d

    def tri_ok(self, f):
        return all(self.corner(self.off[f] + i)["ok"] for i in range(len(self.faces[f])))

    def nondegenerate(self):
        return all(self.face(f)["a2"] != 0 for f in range(self.nf)) and \
            all(not self.corner(c)["degenerate"] for c in range(self.nc))

    # ---- edges
    def edge_length(self, e):
        a, b = self.edges[e]
        return _sqrt_fr(X.sqnorm(X.sub(self.P[a], self.P[b])))

    def edge_mid(self, e):
        a, b = self.edges[e]
        return X.scale(X.add(self.P[a], self.P[b]), Fr(1, 2))

    def cotan_weight(self, e):
        """(cot alpha + cot beta)/2 over the (one or two) corners opposite to the edge; None if ill-conditioned."""
        a, b = self.edges[e]
        tot, cnt = 0.0, 0
        for (x, y) in ((a, b), (b, a)):
            if (x, y) in self.he:
                f, i = self.he[(x, y)]
                c = self.off[f] + (i + 2) % 3
                cd = self.corner(c)
                if not cd["ok"]:
                    return None
                tot += cd["cot"]; cnt += 1
        return tot / 2

    # ---- vertices
    def degree(self, v):
        return sum(1 for e in self.edges if v in e)

    def defect(self, v, zero_border):
        if v in self.border_vertices and zero_border:
            return 0.0
        tot = 0.0
        for c in self.v_corners[v]:
            cd = self.corner(c)
            if not cd["ok"]:
                return None
            tot += cd["angle"]
        return (math.pi if v in self.border_vertices else 2 * math.pi) - tot

    def vertex_normal(self, v, mode, custom=None):
        """normalised sum of w_f * n_f over the faces around v. Returns (vector | None, reason)."""
        acc = [0.0, 0.0, 0.0]; wsum = 0.0
        for c in self.v_corners[v]:
            f = self.corner_f[c]
            fd = self.face(f)
            if custom is None and not fd["ok"]:
                return None, "nonplanar_or_nonconvex"
            if mode == "uniform":
                w = 1.0
            elif mode == "area":
                if not fd["ok"]:
                    return None, "nonplanar_or_nonconvex"
                w = fd["area"]
            else:
                cd = self.corner(c)
                if not cd["ok"]:
                    return None, "ill_corner"
                w = cd["angle"]
            g = custom[f] if custom is not None else fd["normal"]
            for k in range(3):
                acc[k] += w * g[k]
            wsum += w * math.sqrt(sum(x * x for x in g))
        nrm = math.sqrt(sum(x * x for x in acc))
        if not self.v_corners[v] or nrm < CANCEL * wsum:
            return None, "cancel"
        return tuple(x / nrm for x in acc), None


# ------------------------------------------------------------------------------------------ volume oracle
class VolGeo:
    def __init__(self, pts, cells, faces, edges):
        self.P = [X.F(p) for p in pts]
        self.n = len(self.P)
        self.cells = [tuple(int(v) for v in c) for c in cells]
        self.nc = len(self.cells)
        # triangles of the volume mesh as listed by the library; treated as a (non-manifold) triangle soup
        self.S = SurfGeoSoup(pts, faces, edges)
        self.faces, self.edges = self.S.faces, self.S.edges
        inc = {}
        for ci, c in enumerate(self.cells):
            for tr in itertools.combinations(c, 3):
                inc.setdefault(frozenset(tr), []).append(ci)
        self.face_cells = inc
        self.L, self.M = self.S.L, self.S.M

    def vol6(self, c):
        return X.tet_volume6(*(self.P[v] for v in self.cells[c]))

    def volume(self, c):
        return float(abs(self.vol6(c))) / 6

    def cell_bary(self, c):
        return X.barycenter([self.P[v] for v in self.cells[c]])

    def boundary_faces(self, c):
        return sum(1 for tr in itertools.combinations(self.cells[c], 3) if len(self.face_cells[frozenset(tr)]) == 1)

    def premises(self):
        want_f = set(self.face_cells)
        got_f = [frozenset(f) for f in self.faces]
        want_e = set(frozenset(e) for c in self.cells for e in itertools.combinations(c, 2))
        got_e = [frozenset(e) for e in self.edges]
        return set(got_f) == want_f and len(got_f) == len(want_f) and set(got_e) == want_e and len(got_e) == len(want_e)


class SurfGeoSoup(SurfGeo):
    """SurfGeo without the manifold-only topology (faces of a volume mesh)."""

    def __init__(self, pts, faces, edges):
        self.P = [X.F(p) for p in pts]
        self.n = len(self.P)
        self.faces = [tuple(int(v) for v in f) for f in faces]
        self.edges = [tuple(int(v) for v in e) for e in edges]
        self.nf, self.ne = len(self.faces), len(self.edges)
        self.off, self.corner_v, self.corner_f, self.corner_i = [], [], [], []
        for fi, f in enumerate(self.faces):
            self.off.append(len(self.corner_v))
            for i, v in enumerate(f):
                self.corner_v.append(v); self.corner_f.append(fi); self.corner_i.append(i)
        self.nc = len(self.corner_v)
        self.tri = True
        lo = [min(p[k] for p in self.P) for k in range(3)]
        hi = [max(p[k] for p in self.P) for k in range(3)]
        self.L = max(1e-300, float(max(h - l for h, l in zip(hi, lo))))
        self.M = max(self.L, float(max(max(abs(x) for x in p) for p in self.P)))
        self._face = {}
        self._corner = {}


# ------------------------------------------------------------------------------------------ self tests
def selftest():
    """Oracle against brute-force definitions on tiny inputs (run by the driver's first task)."""
    errs = []
    # right triangle 3-4-5 in a tilted plane
    pts = [(0, 0, 0), (3, 0, 0), (0, 4, 0), (0, 0, 5)]
    g = SurfGeo(pts, [(0, 1, 2), (0, 2, 3), (0, 3, 1), (1, 3, 2)], [(0, 1), (0, 2), (0, 3), (1, 2), (1, 3), (2, 3)])
    if not close(g.face(0)["area"], 6.0): errs.append("area")
    if not vclose(g.face(0)["normal"], (0, 0, 1)): errs.append("normal")
    if not vclose(fl(g.face(0)["circum"]), (1.5, 2.0, 0.0)): errs.append("circum")
    if not close(g.corner(0)["angle"], math.pi / 2): errs.append("angle")
    if not close(g.corner(1)["cot"], 3 / 4): errs.append("cot")
    if not close(g.edge_length(3), 5.0): errs.append("len")
    for c in range(g.nc):
        cd = g.corner(c)
        if not close(cd["angle"], cd["angle2"]): errs.append("acos vs atan2")
        if not close(cd["cot"], 1 / math.tan(cd["angle"])): errs.append("cot vs tan")
    for f in range(4):
        s = sum(g.corner(g.off[f] + i)["angle"] for i in range(3))
        if not close(s, math.pi): errs.append("sum pi")
        cc = g.face(f)["circum"]
        r = [X.sqnorm(X.sub(cc, g.P[v])) for v in g.faces[f]]
        if not (r[0] == r[1] == r[2]): errs.append("circum equidistant")
        if X.dot(g.face(f)["vec2"], X.sub(cc, g.P[g.faces[f][0]])) != 0: errs.append("circum in plane")
    if not close(sum(g.defect(v, False) for v in range(4)), 4 * math.pi): errs.append("gauss-bonnet")
    if g.chi != 2 or not g.closed: errs.append("chi")
    # polyhedra: planar strictly convex faces, Euler characteristic 2
    for name, nf in (("cube", 6), ("pyritohedron", 12), ("cuboctahedron", 14), ("truncated_octahedron", 14), ("prism5", 7), ("pyramid5", 6)):
        p, f = polyhedron(name)
        if len(f) != nf or not F.is_oriented_manifold(f, len(p)): errs.append("polyhedron " + name)
        for aff in AFFINE:
            q = affine(p, aff)
            gg = SurfGeo(q, f, sorted(F.undirected_edges(f)))
            if gg.chi != 2 or not all(gg.face(i)["ok"] for i in range(gg.nf)): errs.append(f"polyhedron {name} {aff}")
    p, f = polyhedron("cube")
    gg = SurfGeo(p, f, sorted(F.undirected_edges(f)))
    if not all(close(gg.face(i)["area"], 4.0) for i in range(6)): errs.append("cube area")
    # volume
    vg = VolGeo([(0, 0, 0), (1, 0, 0), (0, 1, 0), (0, 0, 1)], [(0, 1, 2, 3)], [(0, 1, 2), (0, 1, 3), (0, 2, 3), (1, 2, 3)],
                [(0, 1), (0, 2), (0, 3), (1, 2), (1, 3), (2, 3)])
    if not close(vg.volume(0), 1 / 6) or vg.boundary_faces(0) != 4 or not vg.premises(): errs.append("volume")
    if len(rotations24()) != 24: errs.append("rotations")
    if not general_position(generic_points(8)): errs.append("generic points not in general position")
    return errs


# ------------------------------------------------------------------------------------------ planar convex lattice polygons
_POLY_MEMO = {}


def _hull_ccw(points):
    """strict convex hull (monotone chain, integer predicates): counter-clockwise, collinear points dropped"""
    P = sorted(points)
    def o(a, b, c):
        return (b[0] - a[0]) * (c[1] - a[1]) - (b[1] - a[1]) * (c[0] - a[0])
    lo = []
    for p in P:
        while len(lo) >= 2 and o(lo[-2], lo[-1], p) <= 0:
            lo.pop()
        lo.append(p)
    up = []
    for p in reversed(P):
        while len(up) >= 2 and o(up[-2], up[-1], p) <= 0:
            up.pop()
        up.append(p)
    return lo[:-1] + up[:-1]


def _poly_canon(cyc):
    best = None
    for sym in range(8):
        q = []
        for x, y in cyc:
            if sym & 1: x = -x
            if sym & 2: y = -y
            if sym & 4: x, y = y, x
            q.append((x, y))
        mx, my = min(p[0] for p in q), min(p[1] for p in q)
        q = tuple(sorted((x - mx, y - my) for x, y in q))
        if best is None or q < best:
            best = q
    return best


def convex_lattice_polygons(G, k):
    """EVERY strictly convex k-gon with its corners in {0..G-1}^2, one representative per class under the 8 symmetries
    of the square and translations: counter-clockwise cycles starting at the lexicographically smallest corner, sorted."""
    if (G, k) not in _POLY_MEMO:
        pts = [(x, y) for x in range(G) for y in range(G)]
        classes = {}
        for sub in itertools.combinations(pts, k):
            h = _hull_ccw(sub)
            if len(h) != k:
                continue
            c = _poly_canon(h)
            if c not in classes or tuple(h) < classes[c]:
                classes[c] = tuple(h)
        _POLY_MEMO[(G, k)] = sorted(classes.values())
    return _POLY_MEMO[(G, k)]


def polygon_shape(cyc):
    """coarse exact shape class of a planar convex polygon (integer corners)"""
    k = len(cyc)
    side = [(cyc[(i + 1) % k][0] - cyc[i][0], cyc[(i + 1) % k][1] - cyc[i][1]) for i in range(k)]
    par = lambda a, b: a[0] * b[1] - a[1] * b[0] == 0
    sq = lambda a: a[0] * a[0] + a[1] * a[1]
    if k == 4:
        p02, p13 = par(side[0], side[2]), par(side[1], side[3])
        if p02 and p13:
            return "parallelogram"
        if p02 or p13:
            return "trapezoid"
        if (sq(side[0]) == sq(side[3]) and sq(side[1]) == sq(side[2])) or (sq(side[0]) == sq(side[1]) and sq(side[2]) == sq(side[3])):
            return "kite"
        return "irregular"
    if k % 2 == 0 and all(side[i] == (-side[i + k // 2][0], -side[i + k // 2][1]) for i in range(k // 2)):
        return "centrally_symmetric"
    return "irregular"


def shoelace2(cyc):
    """twice the signed area of a planar lattice polygon (integers) - self-test partner of polygon_area_vector2"""
    k = len(cyc)
    return sum(cyc[i][0] * cyc[(i + 1) % k][1] - cyc[(i + 1) % k][0] * cyc[i][1] for i in range(k))
