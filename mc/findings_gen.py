"""Regenerates /verif/known_findings.json from the tables below (run by hand when a finding is classified:
`/venv/bin/python -B -m mc.findings_gen`). Never run by a check. Commit hashes are looked up in /repo by
commit subject so that they survive history edits made before the end of the task."""
import json, os, subprocess, sys
VERIF = os.path.dirname(os.path.dirname(os.path.abspath(__file__)))

# (property, unique substring of the fix commit's subject, what failed)
FIXED = [
 ("C20", "UnionFind.component/component_mapping work", "UnionFind.component / component_mapping raised ValueError for tuple elements, mixed element types and for the empty structure (numpy.array/vectorize over the element list)"),
 ("C01", "half_edge_to_corner computes connectivity lazily", "connectivity.half_edge_to_corner raised AttributeError when it was the first query on a freshly built surface mesh (no lazy-initialisation guard)"),
 ("C03", "VolumeMesh connectivity declares _adjE2F", "connectivity.edge_to_face raised AttributeError when it was the first query on a freshly built volume mesh (_adjE2F not declared in __init__)"),
 ("C12", "AABB.do_intersect agrees with AABB.intersection", "AABB.do_intersect answered True for an empty (inverted) operand whose componentwise overlap has negative extent"),
 ("C12", "AABB.pad no longer modifies", "AABB.pad changed the caller's corner arrays and every box sharing them (in-place update of wrapped arrays)"),
 ("C12", "Vec.normalized restores numpy", "Vec.normalized (and cotan, circumcenter, rotate_around_axis, face_basis ... through it) left numpy's error configuration at 'warn' on return and at 'raise' when raising"),
 ("C05", "dense attributes report index == size", "ArrayAttribute get/set at index == container size raised numpy IndexError instead of OutOfBoundsError"),
 ("C05", "container += container keeps attributes aligned", "DataContainer/CornerDataContainer += container raised AttributeError (other.n_elem) after extending, leaving dense attributes shorter than the container"),
 ("C05", "vector-valued attribute writes type-check every component", "vector writes only type-checked the first component: [1.5, 1j] accepted by a float attribute, sparse and dense then disagree"),
 ("C05", "sparse vector attributes hand out a fresh default", "reading a never-written entry of a sparse vector attribute returned the shared default object (x = a[0]; x += 1 changed a[1]); scalar custom default read as scalar in sparse but as vector in dense"),
 ("C05", "sparse vector attributes store values with the attribute", "sparse vector attribute kept the value's dtype: s[0] = [3,1]; s[0] += 0.5 raised UFuncTypeError while dense gives [3.5,1.5]"),
 ("C05", "attributes accept the numpy complex and string scalars", "complex/str attributes refused numpy scalars they had handed out (d[1] = d[0], d[0] += 1j raised ValueError)"),
 ("C19", "sample_ball stays inside", "sample_ball left the ball for radius < 1 (radial law cbrt(uniform(0, radius)))"),
 ("C19", "sample_AABB in grid mode", "sample_AABB(mode='grid') returned the unit-cube grid whatever the box"),
 ("C19", "sample_surface works on a mesh with a single face", "sample_surface raised TypeError on a one-face mesh (0-d probability vector)"),
 ("C19", "BezierCurve.as_polyline builds its edges", "BezierCurve.as_polyline(custom_pos) built edges from n_pts instead of len(custom_pos)"),
 ("C19", "BezierPatch.as_surface indexes faces", "BezierPatch.as_surface used i*n1+j with rows of length n2: wrong / out-of-range faces when n1 != n2"),
 ("C04", "medit reader parses Hexahedra", "medit Hexahedra records read with 6 indices: hex meshes (also mouette's own files) failed to load or loaded wrong cells"),
 ("C04", "OFF reader converts '2 a b'", "OFF '2 a b' edge records kept as strings: load raised TypeError"),
 ("C04", "geogram reader records the size of the last cell", "geogram reader appended the last cell's size to the facet table (cell_ptr typo): last cell lost / IndexError"),
 ("C04", "geogram export/import of the cell_facets", "geogram export wrote adjacent_cell keys instead of values under the wrong set name (two adjacent tets could not be reloaded), cell-face attributes under an undeclared set; reader matched 'facets' before 'cell_facets'"),
 ("C04", "geogram export writes facet_ptr", "geogram export wrote no facet_ptr: quad/polygon surfaces reloaded as triangles"),
 ("C04", "STL files without facets", "saving a face-less mesh to STL wrote a header-only file on which the binary reader aborts the interpreter"),
 ("C14", "unit_grid indexes vertices with the row length", "unit_grid(nu != nv): faces out of range / non-manifold / not a disk, uv on the wrong vertices (i*nu+j with rows of nv)"),
 ("C14", "sphere_uv uses all of its n_lat rings", "sphere_uv left its last ring (n_long points on the south pole) unused"),
 ("C14", "tetrahedron generator orients", "procedural.tetrahedron listed two of its faces with the opposite orientation"),
 ("C14", "hexahedron_4pts passes volume by keyword", "hexahedron_4pts(volume=True) returned a triangulated surface (switch forwarded positionally into triangulate)"),
 ("C14", "hexahedron colors its 6 quads", "hexahedron(colored=True) with quads: color entries for 12 faces, as_array raises"),
 ("C14", "icosphere(n_refine=0) lies on the sphere", "icosphere(0, radius=r) returned vertices at 1.902*r"),
 ("C14", "dual_mesh skips border vertices", "dual_mesh of a bordered mesh produced 1- and 2-vertex faces"),
 ("C09", "shortest_path with weights='one'", "shortest_path(weights='one') raised TypeError (unit-weight lambda takes one argument, called with two)"),
 ("C09", "shortest_path_to_vertex_set with a single target", "shortest_path_to_vertex_set with a one-element target collection raised KeyError: -1 (sentinel passed instead of the target)"),
 ("C09", "build_path offsets the edges", "shortest_path(..., several targets, export_path_mesh=True): polyline edges of the 2nd+ paths indexed the first path's vertices (offset never advanced)"),
 ("C04", "geogram reader keeps facet_ptr / cell_ptr as user attributes", "a .geogram_ascii volume file with an explicit facet_ptr listing only some facets: load -> save wrote the stale facet_ptr attribute next to the completed face list (7 faces became 9 after the next load)"),
 ("C04", "a second save of a hexahedral mesh to geogram_ascii writes tetrahedra", "save(hex mesh, .geogram_ascii) raised but left 'adjacent_cell' on the mesh: the second save of the same object succeeded and wrote hexahedra without cell_ptr (loaded as tetrahedra)"),
 ("C17", "cotangent() derived from cached angles loses the digits of small angles", "with a persistent 'angles' attribute cached, cotangent() used -tan(angle + pi/2): needle angles were rounded away and the cotangent-weighted Tutte embedding missed the weighted mean by up to 1e-5 on meshes stretched by 2^40"),
 ("C01", "a pre-existing 'border' attribute leaks into the border flags", "with config.display_duplicate_attribute_warning = True a vertex attribute named 'border' that existed before the first border query leaked into is_vertex_on_border / interior_vertices (the flags are written into the attribute handed back by create_attribute)"),
 ("C10", "EdgeMinimalSpanningTree refuses a dense edge attribute", "EdgeMinimalSpanningTree raised 'Acceptable weights are ... Attribute on edges' for weights stored in a dense edge attribute (ArrayAttribute): the argument check named the sparse class only"),
 ("C10", "CellSpanningTree.build_tree_as_polyline reads", "CellSpanningTree.build_tree_as_polyline raised AttributeError once a 'barycenter' attribute existed on the faces (wrong container tested, non-existent accessor called)"),
 ("C11", "KDTree construction terminates", "KDTree construction looped forever when the pivot equals the largest coordinate on every axis (repeated / collinear / clustered points), all three strategies"),
 ("C11", "KDTree.query only prunes once k candidates", "KDTree.query pruned subtrees with fewer than k candidates held: fewer than min(k,n) results or a farther point returned"),
 ("C17", "Tutte square boundary no longer stacks", "TutteEmbedding(boundary_mode='square') placed the first vertex of sides 2-4 on the preceding corner: coincident border positions and zero-area triangles for every border of >= 5 vertices"),
 ("C15", "border cycles follow border edges", "extract_border_cycle / _all / extract_boundary_of_surface followed interior edges between border vertices and started on a non-border edge when sort_neighborhoods is off"),
 ("C15", "feature detector reads the hard_edges attribute by value", "FeatureEdgeDetector iterated the hard_edges attribute: TypeError for a dense attribute, edges explicitly set to False treated as hard"),
 ("C15", "feature detector clears corner orders", "FeatureEdgeDetector kept corner orders of a previous detection on vertices that are no longer feature vertices"),
 ("C15", "face_normals uses the whole polygon", "face_normals took the first three vertices of a face: flipped normal on planar non-convex polygons (flat interior edges flagged as sharp features)"),
 ("C08", "volume_laplacian uses the signed cotangent", "volume_laplacian used abs() of the dihedral cotangent: wrong operator on meshes with an obtuse dihedral angle"),
 ("C08", "face and cell mass matrices work on meshes with a single", "area_weight_matrix_faces / volume_weight_matrix_cells raised TypeError on a one-face / one-cell mesh (0-d array)"),
 ("C08", "laplacian always has shape", "operators.laplacian returned a truncated matrix when the last vertices belong to no face (no shape= argument)"),
 ("C08", "vertex_to_face_operator documents", "vertex_to_face_operator documented |V| x |F| / M[v,f] but returns |F| x |V|"),
 ("C07", "mean_edge_length / mean_face_area / mean_cell_volume divide", "mean_edge_length / mean_face_area / mean_cell_volume divided by the requested n although only min(n, N) elements were summed"),
 ("C07", "triangle_aspect_ratio returns its attribute", "triangle_aspect_ratio returned None (no return statement) and raised on non-triangular faces"),
 ("C07", "interpolation functions reset the output attribute", "interpolate_faces_to_vertices / average_corners_to_vertices / average_corners_to_faces accumulated onto an output attribute that already held values (constants no longer interpolated to the constant)"),
 ("C18", "face-based frame fields align order-n frames", "face-based frame field constraint hard-coded **4: for orders != 4 no branch was tangent to the border/feature edge unless the face basis happens to be aligned with it (custom connections)"),
 ("C02", "cell_faces records the owner cell", "cell_faces owner list never filled; rebuilding a volume mesh appended its cell-face records a second time"),
 ("C02", "volume meshes can be built with config.complete_faces_from_cells = False", "building a volume mesh with complete_faces_from_cells=False raised KeyError in _generate_cell_faces"),
 ("C02", "rebuilding a mesh does not flag every edge", "rebuilding from an already built mesh (RawMeshData(mesh), subdivision, merge) flagged every edge as a hard edge"),
 ("C02", "_generate_cell_corners fills the owner list", "cell corners pre-filled with vertices only: cell indices appended to the vertex list instead of the owner list"),
 ("C18", "face-based frame field clears the 'fixed' flags", "with config.display_duplicate_attribute_warning=True a second face-based frame field on the same mesh with fewer constraints (features on, then off) treated the faces fixed by the earlier field as fixed: their values stayed 0 (unit modulus violated, not the harmonic extension)"),
 ('C04', "OFF reader ignores '#' comments", "an OFF file with '#' comment lines or trailing comments (allowed by the format) raised ValueError on load"),
 ('C04', 'OFF reader accepts the element counts on the same line', "an OFF file whose counts follow the keyword on the header line ('OFF nv nf ne') raised ValueError / IndexError on load"),
 ('C04', "OBJ reader keeps every segment of an 'l' record", "an OBJ 'l' record with more than two vertices lost every segment after the first"),
 ('C04', 'OBJ reader resolves negative (relative) indices', "negative (relative) indices in OBJ 'f' and 'l' records were read as absolute indices (wrong elements)"),
 ('C04', 'xyz reader skips blank lines', 'a blank line in an xyz file became a vertex without coordinates'),
 ('C04', 'tet reader skips blank lines', 'a blank line in a .tet file was read as a vertex or a cell (wrong content, ValueError or UnboundLocalError)'),
 ('C04', 'geogram_ascii reader skips blank lines and comment-only lines', 'blank lines and comment-only lines in a geogram_ascii file were parsed as values (ValueError / Exception)'),
 ('C04', 'ASCII STL reader skips blank lines', 'a blank line in an ASCII STL file raised IndexError'),
 ('C04', 'medit reader skips blank lines inside a block', 'a blank line inside a medit block was read as an element (wrong content, ValueError or UnboundLocalError)'),
 ('C04', 'medit reader reads a block whose keyword and count are on the same line', "a medit block written as 'Keyword n' on one line was skipped"),
 ('C04', "medit reader honours 'Dimension 2'", "a medit file with 'Dimension 2' had its vertex reference read as the z coordinate"),
 ('C03', 'volume edge adjacency skips face sides absent from the edge list', 'on a volume mesh without a complete edge list (config.complete_edges_from_faces=False) the first edge query raised KeyError and later ones answered from the half-built tables (answers depended on the query order)'),
 ('C03', 'boundary connectivity of a volume maps the border edges when config.complete_edges_from_faces is off', 'with config.complete_edges_from_faces=False the border surface of enable_boundary_connectivity had no edges: every border edge was mapped to None and the edge maps were not mutually inverse'),
 ("C07", "intersect_2lines2D tests parallelism relative to the direction lengths", "geometry.circumcenter / attributes.face_circumcenter raised AttributeError on non-degenerate triangles with edge lengths around 1e-6 (absolute 1e-12 parallelism threshold on a quantity in length^2 in intersect_2lines2D)"),
 ("C06", "translate by one of the mesh's own vertices", "transform.translate(mesh, mesh.vertices[i]) moved the vertices after i by twice the vector (in-place += on the vector itself once its own vertex was reached)"),
 ("C12", "distance_to_segment2D treats only a zero-length segment as a point", "geometry.distance_to_segment2D returned the distance to the first end point for every segment shorter than 1e-6 (absolute 1e-12 threshold on the squared length)"),
 ("C12", "axis_rot_from_z aligns z with short vectors too", "rotations.axis_rot_from_z returned a rotation by |v| radians for |v| < 1e-8 (absolute threshold on |z x v|) instead of the rotation aligning z with v"),
 ("C19", "a Bezier curve or patch with a single control point returns a copy of it", "BezierCurve([p]).evaluate(t) / BezierPatch([[p]]).evaluate(u,v) returned the stored control point itself: editing the returned vector in place moved the curve / patch and the caller's array"),
 ("C09", "shortest_path accepts a numpy integer as a single target", "a one-element target collection of numpy integers (or a bare numpy integer) raised TypeError in shortest_path / shortest_path_to_vertex_set while collections of two or more worked"),
 ("C18", "frame-field attach weight separates zero from non-zero eigenvalues relative to the mesh size", "frame fields with smoothing on closed surfaces with edges below ~1e-5: the absolute 1e-6 threshold on the Laplacian eigenvalues (homogeneous to 1/length^2) took round-off as the attach weight, every smoothing step shrank the field and the frames ended with modulus ~1e-45 instead of 1"),
 ("C18", "vertex-based frame field on closed surfaces passes the mass matrix as B", "vertex-based frame field on a closed surface without features passed the mass matrix as the shift of inverse_power_method: on large models (unit of length >= 2^16) all frames but one fell under the normalisation threshold (non-unit moduli)"),
 ("C02", "edge attributes survive the removal of invalid edges", "dropping an invalid edge lost the values of dense edge attributes (ValueError for vector ones) and the custom default of sparse ones"),
 ("C02", "cell/face connectivity works when cells are numpy rows", "face_to_cells / cell_to_face / in_cell_face_index raised ValueError on volume meshes whose cells are numpy rows (from_arrays)"),
 ("C16", "singularity cutter reaches every face", "SingularityCutter with a feature detector and >= 1 singularity: faces enclosed by forbidden feature edges were never reached by the dual search and the cut mesh fell apart into several components"),
 ("C13", "split_edge replaces the split edge", "split_edge turned the split edge into a 4-tuple (tuple concatenation); a second split raised ValueError"),
 ("C13", "surface refinements take edge midpoints from the faces", "loop_subdivision / subdivide_triangles_3quads / subdivide_triangles_6 raised KeyError on meshes with quads, after a 3quads refinement and for subdivide_triangles_6(2) (midpoint table built from the stale edge list)"),
 ("C13", "subdivision blocks leave the mesh that was passed in equal to the result", "the mesh object passed to SurfaceSubdivision / VolumeSubdivision / split_double_boundary_edges_triangles was left half-updated (faces without corners) or with connectivity and border caches describing the old mesh"),
 ("C13", "split_tet_from_face_center reads cell adjacency from the current cells", "second volume operation of an editing block used the face->cells table computed on entry: wrong cell split (volume changed) or KeyError"),
 ("C13", "quads are not split along a diagonal that is already an edge", "triangulating a quad whose B-D diagonal is already an edge of the mesh produced an edge with 3-4 incident faces (non-manifold result)"),
 ("C04", "medit export writes all edges when no face or cell is exported", "save(surface, 'x.mesh', ignore_elements={'faces'}) wrote only the hard edges (none): the wireframe reloaded as a point cloud"),
 ("C06", "every built mesh owns the storage of its vertex coordinates", "meshes shared coordinate storage with their sources: from_arrays / corner-point generators wrote through to caller arrays, merge results moved their inputs (same mesh merged twice moved twice), the open ring's seam vertex moved twice, extract_boundary_of_volume and dual_mesh(circumcenter) moved their source, integer coordinates made translate raise"),
 ("C06", "extract_boundary_of_surface copies the coordinates", "transforming the polyline returned by extract_boundary_of_surface moved the surface it was extracted from"),
 ("C06", "copy(mesh, copy_connectivity=True) copies the connectivity", "copy(mesh, copy_connectivity=True) shared the source's connectivity object (answers for the source after the copy is edited)"),
 ("C06", "scale_xyz without an origin scales about (0,0,0)", "scale_xyz(mesh, fx, fy, fz) without origin scaled about the first vertex instead of (0,0,0)"),
 ("C14", "circumcenter lies in the plane", "geometry.circumcenter dropped the normal offset of the triangle's plane (dual_mesh circumcenter mode put vertices in the wrong plane)"),
]

# (property, (subcheck, callee, kind, input_class), what fails, optional tiers)
_C18B = "face-based frame field: a face with two border/feature edges takes its constraint from whichever of them has the largest edge id and its basis from the first one in face order, so the field depends on which vertex such a face is listed from (repair = average the constraints as the vertex version does: a behaviour change for the maintainer to decide)"
_C18C = "vertex-based frame field with smooth_normals=True and even order: the constraint at interior feature (crease) vertices is computed by geometric projection in a basis whose X axis is the first ring edge while transport uses flattened chart angles, so the constrained direction moves by a few degrees when a face is listed from another vertex (repair = a canonical basis at crease vertices: redesign)"
_C16D1 = "SingularityCutter on a closed sphere with exactly two adjacent singular vertices: the cut is a single edge, which cannot be opened in an indexed mesh (neither end is duplicated), so the output is the uncut sphere although the edge is reported in cut_edges (repair = explicit seam data or keeping a longer cut: a design decision)"
KNOWN = [
 ("C16", ("C16.disk.border_loops", "SingularityCutter.output_mesh", "mismatch:border_loops", "sphere|S2:adj|geom=any|feat=off"), _C16D1),
 ("C16", ("C16.opened_iff_cut", "SingularityCutter.cut_edges", "mismatch:reported_edge_not_opened", "sphere|S2:adj|geom=any|feat=off"), _C16D1),
 ("C16", ("C16.disk.border_loops", "SingularityCutter.output_mesh", "mismatch:border_loops", "sphere|S2:adj|geom=*|feat=crease"), _C16D1),
 ("C16", ("C16.opened_iff_cut", "SingularityCutter.cut_edges", "mismatch:reported_edge_not_opened", "sphere|S2:adj|geom=*|feat=crease"), _C16D1),
 ("C18", ("C18.invariance.face_start", "SurfaceFrameField(faces).run", "mismatch:direction_relative_to_edge", "order!=4:faces:bordered:ns0:feat:corner_faces"), _C18B),
 ("C18", ("C18.invariance.face_start", "SurfaceFrameField(faces).run", "mismatch:direction_relative_to_edge", "order!=4:faces:bordered:ns0:nofeat:corner_faces"), _C18B),
 ("C18", ("C18.invariance.face_start", "SurfaceFrameField(faces).run", "mismatch:direction_relative_to_edge", "order4:faces:bordered:ns0:feat:corner_faces"), _C18B),
 ("C18", ("C18.invariance.face_start", "SurfaceFrameField(faces).run", "mismatch:direction_relative_to_edge", "order4:faces:bordered:ns0:nofeat:corner_faces"), _C18B),
 ("C18", ("C18.invariance.face_start", "SurfaceFrameField(vertices).run", "mismatch:direction_relative_to_edge", "order!=4:vertices:bordered:ns0:feat:interior_feature_vertices:geometric_init"), _C18C),
 ("C18", ("C18.invariance.face_start", "SurfaceFrameField(vertices).run", "mismatch:direction_relative_to_edge", "order4:vertices:bordered:ns0:feat:interior_feature_vertices:geometric_init"), _C18C),
 ("C05", ("C05.last_written", "ArrayAttribute.__setitem__", "mismatch:truncated", "str:len>32"), "string attribute values longer than 32 characters are truncated by the dense storage (fixed-width '<U32' cells, a documented design limit; repair = object dtype / dynamic width, a redesign)"),
 ("C05", ("C05.last_written", "Attribute.as_array", "mismatch:truncated", "str:len>32"), "string attribute values longer than 32 characters are truncated by the sparse storage's array export ('<U32')"),
 ("C05", ("C05.last_written", "Attribute.__setitem__", "mismatch:truncated", "str:len>32"), "string vector values longer than 32 characters are truncated by the sparse storage ('<U32', same limit as the dense storage)"),
 ("C12", ("C12.prim.signed_angle.antisymmetric", "signed_angle_2vec3D", "mismatch:not_antisymmetric", "normal_orthogonal_to_V1xV2"), "signed_angle_2vec3D / signed_angle_3pts are not antisymmetric when the reference normal is zero or orthogonal to V1 x V2 (sign0(0)=+1 for both argument orders); no antisymmetric value exists there without changing the contract (return 0 or raise)"),
 ("C04", ("C04.read.cells", "mouette.mesh.load", "mismatch:cells", "off:quad"), "the OFF reader's documented convention '4 a b c d = tetrahedron': an OFF file with a quad face loads as a VolumeMesh with a tetrahedral cell (changing the convention removes the ability to read tetrahedra from OFF: redesign)"),
 ("C04", ("C04.roundtrip.cells", "mouette.mesh.load", "mismatch:cells", "off:quad"), "a quad (or hexahedral, through its faces) mesh saved to OFF reloads as tetrahedra (same '4 = tetrahedron' convention)"),
 ("C04", ("C04.read.faces", "mouette.mesh.load", "mismatch:faces", "off:poly"), "the OFF reader silently drops faces with 5 or more vertices (only simplices are supported by design)"),
 ("C04", ("C04.save.accepts", "mouette.mesh.save", "raises:ValueError", "geogram_ascii:hex"), "saving a hexahedral mesh to geogram_ascii raises ValueError (cell adjacency is implemented for tetrahedra only; the writer has no cell_ptr/cell_type output)"),
 ("C04", ("C04.write.wellformed", "mouette.mesh.save", "mismatch:malformed_file", "geogram_ascii:attr:type=complex"), "complex attributes are written to geogram_ascii with element size None (the format has no complex type; needs a private encoding or a rejection at save)"),
 ("C04", ("C04.write.wellformed", "mouette.mesh.save", "mismatch:malformed_file", "geogram_ascii:attr:type=str"), "string attributes are written to geogram_ascii with element size None / blank lines and cannot be read back (the format has no string type)"),
 ("C14", ("C14.geometry.on_surface", "procedural.icosahedron", "mismatch:radius", "icosahedron"), "procedural.icosahedron(center, radius) scales the (+-1, +-phi, 0) icosahedron: its vertices are at 1.902*radius from the centre (changing it resizes every existing default icosahedron/dodecahedron)"),
 ("C14", ("C14.switch.uv", "procedural.icosahedron", "mismatch:no_uv_attribute", "icosahedron:uv=True"), "procedural.icosahedron(uv=True) generates no uv coordinates (dead parameter)"),
 ("C14", ("C14.valid.indices_in_range", "procedural.unit_triangle", "mismatch:index_out_of_range", "unit_triangle:nu<nv"), "unit_triangle(nu < nv) produces out-of-range faces (its row structure only meshes the right triangle when nu == nv)"),
 ("C14", ("C14.geometry.requested_corners", "procedural.unit_triangle", "mismatch:corner_missing", "unit_triangle:nu>nv"), "unit_triangle(nu > nv) does not reach the corner (1,0): the result is not the unit right triangle"),
 ("C14", ("C14.geometry.on_surface", "procedural.cylindrify_edges", "mismatch:radius", "cylindrify_edges:mean_edge_length!=1"), "cylindrify_edges(radius) is relative to the mean edge length although documented as the radius of the cylinders"),
 ("C03", ("C03.extract_boundary_of_volume", "processing.border.extract_boundary_of_volume", "mismatch:not_closed_consistently_oriented", "tet:cells1:positive:sort=True:fresh:faces_given_ascending_winding:face_completion_off"), 'extract_boundary_of_volume copies the winding of the faces as they are stored: when the caller declares the triangles itself (config.complete_faces_from_cells=False, or faces listed in a file) with another winding than the one generated from the cells, the extracted surface is not consistently oriented outwards although every cell is positively oriented (repair = re-orient declared faces from their cell, a behaviour change for the maintainer to decide; enable_boundary_connectivity already orients by a determinant test)'),
 ("C03", ("C03.extract_boundary_of_volume", "processing.border.extract_boundary_of_volume", "mismatch:not_closed_consistently_oriented", "tet:cells1:positive:sort=True:warm:faces_given_ascending_winding:face_completion_off"), 'extract_boundary_of_volume copies the winding of the faces as they are stored: when the caller declares the triangles itself (config.complete_faces_from_cells=False, or faces listed in a file) with another winding than the one generated from the cells, the extracted surface is not consistently oriented outwards although every cell is positively oriented (repair = re-orient declared faces from their cell, a behaviour change for the maintainer to decide; enable_boundary_connectivity already orients by a determinant test)', ["thorough"]),
 ("C03", ("C03.extract_boundary_of_volume", "processing.border.extract_boundary_of_volume", "mismatch:not_closed_consistently_oriented", "tet:cells2+:positive:sort=True:fresh:faces_given_ascending_winding:face_completion_off"), 'extract_boundary_of_volume copies the winding of the faces as they are stored: when the caller declares the triangles itself (config.complete_faces_from_cells=False, or faces listed in a file) with another winding than the one generated from the cells, the extracted surface is not consistently oriented outwards although every cell is positively oriented (repair = re-orient declared faces from their cell, a behaviour change for the maintainer to decide; enable_boundary_connectivity already orients by a determinant test)'),
 ("C03", ("C03.extract_boundary_of_volume", "processing.border.extract_boundary_of_volume", "mismatch:not_closed_consistently_oriented", "tet:cells2+:positive:sort=True:warm:faces_given_ascending_winding:face_completion_off"), 'extract_boundary_of_volume copies the winding of the faces as they are stored: when the caller declares the triangles itself (config.complete_faces_from_cells=False, or faces listed in a file) with another winding than the one generated from the cells, the extracted surface is not consistently oriented outwards although every cell is positively oriented (repair = re-orient declared faces from their cell, a behaviour change for the maintainer to decide; enable_boundary_connectivity already orients by a determinant test)', ["thorough"]),
 ("C18", ("C18.sort.vertex_connection", "SurfaceConnectionVertices.transport", "mismatch:chart_angles", "vertices:sort=False"), 'SurfaceConnectionVertices accumulates the chart angles along connectivity.vertex_to_vertices(u)[::-1], which is the counter-clockwise ring starting on the border only when config.sort_neighborhoods is True; with the documented switch off the chart angles are not the geometric ones, so border constraints and the vertex-based frame field change and depend on the vertex numbering (repair = walk the ring through the half edges, ~15 lines: left to the maintainer)'),
]


# Defects met while building that no check reports (outside every explored domain or not decidable deterministically);
# documentation only: the runner ignores them.
NOTED = [
 ("C18", "smoothing steps of a frame field on a closed surface whose order-n connection is trivial (order 4 on the octahedron's vertices, even orders on the tetrahedron's faces): lap - alpha*A with alpha = first non-zero eigenvalue of the scalar problem is exactly singular; spsolve returns finite garbage or NaN depending on round-off and on ARPACK's start vector (1 of 20 seeds in the default configuration). More generally the smoothing step is an implicit heat step with a negative time step (indefinite matrix); the positive-definite form (lap + alpha*A) is a behaviour change of every smoothed field. These executions are excluded from C18 by a predicate on the independently assembled operator (closed, nothing constrained, n_smooth>0, smallest eigenvalue of the connection Laplacian < 1e-9 x the largest) and counted (excluded_singular_smoothing_system)."),
 ("C07", "the documented `dense` option of 8 functions of mouette.attributes is ignored when persistent=True (face_normals, face_barycenter, face_circumcenter, triangle_aspect_ratio always store sparsely; corner_angles, cotangent, edge_length, edge_middle_point always densely); the values are right, only the storage class differs, which C07 does not state; honouring the option would change the storage type of default calls. Also three docstrings name another default than the signature (border_normals dense, triangle_aspect_ratio dense, face_circumcenter name)."),
 ("C05", "DataContainer.register_array_as_attribute tests config.display_duplicate_attribute_warning with the opposite polarity of create_attribute: under the default configuration registering over an existing name warns, does not register and returns None although the docstring says the attribute is overridden (a second BFF run on one mesh keeps the old uv attribute). Outside the C05 statement; not exercised."),
 ("C08", "volume_weight_matrix / volume_weight_matrix_cells document 'format ... Defaults to dia.' while the signature default, the annotation and the sibling functions say csc (documentation only)."),
 ("C19", "the decorators allowed_mesh_types / forbidden_mesh_types (mesh/datatypes/type_checks.py) only inspect positional arguments: a mesh passed by its documented keyword bypasses the type guard (sampling.sample_polyline(mesh=<SurfaceMesh>, n_pts=2) answers instead of raising BadMeshTypeException). Outside the C19 statement; not exercised."),
 ("C14", "sphere_fibonacci(n, radius < ~4.6e-10) returns a broken triangulation: qhull's 'QJ' joggle has an absolute floor (~6.7e-12), so the joggled hull of a tiny sphere is garbage (repair: take the hull of the unit sample). C14's unit-of-length deviation runs this generator down to 2^-30 only and says so."),
 ("C07", "face_area of a face with 5 or more corners fans the polygon around its barycentre taken as an absolute position: far from the origin the rounding of that position enters the area (relative error 1.2e-14 at distance/size 2^30, 1.3e-8 at 2^40, 3e-6 at 2^48); triangles, quads and cells are unaffected. Conditioning, not logic: C07's far-from-origin placements are bounded at distance/size <= 2e10 where the tree is right to 1e-9 (repair: subtract a corner before fanning)."),
 ("C18", "documentation only: SurfaceFrameField(features=False, custom_features=det) still uses the detector's interior feature edges although the docstring says custom features are ignored when features is off; cotan_edge_diagonal documents 1/abs(cot a + cot b) but takes no absolute value."),
 ("C12", "norm(Vec, 'l1') and distance(Vec, Vec, 'l1') return a 0-d Vec instead of a float (treated as a number by every comparison; outside the statement)."),
]


def commit_of(subject):
    out = subprocess.run(["git", "-C", os.environ.get("VERIF_REPO", "/repo"), "log", "--format=%h %s"],
                         capture_output=True, text=True).stdout.splitlines()
    m = [l.split()[0] for l in out if subject in l and l.split(" ", 1)[1].startswith("fix:")]
    m = sorted(set(m))
    assert len(m) == 1, (subject, m)
    return m[0]


def main():
    F = []
    for pid, subj, what in FIXED:
        c = commit_of(subj)
        F.append({"property": pid, "status": "fixed", "commit": c, "line": f"fixed: property={pid} {c} {what}"})
    for row in KNOWN:
        pid, fp, what = row[:3]
        e = {"property": pid, "status": "known", "fingerprint": dict(zip(("subcheck", "callee", "kind", "input_class"), fp)), "what": what}
        if len(row) > 3:
            e["tiers"] = row[3]
        F.append(e)
    for pid, what in NOTED:
        F.append({"property": pid, "status": "noted", "what": what})
    doc = {"format": "findings[]: status=known entries carry an exact 4-field fingerprint (subcheck, callee, kind, input_class) + property: the check prints a KNOWN-FINDING line for them and exits 0, any other fingerprint is a VIOLATION; status=fixed entries carry the line required by the interface and suppress nothing",
           "findings": F}
    with open(os.path.join(VERIF, "known_findings.json"), "w") as f:
        json.dump(doc, f, indent=1)
    print(len(FIXED), "fixed,", len(KNOWN), "known")


if __name__ == "__main__":
    main()
