#!/bin/bash
# usage: mc/seeded_round.sh <round-tag> <out-root> <PID> [letters...]   e.g. mc/seeded_round.sh r5 /tmp/r5/out C10 a b c d
# imports <out-root>/<PID>/<k>/ as seeded/<PID>-<tag><k> (validation by mc.seeded_import) and evaluates it (mc.seeded_eval, quick)
tag=$1; root=$2; pid=$3; shift 3
cd /verif
for k in "$@"; do
  src=$root/$pid/$k; name=$pid-$tag$k
  [ -f $src/patch.diff ] || { echo "$name: no patch"; continue; }
  needs=$(grep -m1 '^NEEDS:' $src/notes.txt | sed 's/^NEEDS: *//')
  /venv/bin/python -B -m mc.seeded_import $src $name $pid "$needs" 2>&1 | tail -2
  [ -d seeded/$name ] && /venv/bin/python -B -m mc.seeded_eval $name 2>&1 | cut -c1-600
done
