"""Validates a candidate property-breaking change produced by an independent sub-agent and, if it
qualifies, stores it under /verif/seeded/<name>/.

usage: /venv/bin/python -B -m mc.seeded_import <src_dir> <name> <PROPERTY> "<what it needs to manifest>"
<src_dir> holds patch.diff, demo.py (+ notes.txt). Steps, all in a scratch worktree of /repo HEAD under /tmp:
 1. demo.py must exit 0 on the unchanged tree;
 2. the patch must apply; demo.py must then exit non-zero;
 3. the repository's own suite must give exactly the baseline set of passing tests (BASELINE.json stable_pass).
"""
import json, os, shutil, subprocess, sys, xml.etree.ElementTree as ET
VERIF = os.path.dirname(os.path.dirname(os.path.abspath(__file__)))


def run(cmd, **kw):
    return subprocess.run(cmd, capture_output=True, text=True, **kw)


def pyenv(wt):
    """demo programs must import the worktree's mouette, not the editable install of /repo"""
    return dict(os.environ, PYTHONPATH=wt)


def suite_pass_set(wt):
    xmlp = wt + ".junit.xml"
    r = run(["/venv/bin/python", "-m", "pytest", "-q", "-p", "no:cacheprovider", "-n", os.environ.get("SEED_PYTEST_JOBS", "8"), "--timeout=900",
         "--continue-on-collection-errors", "--junitxml=" + xmlp], cwd=wt, timeout=3600)
    passed = set()
    if not os.path.exists(xmlp):
        print("pytest produced no junit file:", (r.stdout + r.stderr)[-1500:])
        return passed
    for tc in ET.parse(xmlp).getroot().iter("testcase"):
        if not any(ch.tag in ("failure", "error", "skipped") for ch in tc):
            passed.add(tc.get("classname") + "::" + tc.get("name"))
    os.remove(xmlp)
    return passed


def main():
    src, name, pid, needs = sys.argv[1:5]
    wt = f"/tmp/wt_import_{name}"
    run(["git", "-C", "/repo", "worktree", "remove", "--force", wt])
    assert run(["git", "-C", "/repo", "worktree", "add", "-f", "--detach", wt, "HEAD"]).returncode == 0
    ok, log = True, {}
    try:
        r = run(["/venv/bin/python", "-B", os.path.join(src, "demo.py")], cwd=wt, timeout=900, env=pyenv(wt))
        log["demo_exit_unchanged"] = r.returncode
        if r.returncode != 0:
            ok = False; log["demo_unchanged_output"] = (r.stdout + r.stderr)[-500:]
        r = run(["git", "-C", wt, "apply", os.path.join(src, "patch.diff")])
        if r.returncode != 0:
            ok = False; log["apply_error"] = r.stderr[-300:]
        else:
            r = run(["/venv/bin/python", "-B", os.path.join(src, "demo.py")], cwd=wt, timeout=900, env=pyenv(wt))
            log["demo_exit_with_change"] = r.returncode
            log["demo_output_with_change"] = (r.stdout + r.stderr)[-400:]
            if r.returncode == 0:
                ok = False
            base = set(json.load(open("/root/.vp/BASELINE.json"))["stable_pass"])
            got = suite_pass_set(wt)
            log["suite_passed"] = len(got)
            log["suite_lost"] = sorted(base - got)[:10]
            log["suite_gained"] = sorted(got - base)[:10]
            if base - got:
                ok = False
    finally:
        run(["git", "-C", "/repo", "worktree", "remove", "--force", wt])
    log["qualifies"] = ok
    print(json.dumps(log, indent=1))
    if ok:
        dst = os.path.join(VERIF, "seeded", name)
        os.makedirs(dst, exist_ok=True)
        for f in ("patch.diff", "demo.py", "notes.txt"):
            if os.path.exists(os.path.join(src, f)):
                shutil.copy(os.path.join(src, f), os.path.join(dst, f))
        meta = {"property": pid, "needs_to_manifest": needs, "origin": "independent sub-agent given only the property text and a scratch worktree",
                "validated": {"repo_head": run(["git", "-C", "/repo", "rev-parse", "--short", "HEAD"]).stdout.strip(),
                              "demo_exit_unchanged": log["demo_exit_unchanged"], "demo_exit_with_change": log["demo_exit_with_change"],
                              "repo_suite_passed_with_change": log["suite_passed"], "baseline_tests_lost": log["suite_lost"]},
                "commands": ["git apply patch.diff (scratch worktree)", "/venv/bin/python demo.py", "pytest -n 8 --junitxml (pass set compared with BASELINE.json stable_pass)"]}
        json.dump(meta, open(os.path.join(dst, "meta.json"), "w"), indent=1)
        print("stored", dst)
    sys.exit(0 if ok else 1)


if __name__ == "__main__":
    main()
