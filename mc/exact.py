"""Exact (fractions.Fraction) geometry used by oracles. Points are tuples of ints/Fractions."""
from fractions import Fraction as Fr
import math


def F(p):
    return tuple(Fr(x) for x in p)


def add(a, b): return tuple(x + y for x, y in zip(a, b))
def sub(a, b): return tuple(x - y for x, y in zip(a, b))
def scale(a, s): return tuple(x * s for x in a)
def dot(a, b): return sum(x * y for x, y in zip(a, b))
def cross(a, b): return (a[1] * b[2] - a[2] * b[1], a[2] * b[0] - a[0] * b[2], a[0] * b[1] - a[1] * b[0])
def sqnorm(a): return dot(a, a)
def det3(a, b, c): return dot(a, cross(b, c))


def barycenter(pts):
    n = len(pts)
    return tuple(sum(Fr(p[k]) for p in pts) / n for k in range(len(pts[0])))


def tri_area2_sq(a, b, c):
    """(2*area)^2 of a triangle, exact."""
    return sqnorm(cross(sub(b, a), sub(c, a)))


def polygon_area_vector2(pts):
    """2 * vector area of a polygon (exact); its norm is 2*area for planar polygons."""
    o = pts[0]
    acc = (Fr(0), Fr(0), Fr(0))
    for i in range(1, len(pts) - 1):
        acc = add(acc, cross(sub(pts[i], o), sub(pts[i + 1], o)))
    return acc


def tet_volume6(p0, p1, p2, p3):
    return det3(sub(p0, p3), sub(p1, p3), sub(p2, p3))


def cot_at(a, b, c):
    """cotangent of the angle at a in triangle (a,b,c), as float (dot / |cross|)."""
    u, v = sub(b, a), sub(c, a)
    return float(dot(u, v)) / math.sqrt(float(sqnorm(cross(u, v))))


def angle_at(a, b, c):
    u, v = sub(b, a), sub(c, a)
    return math.acos(max(-1.0, min(1.0, float(dot(u, v)) / math.sqrt(float(sqnorm(u)) * float(sqnorm(v))))))


def circumcenter(a, b, c):
    """Exact circumcentre of a non-degenerate 3-D triangle: a + s*u + t*v with the 2x2 system solved in Q."""
    u, v = sub(b, a), sub(c, a)
    uu, vv, uv = dot(u, u), dot(v, v), dot(u, v)
    d = 2 * (uu * vv - uv * uv)
    s = vv * (uu - uv) / d
    t = uu * (vv - uv) / d
    return add(a, add(scale(u, s), scale(v, t)))


def close(x, y, rel=1e-9, abs_=1e-12):
    x, y = float(x), float(y)
    return abs(x - y) <= abs_ + rel * max(abs(x), abs(y))


def vclose(p, q, rel=1e-9, abs_=1e-12):
    return len(p) == len(q) and all(close(x, y, rel, abs_) for x, y in zip(p, q))
