"""Independent oracles for C08 (discrete differential operators).

Everything here is written from the textbook definitions, with exact rational arithmetic
(fractions.Fraction) for all predicates and for every quantity that is rational on the input
alphabet; floats appear only after one square root per triangle.  Nothing in this module imports
mouette.

Conventions fixed by the property statement:
  * stiffness matrix  K[i,j] = integral of grad(phi_i).grad(phi_j)  (positive semi-definite, positive
    diagonal) -- the statement identifies the Laplacian with it and with Re(G* A G), which forces the sign;
  * mass matrices are lumped sums of the measures of the incident elements.
"""
from __future__ import annotations
import itertools, math
from fractions import Fraction as Fr

COT2_MAX = 32          # cot^2(10.02 deg): angles below that are "ill-conditioned" (exact rational predicate)


def fr_pts(pts):
    return [tuple(Fr(x) for x in p) + ((Fr(0),) if len(p) == 2 else ()) for p in pts]


def sub(a, b): return (a[0] - b[0], a[1] - b[1], a[2] - b[2])
def dot(a, b): return a[0] * b[0] + a[1] * b[1] + a[2] * b[2]
def cross(a, b): return (a[1] * b[2] - a[2] * b[1], a[2] * b[0] - a[0] * b[2], a[0] * b[1] - a[1] * b[0])
def sq(a): return dot(a, a)


# ------------------------------------------------------------------------------------------ triangles
def tri_ok(P, face):
    """Exact: non-degenerate and every angle >= ~10 degrees (cot^2 <= 32)."""
    a, b, c = (P[v] for v in face)
    c2 = sq(cross(sub(b, a), sub(c, a)))
    if c2 == 0:
        return False
    for (p, q, r) in ((a, b, c), (b, c, a), (c, a, b)):
        d = dot(sub(q, p), sub(r, p))
        if d > 0 and d * d > COT2_MAX * c2:
            return False
    return True


class SurfOracle:
    """Dense reference matrices of a triangle mesh (lists of lists of float), assembled per element
    from the P1 hat-function gradients:  K_T[i][j] = e_i . e_j / (4 area),  e_i = edge opposite to i."""

    def __init__(self, pts, faces, n=None):
        self.P = fr_pts(pts)
        self.n = len(pts) if n is None else n
        self.F = [tuple(f) for f in faces]
        self.area = []          # float
        self.normal = []        # unit normal (float triple), orientation of the face
        self.KT = []            # 3x3 local stiffness (float)
        self.cot = []           # per face: 3 corner cotangents (float), for magnitude checks only
        for f in self.F:
            a, b, c = (self.P[v] for v in f)
            e = [sub(c, b), sub(a, c), sub(b, a)]
            nv = cross(sub(b, a), sub(c, a))
            c2 = sq(nv)
            two_a = math.sqrt(c2)                      # = 2 * area, the only rounding in the oracle
            self.area.append(two_a / 2)
            self.normal.append(tuple(float(x) / two_a for x in nv))
            self.KT.append([[float(dot(e[i], e[j])) / (2 * two_a) for j in range(3)] for i in range(3)])
            pp = (a, b, c)
            self.cot.append([float(dot(sub(pp[(k + 1) % 3], pp[k]), sub(pp[(k + 2) % 3], pp[k]))) / two_a
                             for k in range(3)])
        self.total_area = math.fsum(self.area)

    def stiffness(self):
        n = self.n
        K = [[0.0] * n for _ in range(n)]
        for f, kt in zip(self.F, self.KT):
            for i in range(3):
                for j in range(3):
                    K[f[i]][f[j]] += kt[i][j]
        return K

    def vertex_area(self):
        w = [0.0] * self.n
        for f, a in zip(self.F, self.area):
            for v in f:
                w[v] += a
        return w

    def edge_ids(self, edges):
        return {(min(a, b), max(a, b)): i for i, (a, b) in enumerate(edges)}

    def edge_area(self, edges):
        eid = self.edge_ids(edges)
        w = [0.0] * len(edges)
        for f, a in zip(self.F, self.area):
            for k in range(3):
                u, v = f[k], f[(k + 1) % 3]
                w[eid[(min(u, v), max(u, v))]] += a / 3
        return w

    def cr_stiffness(self, edges, uniform=False):
        """Crouzeix-Raviart (edge midpoint) stiffness: psi_e = 1 - 2 phi_(opposite vertex) =>
        K_CR[e_i][e_j] = 4 K_T[i][j].  uniform=True replaces every cotangent by 1, i.e. K_T by the local
        matrix of a triangle whose three cotangents are 1: K_T[i][j] = -1/2 (i != j), 1 on the diagonal."""
        eid = self.edge_ids(edges)
        m = len(edges)
        K = [[0.0] * m for _ in range(m)]
        for f, kt in zip(self.F, self.KT):
            loc = []
            for i in range(3):
                u, v = f[(i + 1) % 3], f[(i + 2) % 3]
                loc.append(eid[(min(u, v), max(u, v))])
            for i in range(3):
                for j in range(3):
                    val = ((1.0 if i == j else -0.5) if uniform else kt[i][j])
                    K[loc[i]][loc[j]] += 4 * val
        return K

    def opposite_cot_sum(self, edges):
        """per edge: sum over adjacent faces of the cotangent of the opposite corner, and whether the sum is
        *exactly* zero (decided in rationals: d1/sqrt(c1) + d2/sqrt(c2) == 0)."""
        eid = self.edge_ids(edges)
        parts = [[] for _ in edges]
        for f in self.F:
            a, b, c = (self.P[v] for v in f)
            pp = (a, b, c)
            c2 = sq(cross(sub(b, a), sub(c, a)))
            for k in range(3):      # corner k is opposite to edge (k+1, k+2)
                u, v = f[(k + 1) % 3], f[(k + 2) % 3]
                d = dot(sub(pp[(k + 1) % 3], pp[k]), sub(pp[(k + 2) % 3], pp[k]))
                parts[eid[(min(u, v), max(u, v))]].append((d, c2))
        sums, zero = [], []
        for lst in parts:
            sums.append(math.fsum(float(d) / math.sqrt(c2) for d, c2 in lst))
            if len(lst) == 1:
                zero.append(lst[0][0] == 0)
            elif len(lst) == 2:
                (d1, c1), (d2, c2) = lst
                zero.append((d1 == 0 and d2 == 0) or (d1 * d2 < 0 and d1 * d1 * c2 == d2 * d2 * c1))
            else:
                zero.append(True)
        return sums, zero

    def interior_dual_edges(self):
        """list of (edge key, f1, f2) for edges shared by two faces."""
        he = {}
        for i, f in enumerate(self.F):
            for k in range(3):
                he[(f[k], f[(k + 1) % 3])] = i
        out = []
        for (u, v), i in sorted(he.items()):
            if u < v and (v, u) in he:
                out.append(((u, v), i, he[(v, u)]))
            elif u > v and (v, u) not in he:
                pass
        return out

    def is_closed(self):
        he = set()
        for f in self.F:
            for k in range(3):
                he.add((f[k], f[(k + 1) % 3]))
        return all((v, u) in he for (u, v) in he)


# ------------------------------------------------------------------------------------------ tetrahedra
def _inv4(Mx):
    """Gauss-Jordan inverse of a 4x4 Fraction matrix (None if singular)."""
    n = 4
    A = [list(r) + [Fr(int(i == j)) for j in range(n)] for i, r in enumerate(Mx)]
    for c in range(n):
        p = next((r for r in range(c, n) if A[r][c] != 0), None)
        if p is None:
            return None
        A[c], A[p] = A[p], A[c]
        piv = A[c][c]
        A[c] = [x / piv for x in A[c]]
        for r in range(n):
            if r != c and A[r][c] != 0:
                fct = A[r][c]
                A[r] = [x - fct * y for x, y in zip(A[r], A[c])]
    return [row[n:] for row in A]


def tet_dihedrals(P, cell):
    """For each of the 6 edges (k,l) of the cell: (n1.n2, |n1 x n2|^2) with n1, n2 the consistently
    oriented normals of the two faces containing (k,l); interior dihedral angle has cos = -n1.n2/(|n1||n2|)."""
    out = []
    for (k, l) in itertools.combinations(cell, 2):
        i, j = [x for x in cell if x not in (k, l)]
        n1 = cross(sub(P[k], P[i]), sub(P[l], P[i]))
        n2 = cross(sub(P[l], P[j]), sub(P[k], P[j]))
        out.append(((k, l), dot(n1, n2), sq(cross(n1, n2))))
    return out


def tet_ok(P, cell):
    for _, d, c2 in tet_dihedrals(P, cell):
        if c2 == 0 or d * d > COT2_MAX * c2:
            return False
    return True


def tet_has_obtuse(P, cell):
    return any(d > 0 for _, d, _ in tet_dihedrals(P, cell))


class VolOracle:
    def __init__(self, pts, cells):
        self.P = fr_pts(pts)
        self.n = len(pts)
        self.C = [tuple(c) for c in cells]
        self.vol = []      # Fraction, positive
        self.KT = []       # 4x4 Fractions:  |V| g_i . g_j  with g_i = grad of the hat function of vertex i
        for c in self.C:
            p = [self.P[v] for v in c]
            d = dot(sub(p[0], p[3]), cross(sub(p[1], p[3]), sub(p[2], p[3])))
            v = abs(d) / 6
            self.vol.append(v)
            inv = _inv4([[Fr(1), q[0], q[1], q[2]] for q in p])
            # phi_i(x) = inv[0][i] + inv[1][i] x + inv[2][i] y + inv[3][i] z
            g = [(inv[1][i], inv[2][i], inv[3][i]) for i in range(4)]
            self.KT.append([[v * dot(g[i], g[j]) for j in range(4)] for i in range(4)])
        self.total = sum(self.vol)

    def stiffness(self):
        n = self.n
        K = [[Fr(0)] * n for _ in range(n)]
        for c, kt in zip(self.C, self.KT):
            for i in range(4):
                for j in range(4):
                    K[c[i]][c[j]] += kt[i][j]
        return [[float(x) for x in row] for row in K]

    def vertex_volume(self):
        w = [Fr(0)] * self.n
        for c, v in zip(self.C, self.vol):
            for u in c:
                w[u] += v
        return [float(x) for x in w]

    def dual_graph_laplacian(self):
        m = len(self.C)
        L = [[0.0] * m for _ in range(m)]
        tri = {}
        for i, c in enumerate(self.C):
            for t in itertools.combinations(sorted(c), 3):
                tri.setdefault(t, []).append(i)
        for t, lst in tri.items():
            if len(lst) == 2:
                a, b = lst
                L[a][b] -= 1; L[b][a] -= 1; L[a][a] += 1; L[b][b] += 1
        return L


# ------------------------------------------------------------------------------------------ graphs
def graph_laplacian(n, edges):
    L = [[0.0] * n for _ in range(n)]
    for a, b in edges:
        L[a][b] -= 1; L[b][a] -= 1; L[a][a] += 1; L[b][b] += 1
    return L


def edge_length(P, a, b):
    return math.sqrt(float(sq(sub(P[a], P[b]))))


# ------------------------------------------------------------------------------------------ planar point sets
def orient2d(a, b, c):
    return (b[0] - a[0]) * (c[1] - a[1]) - (b[1] - a[1]) * (c[0] - a[0])


def insert_point(points, faces, p):
    """Split the (ccw) triangle that strictly contains points[p] into three."""
    for i, (a, b, c) in enumerate(faces):
        if (orient2d(points[a], points[b], points[p]) > 0 and orient2d(points[b], points[c], points[p]) > 0
                and orient2d(points[c], points[a], points[p]) > 0):
            return faces[:i] + faces[i + 1:] + [(a, b, p), (b, c, p), (c, a, p)]
    raise ValueError("point not strictly inside a triangle")


# ------------------------------------------------------------------------------------------ self test
def selftest():
    """Brute-force cross-checks of the oracles on tiny inputs (DESIGN 6.5). Raises AssertionError."""
    # right isosceles triangle: classical cotan stiffness
    o = SurfOracle([(0, 0, 0), (1, 0, 0), (0, 1, 0)], [(0, 1, 2)])
    K = o.stiffness()
    want = [[1.0, -0.5, -0.5], [-0.5, 0.5, 0.0], [-0.5, 0.0, 0.5]]
    assert all(abs(K[i][j] - want[i][j]) < 1e-15 for i in range(3) for j in range(3)), K
    assert abs(o.area[0] - 0.5) < 1e-15 and o.normal[0] == (0.0, 0.0, 1.0)
    assert [round(c, 12) for c in o.cot[0]] == [0.0, 1.0, 1.0]
    # generic triangle: K_T[i][j] (i != j) == -cot(angle at the third corner)/2, computed with acos/tan
    pts = [(9, 1, 0), (-8, 0, 2), (1, 8, -1)]
    o = SurfOracle(pts, [(0, 1, 2)])
    import math as m
    for k in range(3):
        i, j = (k + 1) % 3, (k + 2) % 3
        u = [pts[i][d] - pts[k][d] for d in range(3)]; v = [pts[j][d] - pts[k][d] for d in range(3)]
        ang = m.acos(sum(x * y for x, y in zip(u, v)) / m.sqrt(sum(x * x for x in u) * sum(y * y for y in v)))
        assert abs(o.KT[0][i][j] + 0.5 / m.tan(ang)) < 1e-12
        assert abs(o.cot[0][k] - 1 / m.tan(ang)) < 1e-12
    assert all(abs(sum(row)) < 1e-12 for row in o.KT[0])
    # Crouzeix-Raviart on the right triangle: K_CR = 4 K_T reindexed by opposite edges
    edges = [(0, 1), (0, 2), (1, 2)]
    o = SurfOracle([(0, 0, 0), (1, 0, 0), (0, 1, 0)], [(0, 1, 2)])
    KC = o.cr_stiffness(edges)
    # edge (1,2) is opposite vertex 0 -> diag 4*1 ; edge (0,2) opposite vertex 1 -> 4*.5 ; edge (0,1) opposite 2
    assert [KC[2][2], KC[1][1], KC[0][0]] == [4.0, 2.0, 2.0] and KC[0][1] == 0.0 and KC[0][2] == -2.0
    # unit tetrahedron: exact P1 stiffness
    v = VolOracle([(0, 0, 0), (1, 0, 0), (0, 1, 0), (0, 0, 1)], [(0, 1, 2, 3)])
    assert v.vol == [Fr(1, 6)]
    K = v.KT[0]
    assert K[0][0] == Fr(1, 2) and K[1][1] == Fr(1, 6) and K[0][1] == Fr(-1, 6) and K[1][2] == 0
    # ... and the n-D cotan formula on it: K[i][j] = -(1/6) l_kl cot(theta_kl)
    P = v.P
    for (k, l), d, c2 in tet_dihedrals(P, (0, 1, 2, 3)):
        i, j = [x for x in range(4) if x not in (k, l)]
        cot = -float(d) / math.sqrt(float(c2))
        assert abs(float(K[i][j]) + edge_length(P, k, l) * cot / 6) < 1e-12, ((k, l), cot)
    assert not tet_has_obtuse(P, (0, 1, 2, 3))
    # an obtuse tetrahedron: flat-ish apex over an edge
    Pq = fr_pts([(0, 0, 0), (4, 0, 0), (2, 1, 0), (2, 0, 1)])
    assert tet_has_obtuse(Pq, (0, 1, 2, 3))
    vq = VolOracle([(0, 0, 0), (4, 0, 0), (2, 1, 0), (2, 0, 1)], [(0, 1, 2, 3)])
    for (k, l), d, c2 in tet_dihedrals(Pq, (0, 1, 2, 3)):
        i, j = [x for x in range(4) if x not in (k, l)]
        cot = -float(d) / math.sqrt(float(c2))
        assert abs(float(vq.KT[0][i][j]) + edge_length(Pq, k, l) * cot / 6) < 1e-12
    # predicates
    assert tri_ok(fr_pts([(0, 0, 0), (1, 0, 0), (0, 1, 0)]), (0, 1, 2))
    assert not tri_ok(fr_pts([(0, 0, 0), (10, 0, 0), (5, 0, 0)]), (0, 1, 2))
    assert tri_ok(fr_pts([(0, 0, 0), (10, 0, 0), (5, 1, 0)]), (0, 1, 2))            # atan(1/5) = 11.3 deg
    assert not tri_ok(fr_pts([(0, 0, 0), (20, 0, 0), (10, 1, 0)]), (0, 1, 2))       # atan(1/10) = 5.7 deg
    return True
