"""Helper of props/c12.py: call HISTORIES ON ONE Vec OBJECT (subchecks C12.hist.*).

The sweeps of props/c12.py hand every primitive a vector that was built a moment ago and never touched.  A caller's
vector has a past: it was normalised in place, one coordinate was assigned through the x / y / z setters or by index, it
was scaled / shifted with the numpy in-place operators, overwritten through a slice.  The family of this module:

  start vector (2 three-dimensional, 1 planar; float64, owning its data)
  x  every sequence of <= depth in-place events of the menu MUTATORS (the in-place method of Vec - normalize for the
     three norms -, the three setters, item and slice assignment, *=, /=, +=, -=, a ufunc with out=)
  x  two replays of every sequence on a FRESH object: 'cold' (the in-place events only) and 'warm' (every entry point
     of the query menu is called once after every proper prefix, so a value an entry point remembers from an earlier
     state of the object is there to be reused)
  -> after the last event EVERY query of the menu QUERIES (every primitive of the property that takes a vector, the
     history object in each vector position, the partners fixed) is compared with a reference model - a plain list of
     Python floats on which the same events were played with Python arithmetic - and, through the guard, must leave the
     object byte- and header-identical and numpy's error state alone.  The content of the object itself is compared with
     the model after every event (documented effect of normalize; numpy semantics of the others).  A vector-valued
     answer is then scaled in place by the caller: the history object must not move (the answer is the caller's).

No sampling: every sequence up to the depth, every query after each.  Degenerate states (zero vector: normalisation
undefined; query partners parallel: cotangent / signed angle / circumcentre / line intersection undefined) are decided
on the model, counted, and only watched for side effects.
"""
from __future__ import annotations
import itertools, math

W3, P3, Q3, N3, AX3 = (2., 1., -2.), (3., 1., -1.), (0., 2., 1.), (1., 1., 1.), (1., 2., 2.)
C3 = (1., 2., 2.)
STARTS = {"s3a": (0., 0., 2.), "s3b": (1., -2., 2.), "s2": (3., -4.)}
TOL = 1e-9


# ------------------------------------------------------------------------------------------------ model
def _norm(m, w):
    if w == "l2":
        return math.sqrt(sum(x * x for x in m))
    if w == "l1":
        return sum(abs(x) for x in m)
    return max(abs(x) for x in m)


def _cross(a, b):
    return [a[1] * b[2] - a[2] * b[1], a[2] * b[0] - a[0] * b[2], a[0] * b[1] - a[1] * b[0]]


def _dot(a, b):
    return sum(x * y for x, y in zip(a, b))


def _sub(a, b):
    return [x - y for x, y in zip(a, b)]


def _angle(u, v):
    if len(u) == 3:
        return math.atan2(_norm(_cross(u, v), "l2"), _dot(u, v))
    return math.atan2(abs(u[0] * v[1] - u[1] * v[0]), _dot(u, v))


def _rodrigues(p, axis, ang):
    n = _norm(axis, "l2")
    k = [x / n for x in axis]
    co, si = math.cos(ang), math.sin(ang)
    kv, kd = _cross(k, p), _dot(k, p)
    return [p[i] * co + kv[i] * si + k[i] * kd * (1 - co) for i in range(3)]


def mutators(d):
    """(label, kind, real(v, np), model(m) -> new list | None when the event is undefined in this state)"""
    w = list(W3[:d])
    c = list(C3[:d])
    M = []

    def nz(which):
        def real(v, np):
            v.normalize(which)

        def model(m):
            n = _norm(m, which)
            return None if n == 0 else [x / n for x in m]
        return real, model
    for which in ("l2", "l1", "linf"):
        r, mo = nz(which)
        M.append((f"normalize({which})", "normalize", r, mo))

    def setter(name, idx, val):
        def real(v, np):
            setattr(v, name, val)
        return real, (lambda m: m[:idx] + [val] + m[idx + 1:])
    for name, idx, val in (("x", 0, 3.0), ("y", 1, -0.5), ("z", 2, 3.0)):
        if idx < d:
            r, mo = setter(name, idx, val)
            M.append((f"{name}={val}", "setter", r, mo))

    def setitem(v, np):
        v[0] = -5.0
    M.append(("[0]=-5", "setitem", setitem, lambda m: [-5.0] + m[1:]))

    def setslice(v, np):
        v[:] = c
    M.append(("[:]=c", "setitem", setslice, lambda m: list(c)))

    def imul(v, np):
        v *= 3.0
    M.append(("*=3", "inplace_operator", imul, lambda m: [x * 3.0 for x in m]))

    def idiv(v, np):
        v /= 4.0
    M.append(("/=4", "inplace_operator", idiv, lambda m: [x / 4.0 for x in m]))

    def iadd(v, np):
        v += np.array(w)
    M.append(("+=w", "inplace_operator", iadd, lambda m: [x + y for x, y in zip(m, w)]))

    def isub(v, np):
        v -= np.array(w)
    M.append(("-=w", "inplace_operator", isub, lambda m: [x - y for x, y in zip(m, w)]))

    def neg(v, np):
        np.negative(v, out=v)
    M.append(("negative(out=v)", "inplace_operator", neg, lambda m: [-x for x in m]))
    return M


def _parallel(u, v):
    if len(u) == 3:
        s = _norm(_cross(u, v), "l2")
    else:
        s = abs(u[0] * v[1] - u[1] * v[0])
    return s <= 1e-6 * _norm(u, "l2") * _norm(v, "l2")


def queries(c, d):
    """(label, callee, clause, fn(v) -> call through the guard, oracle(m) -> expected | SKIP, fresh_vector_result)
    The history object v takes each vector position of each primitive in turn; the partners are fixed plain arrays
    (Vecs where the entry point needs the .x/.y accessors)."""
    np, G, Vec, AABB, g = c.np, c.G, c.Vec, c.AABB, c.g
    Q = []
    SKIP = "skip"

    def q(label, callee, clause, fn, args, oracle, fresh=False):
        Q.append(dict(label=label, callee=callee, clause=clause, fn=fn, args=args, oracle=oracle, fresh=fresh))
    V = "<v>"
    a = lambda t: np.array(t)
    for w in ("l2", "l1", "linf"):
        q(f"Vec.norm(v,{w})", "Vec.norm", "prim.norm", Vec.norm, [V, w], lambda m, w=w: _norm(m, w))
        q(f"norm(v,{w})", "norm", "prim.norm", G.norm, [V, w], lambda m, w=w: _norm(m, w))
        q(f"Vec.normalized(v,{w})", "Vec.normalized", "prim.normalized", Vec.normalized, [V, w],
          lambda m, w=w: SKIP if _norm(m, w) == 0 else [x / _norm(m, w) for x in m], fresh=True)
    q("Vec.norm(v)", "Vec.norm", "prim.norm", Vec.norm, [V], lambda m: _norm(m, "l2"))
    box = AABB(a([-1.] * d), a([1.] * d))
    clamp = lambda m: [min(1.0, max(-1.0, x)) for x in m]
    q("AABB.project(box,v)", "AABB.project", "box.project", AABB.project, [box, V], clamp)
    q("AABB.distance(box,v,l2)", "AABB.distance", "box.distance", AABB.distance, [box, V, "l2"],
      lambda m: _norm(_sub(m, clamp(m)), "l2"))
    q("AABB.contains_point(box,v)", "AABB.contains_point", "box.contains", AABB.contains_point, [box, V],
      lambda m: SKIP if any(abs(abs(x) - 1.0) <= 1e-9 for x in m) else all(-1.0 <= x < 1.0 for x in m))
    q("Vec.x(v)", "Vec.x", "prim.accessor", Vec.x.fget, [V], lambda m: m[0])
    q("Vec.y(v)", "Vec.y", "prim.accessor", Vec.y.fget, [V], lambda m: m[1])
    q("Vec.xy(v)", "Vec.xy", "prim.accessor", Vec.xy.fget, [V], lambda m: m[:2])
    if d == 3:
        P, QQ, N, AX, O = list(P3), list(Q3), list(N3), list(AX3), [0., 0., 0.]
        q("Vec.z(v)", "Vec.z", "prim.accessor", Vec.z.fget, [V], lambda m: m[2])
        q("Vec.dot(v,P)", "Vec.dot", "prim.dot", Vec.dot, [V, a(P)], lambda m: _dot(m, P))
        q("dot(v,P)", "dot", "prim.dot", G.dot, [V, a(P)], lambda m: _dot(m, P))
        q("dot(P,v)", "dot", "prim.dot", G.dot, [a(P), V], lambda m: _dot(m, P))
        q("cross(v,P)", "cross", "prim.cross", G.cross, [V, a(P)], lambda m: _cross(m, P), fresh=True)
        q("cross(P,v)", "cross", "prim.cross", G.cross, [a(P), V], lambda m: _cross(P, m), fresh=True)
        q("distance(v,P,l2)", "distance", "prim.distance", G.distance, [V, a(P), "l2"], lambda m: _norm(_sub(P, m), "l2"))
        q("distance(P,v,l1)", "distance", "prim.distance", G.distance, [a(P), V, "l1"], lambda m: _norm(_sub(P, m), "l1"))
        q("distance(v,v,linf)", "distance", "prim.distance", G.distance, [V, V, "linf"], lambda m: 0.0)
        q("det_3x3(v,P,Q)", "det_3x3", "prim.det_3x3", G.det_3x3, [V, a(P), a(QQ)], lambda m: _dot(m, _cross(P, QQ)))
        q("det_3x3(P,Q,v)", "det_3x3", "prim.det_3x3", G.det_3x3, [a(P), a(QQ), V], lambda m: _dot(m, _cross(P, QQ)))
        q("angle_2vec3D(v,P)", "angle_2vec3D", "prim.angle", G.angle_2vec3D, [V, a(P)],
          lambda m: SKIP if _norm(m, "l2") == 0 else _angle(m, P))
        q("angle_3pts(v,O,P)", "angle_3pts", "prim.angle", G.angle_3pts, [V, a(O), a(P)],
          lambda m: SKIP if _norm(m, "l2") == 0 else _angle(m, P))
        q("angle_3pts(P,v,Q)", "angle_3pts", "prim.angle", G.angle_3pts, [a(P), V, a(QQ)],
          lambda m: SKIP if 0 in (_norm(_sub(P, m), "l2"), _norm(_sub(QQ, m), "l2")) else _angle(_sub(P, m), _sub(QQ, m)))
        q("cotan(v,O,P)", "cotan", "prim.cotan", G.cotan, [V, a(O), a(P)],
          lambda m: SKIP if _parallel(m, P) else _dot(m, P) / _norm(_cross(m, P), "l2"))
        q("cotan(P,v,Q)", "cotan", "prim.cotan", G.cotan, [a(P), V, a(QQ)],
          lambda m: SKIP if _parallel(_sub(P, m), _sub(QQ, m)) else
          _dot(_sub(P, m), _sub(QQ, m)) / _norm(_cross(_sub(P, m), _sub(QQ, m)), "l2"))

        def signed(m):
            S = _cross(m, P)
            t = _dot(S, N)
            if _parallel(m, P) or abs(t) <= 1e-6 * _norm(S, "l2") * _norm(N, "l2"):
                return SKIP
            return math.copysign(_angle(m, P), t)
        q("signed_angle_2vec3D(v,P,N)", "signed_angle_2vec3D", "prim.signed_angle", G.signed_angle_2vec3D, [V, a(P), a(N)], signed)
        q("rotate_around_axis(P,v,pi/2)", "rotate_around_axis", "prim.rotate_around_axis", G.rotate_around_axis,
          [a(P), V, math.pi / 2], lambda m: SKIP if _norm(m, "l2") < 1e-6 else _rodrigues(P, m, math.pi / 2), fresh=True)
        q("rotate_around_axis(v,AX,pi/3)", "rotate_around_axis", "prim.rotate_around_axis", G.rotate_around_axis,
          [V, a(AX), math.pi / 3], lambda m: _rodrigues(m, AX, math.pi / 3), fresh=True)
        q("project_to_plane(P,v,O)", "project_to_plane", "prim.project_to_plane", G.project_to_plane, [a(P), V, a(O)],
          lambda m: SKIP if _norm(m, "l2") < 1e-6 else [x - _dot(P, m) / _dot(m, m) * y for x, y in zip(P, m)], fresh=True)
        q("project_to_plane(v,N,Q)", "project_to_plane", "prim.project_to_plane", G.project_to_plane, [V, a(N), a(QQ)],
          lambda m: [x - _dot(_sub(m, QQ), N) / _dot(N, N) * y for x, y in zip(m, N)], fresh=True)

        def circ(m):
            if _parallel(_sub(P, m), _sub(QQ, m)) or _norm(_sub(P, m), "l2") == 0 or _norm(_sub(QQ, m), "l2") == 0:
                return SKIP
            return ("equidistant", [m, P, QQ])
        q("circumcenter(v,P,Q)", "circumcenter", "prim.circumcenter", G.circumcenter, [V, a(P), a(QQ)], circ, fresh=True)
        q("AABB(v,P).mini", "AABB.__init__", "box.construct", AABB, [V, a(P)], lambda m: ("box", m, P))
    else:
        P, QQ, O = list(P3[:2]), list(Q3[:2]), [0., 0.]
        q("Vec.dot(v,P)", "Vec.dot", "prim.dot", Vec.dot, [V, a(P)], lambda m: _dot(m, P))
        q("dot(P,v)", "dot", "prim.dot", G.dot, [a(P), V], lambda m: _dot(m, P))
        q("distance(v,P,l2)", "distance", "prim.distance", G.distance, [V, a(P), "l2"], lambda m: _norm(_sub(P, m), "l2"))
        q("distance(P,v,linf)", "distance", "prim.distance", G.distance, [a(P), V, "linf"], lambda m: _norm(_sub(P, m), "linf"))
        q("det_2x2(v,P)", "det_2x2", "prim.det_2x2", G.det_2x2, [V, a(P)], lambda m: m[0] * P[1] - m[1] * P[0])
        q("det_2x2(P,v)", "det_2x2", "prim.det_2x2", G.det_2x2, [a(P), V], lambda m: P[0] * m[1] - P[1] * m[0])
        q("rotate_2d(v,pi/3)", "rotate_2d", "prim.rotate_2d", G.rotate_2d, [V, math.pi / 3],
          lambda m: [m[0] * math.cos(math.pi / 3) - m[1] * math.sin(math.pi / 3),
                     m[0] * math.sin(math.pi / 3) + m[1] * math.cos(math.pi / 3)], fresh=True)
        q("angle_2vec2D(v,P)", "angle_2vec2D", "prim.angle", G.angle_2vec2D, [V, a(P)],
          lambda m: ("mod2pi", math.atan2(P[1], P[0]) - math.atan2(m[1], m[0])))

        def seg(p, s0, s1):
            s = _sub(s1, s0)
            ss = _dot(s, s)
            if ss == 0:
                return _norm(_sub(p, s0), "l2")
            t = min(1.0, max(0.0, _dot(_sub(p, s0), s) / ss))
            return _norm(_sub(p, [x + t * y for x, y in zip(s0, s)]), "l2")
        q("distance_to_segment2D(v,P,Q)", "distance_to_segment2D", "prim.distance_to_segment2D", G.distance_to_segment2D,
          [V, a(P), a(QQ)], lambda m: seg(m, P, QQ))
        q("distance_to_segment2D(P,v,Q)", "distance_to_segment2D", "prim.distance_to_segment2D", G.distance_to_segment2D,
          [a(P), V, a(QQ)], lambda m: seg(P, m, QQ))

        def inter(p1, d1, p2, d2):
            dd = d1[0] * d2[1] - d1[1] * d2[0]
            if _norm(d1, "l2") == 0 or _norm(d2, "l2") == 0 or abs(dd) <= 1e-6 * _norm(d1, "l2") * _norm(d2, "l2"):
                return SKIP
            ww = _sub(p2, p1)
            t = (ww[0] * d2[1] - ww[1] * d2[0]) / dd
            return [x + t * y for x, y in zip(p1, d1)]
        q("intersect_2lines2D(O,v,P,Q)", "intersect_2lines2D", "prim.intersect_2lines2D", G.intersect_2lines2D,
          [Vec(a(O)), V, Vec(a(P)), Vec(a(QQ))], lambda m: inter(O, m, P, QQ), fresh=True)
        q("intersect_2lines2D(P,Q,v,v)!", "intersect_2lines2D", "prim.intersect_2lines2D", G.intersect_2lines2D,
          [Vec(a(P)), Vec(a(QQ)), V, V], lambda m: SKIP if _norm(m, "l2") == 0 else inter(P, QQ, m, m), fresh=True)
        q("AABB(v,P).mini", "AABB.__init__", "box.construct", AABB, [V, a(P)], lambda m: ("box", m, P))
    return Q


def _flat(r, np):
    if isinstance(r, np.ndarray):
        return [float(x) for x in r.ravel().tolist()]
    if isinstance(r, (list, tuple)):
        return [float(x) for x in r]
    return [float(r)]


def _near(got, want):
    if len(got) != len(want):
        return False
    for x, y in zip(got, want):
        if x == y:
            continue
        if x != x or y != y or abs(x - y) > TOL * max(1.0, abs(x), abs(y)):
            return False
    return True


def judge(qd, r, m, c):
    """None if the answer r agrees with the oracle of query qd on the model m, else (kind, want)"""
    np = c.np
    want = qd["oracle"](m)
    if isinstance(want, str):
        return "skip", None
    if isinstance(want, bool):
        return (None, None) if bool(r) == want else ("mismatch:value_after_in_place_history", want)
    if isinstance(want, tuple) and want[0] == "box":
        ok = isinstance(r, c.AABB) and _near(_flat(r.mini, np), want[1]) and _near(_flat(r.maxi, np), want[2])
        return (None, None) if ok else ("mismatch:value_after_in_place_history", [want[1], want[2]])
    if isinstance(want, tuple) and want[0] == "equidistant":
        cl = _flat(r, np)
        rr = [_norm(_sub(cl, p), "l2") for p in want[1]]
        ok = len(cl) == 3 and abs(rr[0] - rr[1]) <= 1e-7 * max(1.0, rr[0]) and abs(rr[0] - rr[2]) <= 1e-7 * max(1.0, rr[0])
        return (None, None) if ok else ("mismatch:value_after_in_place_history", {"distances": rr})
    if isinstance(want, tuple) and want[0] == "mod2pi":
        dlt = (float(r) - want[1]) / (2 * math.pi)
        return (None, None) if abs(dlt - round(dlt)) <= 1e-9 else ("mismatch:value_after_in_place_history", want[1])
    if r is None:
        return "mismatch:value_after_in_place_history", want
    try:
        got = _flat(r, np)
    except Exception:   # noqa
        return "mismatch:value_after_in_place_history", want
    want = list(want) if isinstance(want, list) else [float(want)]
    return (None, None) if _near(got, want) else ("mismatch:value_after_in_place_history", want)


def run_vec_hist(task, c):
    np, rep, g, Vec = c.np, c.rep, c.g, c.Vec
    start = list(STARTS[task["start"]])
    d = len(start)
    depth = task["depth"]
    MUT = mutators(d)
    QS = queries(c, d)
    # one query per entry point for the warm replays
    light, seen = [], set()
    for qd in QS:
        if qd["callee"] not in seen:
            seen.add(qd["callee"])
            light.append(qd)
    icls = f"in_place_history:{d}d"
    reported = set()

    def ask(qd, v):
        args = [v if (isinstance(x, str) and x == "<v>") else x for x in qd["args"]]
        return g.call(qd["callee"], qd["fn"], *args)

    def bad(sub, callee, kind, detail):
        key = (sub, callee, kind)
        rep.count("occurrences:" + " | ".join(key))
        if key in reported:
            return
        reported.add(key)
        c.bad(sub, callee, kind, icls, detail)

    firsts = [i for i in range(len(MUT)) if i % task["of"] == task["chunk"]]
    node = 0
    for L in range(1, depth + 1):
        for seq in itertools.product(range(len(MUT)), repeat=L):
            if seq[0] not in firsts:
                continue
            # the model first: a sequence with an undefined event (normalising the zero vector) is not a member
            m = list(start)
            for i in seq:
                m = MUT[i][3](m)
                if m is None:
                    break
            if m is None:
                rep.count("filtered:hist_normalize_zero_vector")
                rep.count("hist_filtered:" + task["start"])
                continue
            node += 1
            labels = [MUT[i][0] for i in seq]
            rep.case(("vec_hist", task["start"], tuple(seq)))
            for i in seq:
                rep.flag("hist_mutator_kind:" + MUT[i][1])
            # cold and warm replays for the sequences of length <= 2, alternately for the longer ones
            modes = ("cold", "warm") if L <= 2 else (("cold",) if node % 2 else ("warm",))
            for mode in modes:
                rep.traces += 1
                rep.flag("hist_mode:" + mode)
                v = Vec(np.array(start))
                mm = list(start)
                state_ok = True
                for n_done, i in enumerate(seq):
                    if mode == "warm":
                        for qd in light:
                            ask(qd, v)
                            rep.count("hist_warm_queries")
                    lab, kind, real, model = MUT[i]
                    try:
                        real(v, np)
                        exc = None
                    except Exception as e:  # noqa
                        exc = type(e).__name__
                    mm = model(mm)
                    c.ev("C12.hist.vec.in_place_effect")
                    got = [float(x) for x in v.tolist()]
                    if exc is not None or not _near(got, mm):
                        state_ok = False
                        bad("C12.hist.vec.in_place_effect", CALLEE_OF[kind],
                            "raises:" + exc if exc else "mismatch:content_after_in_place_event",
                            {"start": start, "history": labels[:n_done + 1], "mode": mode, "got": got, "want": mm})
                        break
                if not state_ok:
                    continue
                for qd in QS:
                    img = v.tobytes()
                    ok, r, exc = ask(qd, v)
                    rep.count("hist_queries")
                    rep.flag("hist_query:" + qd["callee"])
                    det = {"start": start, "history": labels, "mode": mode, "query": qd["label"], "object_now": mm}
                    sub = "C12.hist." + qd["clause"]
                    kind, want = (None, None)
                    try:
                        want0 = qd["oracle"](mm)
                    except Exception:   # noqa
                        want0 = "skip"
                    if isinstance(want0, str):
                        rep.count("degenerate_calls:hist_" + qd["callee"])
                    else:
                        c.ev(sub)
                        if not ok:
                            kind, want = "raises:" + exc, None
                        else:
                            kind, want = judge(qd, r, mm, c)
                        if kind and kind != "skip":
                            bad(sub, qd["callee"], kind, dict(det, got=repr(r)[:200], want=repr(want)[:200]))
                    rep.outcome("hist:" + qd["callee"], "ok" if ok else exc)
                    # the answer belongs to the caller: scaling it in place must not move the history object
                    if ok and qd["fresh"] and isinstance(r, np.ndarray) and r.flags.writeable and r.dtype.kind == "f":
                        r *= 2.0
                        r += 1.0
                        c.ev("C12.hist.effects.returned_value_owned_by_caller")
                        if v.tobytes() != img:
                            bad("C12.hist.effects.returned_value_owned_by_caller", qd["callee"], "side_effect:argument_follows_returned_value",
                                dict(det, after=[float(x) for x in v.tolist()]))
                            v[:] = np.frombuffer(img, dtype=v.dtype)
    rep.count("hist_nodes", node)
    rep.count("hist_nodes:" + task["start"], node)


RUNNERS = {"vec_hist": run_vec_hist}
EXPECTED_EVALS = ["C12.hist.vec.in_place_effect", "C12.hist.prim.norm", "C12.hist.prim.normalized", "C12.hist.prim.dot",
                  "C12.hist.prim.cross", "C12.hist.prim.distance", "C12.hist.prim.det_3x3", "C12.hist.prim.det_2x2",
                  "C12.hist.prim.angle", "C12.hist.prim.cotan", "C12.hist.prim.signed_angle", "C12.hist.prim.rotate_around_axis",
                  "C12.hist.prim.rotate_2d", "C12.hist.prim.project_to_plane", "C12.hist.prim.circumcenter",
                  "C12.hist.prim.distance_to_segment2D", "C12.hist.prim.intersect_2lines2D", "C12.hist.prim.accessor",
                  "C12.hist.box.project", "C12.hist.box.distance", "C12.hist.box.contains", "C12.hist.box.construct",
                  "C12.hist.effects.returned_value_owned_by_caller"]
N_MUT = {3: 13, 2: 12}
CALLEE_OF = {"normalize": "Vec.normalize", "setter": "Vec.x/y/z.setter", "setitem": "Vec.__setitem__", "inplace_operator": "Vec.__iop__"}


def tasks(tier):
    depth = 4 if tier == "thorough" else 3
    T = []
    for s in sorted(STARTS):
        n = N_MUT[len(STARTS[s])]
        for i in range(n):
            T.append(dict(kind="vec_hist", start=s, depth=depth, chunk=i, of=n))
    return T


def expected_nodes(start, depth):
    n = N_MUT[len(STARTS[start])]
    return sum(n ** L for L in range(1, depth + 1))


def finish(tier, rep):
    fails = []
    depth = 4 if tier == "thorough" else 3
    for s in sorted(STARTS):
        got = rep.counters.get("hist_nodes:" + s, 0)
        filt = rep.counters.get("hist_filtered:" + s, 0)
        if got + filt != expected_nodes(s, depth) or got < 0.9 * expected_nodes(s, depth):
            fails.append(f"Vec histories from {s}: {got} sequences run (+{filt} filtered), expected {expected_nodes(s, depth)}")
    for k in ("normalize", "setter", "setitem", "inplace_operator"):
        if "hist_mutator_kind:" + k not in rep.flags:
            fails.append("Vec histories: no in-place event of kind " + k)
    for mde in ("cold", "warm"):
        if "hist_mode:" + mde not in rep.flags:
            fails.append("Vec histories: no " + mde + " replay")
    if rep.counters.get("hist_warm_queries", 0) <= 0 or rep.counters.get("hist_queries", 0) <= 0:
        fails.append("Vec histories: no query executed")
    for cal in ("Vec.norm", "norm", "Vec.normalized", "rotate_around_axis", "rotate_2d", "cotan", "AABB.project", "AABB.__init__"):
        if "hist_query:" + cal not in rep.flags:
            fails.append("Vec histories: query never executed: " + cal)
    return fails
