"""setup_cmd: byte-compile nothing (we run with -B), run the framework self-tests, check the tree imports."""
import os, sys, subprocess
VERIF = os.path.dirname(os.path.dirname(os.path.abspath(__file__)))

def main():
    repo = os.environ.get("VERIF_REPO", "/repo")
    sys.path.insert(0, repo); sys.path.insert(0, VERIF)
    import mouette
    print("mouette from", mouette.__file__)
    import glob, importlib
    ok = True
    for f in sorted(glob.glob(os.path.join(VERIF, "selftest", "test_*.py"))):
        r = subprocess.run([sys.executable, "-B", f], cwd=VERIF, capture_output=True, text=True)
        print(("ok   " if r.returncode == 0 else "FAIL ") + os.path.basename(f), r.stdout.strip().splitlines()[-1:] )
        if r.returncode != 0:
            print(r.stdout[-2000:], r.stderr[-2000:]); ok = False
    for d in ("evidence", "replay"):
        os.makedirs(os.path.join(VERIF, d), exist_ok=True)
    sys.exit(0 if ok else 1)

if __name__ == "__main__":
    main()
