"""Helpers of the C19 driver: the randomness seam (S3) and the exact oracles.

Nothing here imports mouette.  The seam replaces, from the harness, the module-level names through
which `mouette/sampling.py` reaches a random generator:

    sampling.np      -> NpProxy(numpy, seam)      (delegates everything but `.random`)
    sampling.random  -> seam.random               (was numpy.random.random)
    sampling.choice  -> seam.choice               (was numpy.random.choice)

Every draw is answered from a script chosen by the driver (flat streams per kind of draw, consumed in
call order).  Any other attribute of the fake `numpy.random` raises SeamError: an unintercepted way of
drawing is a harness error, never a silent pass.  `rng_snapshot()` is compared before/after every
execution to prove that neither numpy's global generator nor Python's `random` was consulted.
"""
from __future__ import annotations
import math
import random as _pyrandom
from fractions import Fraction as Fr
from functools import lru_cache

import numpy as _np

EPS53 = 2.0 ** -53
U6 = [0.0, EPS53, 0.25, 0.5, 0.75, 1.0 - EPS53]      # the uniform-draw alphabet of DESIGN C19


class SeamError(Exception):
    """The code under test asked the fake numpy.random for something the seam does not script."""


def _shape(size):
    if size is None:
        return ()
    if isinstance(size, (int, _np.integer)):
        return (int(size),)
    return tuple(int(s) for s in size)


class Seam:
    """Scripted stand-in for `numpy.random` (module) and for the names imported from it."""

    def __init__(self):
        self._private = _np.random.RandomState(12345)
        self.reset()

    def reset(self, normals=(), uniforms=(), choices=()):
        self._streams = {"n": list(normals), "u": list(uniforms), "c": list(choices)}
        self._pos = {"n": 0, "u": 0, "c": 0}
        self.log = []            # [name, shape] of every draw call, in order
        self.choice_calls = []   # dict(a, size, p, returned)
        self.wrapped = False     # a stream ran out (the code drew more than the driver expected)

    # ---- bookkeeping
    def _take(self, k, count):
        s = self._streams[k]
        if not s:
            self.wrapped = True
            s = [{"n": 1.0, "u": 0.5, "c": 0}[k]]
        p = self._pos[k]
        out = []
        for _ in range(count):
            if p >= len(s):
                self.wrapped = True
            out.append(s[p % len(s)])
            p += 1
        self._pos[k] = p
        return out

    def leftover(self):
        return {k: len(self._streams[k]) - self._pos[k] for k in "nuc" if self._pos[k] < len(self._streams[k])}

    def n_draw_calls(self):
        return len(self.log)

    def _unit(self, name, kind, size):
        shp = _shape(size)
        self.log.append([name, list(shp)])
        cnt = 1
        for s in shp:
            cnt *= s
        return _np.array(self._take(kind, cnt), dtype=float).reshape(shp)

    # ---- the scripted draws (signatures of numpy.random.*)
    def normal(self, loc=0.0, scale=1.0, size=None):
        out = loc + scale * self._unit("normal", "n", size)
        return float(out) if size is None else out

    def standard_normal(self, size=None):
        out = self._unit("standard_normal", "n", size)
        return float(out) if size is None else out

    def randn(self, *dims):
        out = self._unit("randn", "n", dims if dims else None)
        return float(out) if not dims else out

    def uniform(self, low=0.0, high=1.0, size=None):
        out = low + (high - low) * self._unit("uniform", "u", size)
        return float(out) if size is None else out

    def random(self, size=None):
        out = self._unit("random", "u", size)
        return float(out) if size is None else out

    def random_sample(self, size=None):
        return self.random(size)

    def rand(self, *dims):
        return self.random(dims if dims else None)

    def choice(self, a, size=None, replace=True, p=None):
        pop = int(a) if isinstance(a, (int, _np.integer)) else len(a)
        shp = _shape(size)
        self.log.append(["choice", list(shp)])
        # numpy's own argument validation decides whether (a, size, p) is acceptable: the real routine is run
        # on a PRIVATE generator (never the global one), its result is discarded, its exceptions propagate
        self._private.choice(a, size=size, replace=replace, p=p)
        plist = None if p is None else [float(x) for x in _np.asarray(p, dtype=float).ravel()]
        cnt = 1
        for s in shp:
            cnt *= s
        raw = self._take("c", cnt)
        idx = []
        for x in raw:
            if not 0 <= x < pop:
                self.wrapped = True
                x = x % pop
            idx.append(int(x))
        self.choice_calls.append({"a": pop, "size": list(shp), "p": plist, "returned": idx})
        arr = _np.array(idx, dtype=_np.int64).reshape(shp)
        if not isinstance(a, (int, _np.integer)):
            arr = _np.asarray(a)[arr]
        return int(arr) if size is None else arr

    def __getattr__(self, name):            # only reached for names not defined above
        if name.startswith("__"):
            raise AttributeError(name)
        raise SeamError(f"unintercepted draw: numpy.random.{name} requested by the code under test")


class NpProxy:
    """Delegates to the real numpy except for `.random`, which is the seam."""

    def __init__(self, real, seam):
        object.__setattr__(self, "_real", real)
        object.__setattr__(self, "random", seam)

    def __getattr__(self, name):
        return getattr(object.__getattribute__(self, "_real"), name)


def rng_snapshot():
    s = _np.random.get_state()
    return (s[0], s[1].tobytes(), s[2], s[3], s[4]), _pyrandom.getstate()


class Installed:
    """Context manager: rebind `np` of the sampling module to the proxy and every module-level name that
    is a bound method of numpy's global RandomState (`random`, `choice`, ...) to the seam's method of the
    same name.  A name the seam cannot script raises SeamError (harness error)."""

    def __init__(self, module, seam):
        self.module, self.seam = module, seam

    def __enter__(self):
        m = self.module
        self.saved = {}
        for n, v in list(vars(m).items()):
            if n.startswith("__"):
                continue
            slf = getattr(v, "__self__", None)
            if slf is not None and type(slf).__module__.startswith("numpy.random"):
                self.saved[n] = v
                setattr(m, n, getattr(self.seam, v.__name__))
            elif v is _np:
                self.saved[n] = v
                setattr(m, n, NpProxy(_np, self.seam))
            elif getattr(v, "__name__", "") == "numpy.random" or type(v).__module__.startswith("numpy.random"):
                self.saved[n] = v
                setattr(m, n, self.seam)
        return self.seam

    def __exit__(self, *a):
        for n, v in self.saved.items():
            setattr(self.module, n, v)
        return False


# ------------------------------------------------------------------------------------------------
# enumeration helpers

def windows(combos, n, sliding):
    """Rows handed to one execution that samples n points: n consecutive combinations (cyclically).
    sliding=True : every offset -> every (row position, combination) pair occurs;
    sliding=False: offsets 0, n, 2n, ... -> every combination occurs in exactly one execution.
    For n == 1 both are the full list of combinations, one per execution."""
    m = len(combos)
    step = 1 if sliding else n
    for o in range(0, m, step):
        yield o, [combos[(o + k) % m] for k in range(n)]


def lattice_vectors(r):
    rng = range(-r, r + 1)
    return [(a, b, c) for a in rng for b in rng for c in rng if (a, b, c) != (0, 0, 0)]


# ------------------------------------------------------------------------------------------------
# exact oracles (integers / Fractions; one rounding at the very end)

def grid_counts_allowed(n, d):
    """Perfect d-th powers acceptable as 'the nearest perfect power' of n: nearest in value or nearest in
    root (ties: both).  For a perfect power, only n itself."""
    k = 0
    while (k + 1) ** d <= n:
        k += 1
    lo, hi = k ** d, (k + 1) ** d
    if lo == n:
        return {n}
    allowed = set()
    if n - lo <= hi - n:
        allowed.add(lo)
    if hi - n <= n - lo:
        allowed.add(hi)
    if (2 ** d) * n <= (2 * k + 1) ** d:
        allowed.add(lo)
    if (2 ** d) * n >= (2 * k + 1) ** d:
        allowed.add(hi)
    allowed.discard(0)
    return allowed


def _scaled(p):
    """floats -> (integers, K) with p[i] == ints[i] / K exactly (K a power of two)."""
    rs = [float(x).as_integer_ratio() for x in p]
    K = max(d for _, d in rs)
    return [n * (K // d) for n, d in rs], K


def _dot(a, b):
    return sum(x * y for x, y in zip(a, b))


def _cross(a, b):
    return (a[1] * b[2] - a[2] * b[1], a[2] * b[0] - a[0] * b[2], a[0] * b[1] - a[1] * b[0])


def segment_coords(p, a, b):
    """(distance of p to the line ab, parameter s of its projection: a + s (b-a)).  a, b integer points,
    p floats (taken exactly).  Computed in integers, rounded once."""
    P, K = _scaled(p)
    d = [y - x for x, y in zip(a, b)]
    w = [pi - K * ai for pi, ai in zip(P, a)]
    dd = _dot(d, d)
    cr = _cross(w, d)
    dist = math.sqrt(_dot(cr, cr) / (dd * K * K))
    s = _dot(w, d) / (dd * K)
    return dist, s


def triangle_coords(p, a, b, c):
    """(distance of p to the plane abc, barycentric coordinates (alpha, beta, gamma) of its projection)."""
    P, K = _scaled(p)
    e1 = [y - x for x, y in zip(a, b)]
    e2 = [y - x for x, y in zip(a, c)]
    n = _cross(e1, e2)
    nn = _dot(n, n)
    w = [pi - K * ai for pi, ai in zip(P, a)]
    dist = abs(_dot(w, n)) / (K * math.sqrt(nn))
    beta = Fr(_dot(_cross(w, e2), n), K * nn)
    gamma = Fr(_dot(_cross(e1, w), n), K * nn)
    alpha = 1 - beta - gamma
    return dist, (float(alpha), float(beta), float(gamma))


def _isqrt_f(n):
    """square root of a (possibly huge) non-negative integer / Fraction as a float, one rounding"""
    if isinstance(n, Fr):
        return math.sqrt(n.numerator) / math.sqrt(n.denominator)
    return math.sqrt(n)


def segment_margins(p, a, b):
    """(distance of p to the line ab, signed distance of its projection from a along ab, length of ab): the
    LENGTH form of segment_coords - the tolerance of a containment test stated as a distance does not depend on how
    long the edge is (edges of very different lengths in one polyline)."""
    dist, s = segment_coords(p, a, b)
    ln = _isqrt_f(_dot([y - x for x, y in zip(a, b)], [y - x for x, y in zip(a, b)]))
    return dist, s * ln, ln


def triangle_margins(p, a, b, c):
    """(distance of p to the plane abc, signed in-plane distances of its projection to the three edge lines bc, ca, ab -
    positive on the inner side): margin_k = barycentric coordinate k x altitude k.  The LENGTH form of
    triangle_coords: for a needle triangle (altitude << longest edge) a rounding of the size of one ulp of the largest
    coordinate moves a barycentric coordinate by ulp / altitude, but moves the point by one ulp only."""
    dist, bary = triangle_coords(p, a, b, c)
    e1 = [y - x for x, y in zip(a, b)]
    e2 = [y - x for x, y in zip(a, c)]
    e0 = [y - x for x, y in zip(b, c)]
    n = _cross(e1, e2)
    twice_area = _isqrt_f(_dot(n, n))
    alt = [twice_area / _isqrt_f(_dot(e, e)) for e in (e0, e2, e1)]
    return dist, tuple(bk * hk for bk, hk in zip(bary, alt))


def tri_normal_int(a, b, c):
    return _cross([y - x for x, y in zip(a, b)], [y - x for x, y in zip(a, c)])


def shares(weights_sq):
    """exact shares sqrt(w_i)/sum sqrt(w_j) from integer squared weights (one sqrt each, fsum)."""
    r = [math.sqrt(w) for w in weights_sq]
    t = math.fsum(r)
    return [x / t for x in r]


@lru_cache(maxsize=None)
def bern_weights(n, t):
    """Bernstein basis B_i^n(t), i = 0..n, for a rational t (Fraction)."""
    return tuple(math.comb(n, i) * t ** i * (1 - t) ** (n - i) for i in range(n + 1))


def bernstein_curve(P, t):
    """sum_i B_i^n(t) P_i in rationals; P: list of integer/Fraction tuples, t: Fraction."""
    w = bern_weights(len(P) - 1, t)
    return tuple(sum(wi * p[k] for wi, p in zip(w, P)) for k in range(len(P[0])))


def bernstein_patch(P, a, b):
    """sum_i sum_j B_i^m(a) B_j^n(b) P[i][j]: `a` runs along the OUTER index of the net."""
    wa = bern_weights(len(P) - 1, a)
    wb = bern_weights(len(P[0]) - 1, b)
    dim = len(P[0][0])
    return tuple(sum(wa[i] * wb[j] * P[i][j][k] for i in range(len(P)) for j in range(len(P[0])))
                 for k in range(dim))


def frac(x):
    return Fr(float(x))


def selftest():
    """Oracles against brute-force definitions on tiny inputs.  Returns list of failure strings."""
    bad = []
    # nearest powers: brute force over all perfect powers
    for d in (1, 2, 3, 4):
        for n in range(1, 40):
            pw = [k ** d for k in range(1, 41)]
            best = min(abs(x - n) for x in pw)
            byvalue = {x for x in pw if abs(x - n) == best}
            root = n ** (1.0 / d)
            byroot = {k ** d for k in range(1, 41) if abs(abs(k - root) - min(abs(j - root) for j in range(1, 41))) < 1e-12}
            if grid_counts_allowed(n, d) != byvalue | byroot:
                bad.append(f"grid_counts_allowed({n},{d})")
    if grid_counts_allowed(8, 4) != {1, 16} or grid_counts_allowed(27, 3) != {27} or grid_counts_allowed(10, 2) != {9}:
        bad.append("grid_counts_allowed pinned values")
    # segment
    d, s = segment_coords((0.5, 1.0, 0.0), (0, 0, 0), (2, 0, 0))
    if abs(d - 1.0) > 1e-15 or abs(s - 0.25) > 1e-15:
        bad.append("segment_coords")
    d, s = segment_coords((1.0, 2.0, 2.0), (-1, -2, -2), (2, 4, 4))
    if d != 0.0 or abs(s - 2 / 3) > 1e-15:
        bad.append("segment_coords collinear")
    # triangle: p = a + .25 e1 + .5 e2 + 3 n/|n|
    a, b, c = (1, 0, 0), (3, 0, 0), (1, 4, 0)
    d, (al, be, ga) = triangle_coords((1.5, 2.0, 3.0), a, b, c)
    if abs(d - 3) > 1e-15 or (al, be, ga) != (0.25, 0.25, 0.5):
        bad.append("triangle_coords")
    d, (al, be, ga) = triangle_coords((4.0, 0.0, 0.0), a, b, c)
    if not (d == 0 and be == 1.5 and al == -0.5):
        bad.append("triangle_coords outside")
    # length forms: needle (0,0,0) (2^27,0,0) (2^27,1,0); the point (2^26, 0.5 + 2^-20, 0) is 2^-20 / sqrt(1+2^-54) outside the long edge
    A, B, C = (0, 0, 0), (2 ** 27, 0, 0), (2 ** 27, 1, 0)
    d, m = triangle_margins((2.0 ** 26, 0.5 + 2.0 ** -20, 0.0), A, B, C)
    if d != 0 or abs(min(m) + 2.0 ** -20) > 1e-12 or min(triangle_margins((2.0 ** 26, 0.25, 0.0), A, B, C)[1]) <= 0:
        bad.append("triangle_margins")
    d, along, ln = segment_margins((3.0, 4.0, 0.0), (0, 0, 0), (2 ** 27, 0, 0))
    if abs(d - 4.0) > 1e-12 or abs(along - 3.0) > 1e-12 or ln != 2.0 ** 27:
        bad.append("segment_margins")
    # Bernstein against the expanded quadratic / de Casteljau in rationals
    P = [(0, 0, 1), (2, -1, 0), (5, 3, 3)]
    for t in (Fr(0), Fr(1, 3), Fr(1, 2), Fr(1)):
        want = tuple((1 - t) ** 2 * p0 + 2 * t * (1 - t) * p1 + t * t * p2 for p0, p1, p2 in zip(*P))
        if bernstein_curve(P, t) != want:
            bad.append("bernstein_curve")
    N = [[(0, 0), (1, 5)], [(2, 1), (7, -3)], [(4, 4), (0, 9)]]
    for a_ in (Fr(0), Fr(1, 4), Fr(1)):
        for b_ in (Fr(0), Fr(1, 3), Fr(1)):
            rows = [bernstein_curve(r, b_) for r in N]
            if bernstein_patch(N, a_, b_) != bernstein_curve(rows, a_):
                bad.append("bernstein_patch")
    if bernstein_patch(N, Fr(1), Fr(0)) != (4, 4) or bernstein_patch(N, Fr(0), Fr(1)) != (1, 5):
        bad.append("bernstein_patch corners")
    sh = shares([4, 4, 64])
    if any(abs(x - y) > 1e-15 for x, y in zip(sh, [1 / 6, 1 / 6, 2 / 3])):
        bad.append("shares")
    return bad
