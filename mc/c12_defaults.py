"""Helpers of props/c12.py: documented DEFAULT values and CALLING FORMS of the entry points of C12.

(d1) C12.defaults.signature - the pinned table PINNED (callee -> ordered parameters and documented defaults, copied
     from the signatures / docstrings of the unchanged tree, NOT read from the library at run time) is compared with
     inspect.signature(): a default that differs from the documented one, a parameter in another position or under
     another name IS the defect (kinds mismatch:default_value / parameter_order / parameter_names, class = parameter).
(d2) C12.defaults.omitted_equals_documented - every optional argument omitted (one at a time, and all together) must
     give exactly what passing the documented default explicitly gives (same computation -> exact equality of the
     canonical results; 'raises' on both sides counts as equal whatever the class).
(d3) C12.defaults.value - the answer of the call with everything omitted against the independent oracle of the
     documented default (l2 norms, tight box, box [0,1]^d, roots of modulus one).
(d4) C12.forms.keyword_equals_positional - every argument (required and optional, default and non-default values)
     passed by keyword under its documented name must mean what it means passed positionally in the documented order.
Vacuity: every optional parameter of the table must have been exercised on an input where a non-default value gives a
different answer (so a changed default cannot hide), every callee of the table must have had its signature compared,
every callee with >= 2 parameters its keyword form evaluated, and every order-sensitive one an input on which
exchanging two positional arguments changes the answer.
"""
from __future__ import annotations
import itertools, math
from mc import exact as X

REQ = "<required>"
PI4 = math.pi / 4
GROUP_O = "<octahedral group, 24 rotations>"

# callee -> ordered (parameter, documented default).  '*name' = variable positional.  Copied by hand from the unchanged tree.
PINNED = {
    "norm": [("x", REQ), ("which", "l2")],
    "distance": [("A", REQ), ("B", REQ), ("which", "l2")],
    "dot": [("A", REQ), ("B", REQ)],
    "cross": [("A", REQ), ("B", REQ)],
    "det_2x2": [("A", REQ), ("B", REQ)],
    "det_3x3": [("*args", REQ)],
    "face_basis": [("*f", REQ)],
    "angle_3pts": [("A", REQ), ("B", REQ), ("C", REQ)],
    "angle_2vec3D": [("V1", REQ), ("V2", REQ)],
    "angle_2vec2D": [("V1", REQ), ("V2", REQ)],
    "signed_angle_2vec3D": [("V1", REQ), ("V2", REQ), ("N", REQ)],
    "signed_angle_3pts": [("A", REQ), ("B", REQ), ("C", REQ), ("N", REQ)],
    "cotan": [("A", REQ), ("B", REQ), ("C", REQ)],
    "circumcenter": [("v1", REQ), ("v2", REQ), ("v3", REQ)],
    "project_to_plane": [("P", REQ), ("N", REQ), ("orig", REQ)],
    "intersect_2lines2D": [("p1", REQ), ("d1", REQ), ("p2", REQ), ("d2", REQ)],
    "distance_to_segment2D": [("P", REQ), ("A", REQ), ("B", REQ)],
    "triangle_area": [("A", REQ), ("B", REQ), ("C", REQ)],
    "triangle_area_2D": [("A", REQ), ("B", REQ), ("C", REQ)],
    "rotate_2d": [("v", REQ), ("angle", REQ)],
    "rotate_around_axis": [("inp", REQ), ("_axis", REQ), ("angle", REQ)],
    "axis_rot_from_z": [("v", REQ)],
    "match_rotation": [("Ra", REQ), ("Rb", REQ), ("symgroup", GROUP_O), ("threshold", PI4)],
    "principal_angle": [("a", REQ)],
    "angle_diff": [("a", REQ), ("b", REQ)],
    "roots": [("c", REQ), ("pow", REQ), ("normalize", True)],
    "AABB.__init__": [("self", REQ), ("p_min", REQ), ("p_max", REQ)],
    "AABB.unit_cube": [("dim", REQ), ("centered", False)],
    "AABB.infinite": [("dim", REQ)],
    "AABB.of_points": [("points", REQ), ("padding", 0.0)],
    "AABB.of_mesh": [("mesh", REQ), ("padding", 0.0)],
    "AABB.intersection": [("b1", REQ), ("b2", REQ)],
    "AABB.union": [("b1", REQ), ("b2", REQ)],
    "AABB.do_intersect": [("b1", REQ), ("b2", REQ)],
    "AABB.pad": [("self", REQ), ("pad", REQ)],
    "AABB.contains_point": [("self", REQ), ("pt", REQ)],
    "AABB.project": [("self", REQ), ("pt", REQ)],
    "AABB.distance": [("self", REQ), ("pt", REQ), ("which", "l2")],
    "AABB.is_empty": [("self", REQ)],
    "Vec.norm": [("self", REQ), ("which", "l2")],
    "Vec.dot": [("self", REQ), ("other", REQ)],
    "Vec.normalize": [("self", REQ), ("which", "l2")],
    "Vec.normalized": [("vec", REQ), ("which", "l2")],
}
OPTIONALS = sorted((cal, p) for cal, ps in PINNED.items() for p, d in ps if d is not REQ)
# callees whose answer does not depend on the order of (some) positional arguments: no 'order matters' witness demanded
SYMMETRIC = {"dot", "Vec.dot", "distance", "angle_2vec3D", "AABB.union", "AABB.intersection", "AABB.do_intersect", "match_rotation"}
MATHS = {"principal_angle", "angle_diff", "roots"}


def lookup(c, callee):
    if callee.startswith("AABB."):
        return getattr(c.AABB, callee[5:])
    if callee.startswith("Vec."):
        return getattr(c.Vec, callee[4:])
    return getattr(c.maths if callee in MATHS else c.G, callee)


def _quatset(R):
    out = set()
    for q in R.as_quat().tolist():
        q = [round(x, 9) + 0.0 for x in q]
        s = next((x for x in q if x != 0), 1.0)
        out.add(tuple((x if s > 0 else -x) + 0.0 for x in q))
    return out


def _same_default(got, want):
    if want is GROUP_O:
        from scipy.spatial.transform import Rotation
        try:
            return isinstance(got, Rotation) and len(got) == 24 and _quatset(got) == _quatset(Rotation.create_group("O"))
        except Exception:   # noqa
            return False
    num = lambda x: isinstance(x, (int, float)) and not isinstance(x, bool)
    if not (type(got) is type(want) or (num(got) and num(want))):
        return False
    try:
        return bool(got == want)
    except Exception:   # noqa
        return False


def run_signature(task, c):
    """(d1) the table against inspect.signature()"""
    import inspect
    rep = c.rep
    for callee in sorted(PINNED):
        want = PINNED[callee]
        rep.count("defaults:signature_compared")
        c.ev("C12.defaults.signature")
        try:
            ps = list(inspect.signature(lookup(c, callee)).parameters.values())
        except Exception as e:  # noqa
            c.bad("C12.defaults.signature", callee, "raises:" + type(e).__name__, "lookup", {"callee": callee})
            continue
        got = [(("*" if p.kind is p.VAR_POSITIONAL else "**" if p.kind is p.VAR_KEYWORD else "") + p.name,
                REQ if p.default is p.empty else p.default) for p in ps]
        gn, wn = [n for n, _ in got], [n for n, _ in want]
        det = {"callee": callee, "documented": [[n, repr(d)] for n, d in want], "found": [[n, repr(d)[:80]] for n, d in got]}
        if gn != wn:
            first = next((a for a, b in itertools.zip_longest(wn, gn) if a != b), None) or "extra:" + str(gn[len(wn):][:1])
            if sorted(gn) == sorted(wn):
                c.bad("C12.defaults.signature", callee, "mismatch:parameter_order", str(first), det)
            else:
                c.bad("C12.defaults.signature", callee, "mismatch:parameter_names", str(first), det)
            continue
        for (n, gd), (_, wd) in zip(got, want):
            if (gd is REQ) != (wd is REQ) or (wd is not REQ and not _same_default(gd, wd)):
                c.bad("C12.defaults.signature", callee, "mismatch:default_value", n, dict(det, parameter=n))


# ------------------------------------------------------------------------------------------------
def obs(v, c):
    """canonical, exactly comparable image of a returned value"""
    np = c.np
    if isinstance(v, c.AABB):
        return ("box", obs(v.mini, c), obs(v.maxi, c))
    if isinstance(v, np.ndarray):
        return ("arr", v.dtype.kind, repr(v.tolist()))
    if isinstance(v, (list, tuple)):
        return ("seq",) + tuple(obs(x, c) for x in v)
    if hasattr(v, "as_quat"):
        return ("rot", repr(np.asarray(v.as_quat()).tolist()))
    if isinstance(v, (bool, np.bool_)):
        return ("bool", bool(v))
    if isinstance(v, (int, float, np.integer, np.floating)):
        return ("num", repr(float(v)))
    return ("other", repr(v))


class Spec:
    """one entry point: `bind(inp)` -> (callable, required positional arguments); the callable takes the remaining
    (documented) parameters `names` positionally or by keyword.  opts: parameter -> (documented default, alternatives)."""

    def __init__(self, callee, names, inputs, bind, opts=None, oracle=None, swap=None):
        self.callee, self.names, self.inputs, self.bind = callee, names, inputs, bind
        self.opts = opts or {}
        self.oracle = oracle            # (inp, value) -> bool   for the call with every optional omitted
        self.swap = swap                # pair of positions of required arguments whose exchange should matter


def _res(c, name, fn, args, kw):
    ok, v, exc = c.g.call(name, fn, *args, **kw)
    return (("ok", obs(v, c)) if ok else ("raise",)), (v if ok else None), exc


def run_spec(sp: Spec, c, lo=0, step=1):
    rep = c.rep
    nreq = len(sp.names) - len(sp.opts)
    req_names, opt_names = sp.names[:nreq], sp.names[nreq:]
    assert list(sp.opts) == opt_names, (sp.callee, list(sp.opts), opt_names)
    dflt = [sp.opts[p][0] for p in opt_names]
    for ii in range(lo, len(sp.inputs), step):
        inp = sp.inputs[ii]
        rep.traces += 1
        rep.case(("dflt", sp.callee, ii))
        mk = lambda: sp.bind(inp)
        det = lambda extra: dict({"callee": sp.callee, "input": repr(inp)[:300]}, **extra)
        fn, req = mk()
        ref, refv, rexc = _res(c, sp.callee, fn, list(req) + dflt, {})          # everything explicit, positional
        rep.outcome("dflt:" + sp.callee, ref[0])
        # (d4) everything by keyword
        if len(sp.names) >= 1 and not sp.names[0].startswith("*"):
            fn, req = mk()
            r, _, e = _res(c, sp.callee, fn, [], dict(zip(sp.names, list(req) + dflt)))
            c.ev("C12.forms.keyword_equals_positional")
            rep.count("forms:kw:" + sp.callee)
            if r != ref:
                c.bad("C12.forms.keyword_equals_positional", sp.callee, "mismatch:forms_disagree" if r[0] == "ok" else "raises:" + str(e),
                      "all_by_keyword", det({"positional": ref, "keyword": r}))
            # required arguments by keyword one at a time is the same binding in Python; exchange witness instead
            if sp.swap is not None:
                i, j = sp.swap
                fn, req = mk()
                req = list(req)
                req[i], req[j] = req[j], req[i]
                r, _, _ = _res(c, sp.callee, fn, req + dflt, {})
                if r != ref:
                    rep.flag("forms:order_matters:" + sp.callee)
        # (d2) one optional omitted at a time (the others explicit, by keyword), then all together
        for k, p in enumerate(opt_names):
            fn, req = mk()
            kw = {q: d for q, d in zip(opt_names, dflt) if q != p}
            r, _, e = _res(c, sp.callee, fn, list(req), kw)
            c.ev("C12.defaults.omitted_equals_documented")
            rep.count(f"defaults:exercised:{sp.callee}.{p}")
            if r != ref:
                c.bad("C12.defaults.omitted_equals_documented", sp.callee, "mismatch:default_value" if r[0] == "ok" else "raises:" + str(e),
                      "omitted:" + p, det({"documented_default": repr(sp.opts[p][0])[:80], "explicit": ref, "omitted": r}))
            # non-default values: positional == keyword; and does the parameter matter on this input?
            for alt in sp.opts[p][1]:
                vals = list(dflt)
                vals[k] = alt
                fn, req = mk()
                r1, _, e1 = _res(c, sp.callee, fn, list(req) + vals, {})
                fn, req = mk()
                r2, _, e2 = _res(c, sp.callee, fn, list(req), dict(zip(opt_names, vals)))
                c.ev("C12.forms.keyword_equals_positional")
                if r1 != r2:
                    c.bad("C12.forms.keyword_equals_positional", sp.callee, "mismatch:forms_disagree", "option:" + p,
                          det({"value": repr(alt)[:80], "positional": r1, "keyword": r2}))
                if r1 != ref and r1[0] == "ok" and ref[0] == "ok":
                    rep.flag(f"defaults:discriminating:{sp.callee}.{p}")
        if opt_names:
            fn, req = mk()
            r, v, e = _res(c, sp.callee, fn, list(req), {})
            if len(opt_names) > 1:
                c.ev("C12.defaults.omitted_equals_documented")
                if r != ref:
                    c.bad("C12.defaults.omitted_equals_documented", sp.callee, "mismatch:default_value" if r[0] == "ok" else "raises:" + str(e),
                          "all_omitted", det({"explicit": ref, "omitted": r}))
            if sp.oracle is not None and r[0] == "ok":
                good = sp.oracle(inp, v)
                if good is not None:
                    c.ev("C12.defaults.value")
                    if not good:
                        c.bad("C12.defaults.value", sp.callee, "mismatch:value_of_documented_default", "all_omitted", det({"got": r}))


# ------------------------------------------------------------------------------------------------
def _close(a, b, tol=1e-12):
    a, b = float(a), float(b)
    return a == b or abs(a - b) <= tol * max(1.0, abs(a), abs(b))


def specs(c, part):
    np, G, AABB, Vec, maths, M = c.np, c.G, c.AABB, c.Vec, c.maths, c.M
    f = lambda p: np.array(p, dtype=float)
    L1_3 = list(itertools.product((-1, 0, 1), repeat=3))
    L2_3 = list(itertools.product((-2, -1, 0, 1, 2), repeat=3))
    L2_2 = list(itertools.product((-2, -1, 0, 1, 2), repeat=2))
    WHICH = ("l2", ["l1", "linf"])
    l2 = lambda v: math.sqrt(sum(x * x for x in v))
    S = []
    if part == "norms":
        vin = [(v, dt) for v in L2_3 for dt in (float, int)]
        arr = lambda i: np.array(i[0], dtype=i[1])
        S.append(Spec("norm", ["x", "which"], vin, lambda i: (G.norm, [arr(i)]), {"which": WHICH},
                      oracle=lambda i, v: _close(v, l2(i[0]))))
        S.append(Spec("Vec.norm", ["which"], vin, lambda i: (Vec(arr(i)).norm, []), {"which": WHICH},
                      oracle=lambda i, v: _close(v, l2(i[0]))))
        unit = lambda i, v: None if not any(i[0]) else _close(l2(np.asarray(v, dtype=float).tolist()), 1.0)
        S.append(Spec("Vec.normalized", ["vec", "which"], vin, lambda i: (Vec.normalized, [arr(i)]), {"which": WHICH}, oracle=unit))

        def inplace(i):
            def go(*a, **k):
                t = Vec(np.array(i[0], dtype=float))
                t.normalize(*a, **k)
                return t
            return go, []
        S.append(Spec("Vec.normalize", ["which"], [(v, float) for v in L2_3], inplace, {"which": WHICH}, oracle=unit))
        pairs = [(a, b) for a in L1_3 for b in L1_3] + [(a, b) for a in L2_3[::7] for b in L2_3[::5]]
        S.append(Spec("distance", ["A", "B", "which"], pairs, lambda i: (G.distance, [f(i[0]), f(i[1])]), {"which": WHICH},
                      oracle=lambda i, v: _close(v, l2(X.sub(i[1], i[0])))))
    elif part == "boxes":
        for d, corners, pts in ((1, (-2, -1, 0, 1, 2), [x / 2 for x in range(-5, 6)]), (2, (-1, 0, 1), [x / 2 for x in range(-3, 4)]),
                                (3, (0, 1), (-0.5, 0.5, 1.5))):
            cs = list(itertools.product(corners, repeat=d))
            bx = [(lo, hi, p) for lo in cs for hi in cs if all(a <= b for a, b in zip(lo, hi)) for p in itertools.product(pts, repeat=d)]
            if d == 3:
                bx = bx[::3]

            def bd(i):
                return AABB(f(i[0]), f(i[1])).distance, [f(i[2])]

            def bo(i, v):
                return _close(v, l2([max(a - x, x - b, 0) for a, x, b in zip(i[0], i[2], i[1])]))
            S.append(Spec("AABB.distance", ["pt", "which"], bx, bd, {"which": WHICH}, oracle=bo))
        S.append(Spec("AABB.unit_cube", ["dim", "centered"], [1, 2, 3, 4], lambda i: (AABB.unit_cube, [i]), {"centered": (False, [True])},
                      oracle=lambda i, b: b.mini.tolist() == [0.0] * i and b.maxi.tolist() == [1.0] * i))
        clouds = []
        for d, al in ((1, (-2, -1, 0, 1, 2)), (2, (-1, 0, 1)), (3, (-1, 1))):
            lat = list(itertools.product(al, repeat=d))
            clouds += [(p,) for p in lat] + [(p, q) for p in lat for q in lat]
        clouds.append(((0, 0, 0), (2, -1, 1), (1, 1, 3)))
        forms = [(pts, fm) for pts in clouds for fm in ("float", "list", "int")]

        def mkpts(i):
            pts, fm = i
            return [list(map(float, p)) for p in pts] if fm == "list" else np.array(pts, dtype=float if fm == "float" else int)

        def tight(i, b):
            pts = i[0]
            k = range(len(pts[0]))
            return b.mini.tolist() == [min(p[j] for p in pts) for j in k] and b.maxi.tolist() == [max(p[j] for p in pts) for j in k]
        S.append(Spec("AABB.of_points", ["points", "padding"], forms, lambda i: (AABB.of_points, [mkpts(i)]),
                      {"padding": (0.0, [0.5, 1.0])}, oracle=tight))
        c3 = [(pts, "mesh") for pts in clouds if len(pts[0]) == 3]
        S.append(Spec("AABB.of_mesh", ["mesh", "padding"], c3,
                      lambda i: (AABB.of_mesh, [M.mesh.from_arrays(np.array(i[0], dtype=float))]), {"padding": (0.0, [0.5, 1.0])}, oracle=tight))
    elif part == "roots":
        import cmath
        units = [cmath.rect(1.0, k * math.pi / 6) for k in range(12)] + [complex(0.6, 0.8), complex(-0.28, -0.96)]
        rin = [(u * s, n) for u in units for s in (1.0, 0.5, 8.0) for n in range(1, 7)]
        S.append(Spec("roots", ["c", "pow", "normalize"], rin, lambda i: (maths.roots, [i[0], i[1]]), {"normalize": (True, [False])},
                      oracle=lambda i, v: len(v) == i[1] and all(_close(abs(z), 1.0) for z in v)))
        from scipy.spatial.transform import Rotation as R
        rots = [R.from_rotvec([k * math.pi / 18 * a for a in ax]) for ax in ((0, 0, 1), (0.6, 0.8, 0.0))
                for k in (0, 5, 8, 16)]
        rin = [(a, b) for a in range(len(rots)) for b in range(len(rots))]
        S.append(Spec("match_rotation", ["Ra", "Rb", "symgroup", "threshold"], rin, lambda i: (G.match_rotation, [rots[i[0]], rots[i[1]]]),
                      {"symgroup": (R.create_group("O"), [R.create_group("C4"), R.create_group("T")]),
                       "threshold": (PI4, [math.pi / 2, math.pi / 8, 0.0])}))
    elif part == "keywords":
        # required-only entry points: keyword == positional (+ a witness that the order of the arguments matters)
        V = [(1, 2, -1), (0, 1, 2), (2, -1, 1), (-1, 0, 2), (1, 1, 0), (0, 0, 1), (-2, 1, 1)]
        T3 = [(a, b, cc) for a in V[:5] for b in V[:5] for cc in V[:5]]
        T2 = [(a, b) for a in V for b in V]
        T4 = [(a, b, cc, n) for a in V[:4] for b in V[:4] for cc in V[:4] for n in V[3:]]
        P2 = [(1, 2), (0, 1), (2, -1), (-1, 0), (1, 1)]
        Q3 = [(a, b, cc) for a in P2 for b in P2 for cc in P2]
        Q4 = [(a, b, cc, e) for a in P2[:4] for b in P2[:4] for cc in P2[:4] for e in P2[:4]]
        allf = lambda fn: (lambda i: (fn, [f(x) for x in i]))
        for name, names, ins, swap in (
                ("cross", ["A", "B"], T2, (0, 1)), ("dot", ["A", "B"], T2, None), ("angle_2vec3D", ["V1", "V2"], T2, None),
                ("angle_3pts", ["A", "B", "C"], T3, (0, 1)), ("cotan", ["A", "B", "C"], T3, (0, 1)),
                ("circumcenter", ["v1", "v2", "v3"], T3, None), ("triangle_area", ["A", "B", "C"], T3, None),
                ("signed_angle_2vec3D", ["V1", "V2", "N"], T3, (1, 2)), ("signed_angle_3pts", ["A", "B", "C", "N"], T4, (2, 3)),
                ("project_to_plane", ["P", "N", "orig"], T3, (1, 2))):
            S.append(Spec(name, names, ins, allf(getattr(G, name)), swap=swap))
        for name, names, ins, swap in (
                ("det_2x2", ["A", "B"], [(a, b) for a in P2 for b in P2], (0, 1)), ("angle_2vec2D", ["V1", "V2"], [(a, b) for a in P2 for b in P2], (0, 1)),
                ("distance_to_segment2D", ["P", "A", "B"], Q3, (0, 1)), ("triangle_area_2D", ["A", "B", "C"], Q3, None)):
            S.append(Spec(name, names, ins, allf(getattr(G, name)), swap=swap))
        S.append(Spec("intersect_2lines2D", ["p1", "d1", "p2", "d2"], Q4, lambda i: (G.intersect_2lines2D, [Vec(f(x)) for x in i]), swap=(0, 1)))
        angs = [k * math.pi / 6 for k in (-5, -2, 0, 1, 3, 4)]
        S.append(Spec("rotate_2d", ["v", "angle"], [(p, a) for p in P2 for a in angs], lambda i: (G.rotate_2d, [f(i[0]), i[1]])))
        S.append(Spec("rotate_around_axis", ["inp", "_axis", "angle"], [(p, a, t) for p in V for a in V for t in angs],
                      lambda i: (G.rotate_around_axis, [f(i[0]), f(i[1]), i[2]]), swap=(0, 1)))
        S.append(Spec("axis_rot_from_z", ["v"], V, allf(G.axis_rot_from_z)))
        S.append(Spec("principal_angle", ["a"], [k * 0.7 for k in range(-12, 13)], lambda i: (maths.principal_angle, [i])))
        S.append(Spec("angle_diff", ["a", "b"], [(k * 0.7, j * 1.1) for k in range(-6, 7) for j in range(-6, 7)],
                      lambda i: (maths.angle_diff, list(i)), swap=(0, 1)))
        C2 = list(itertools.product((-1, 0, 1, 2), repeat=2))
        B2 = [(lo, hi) for lo in C2 for hi in C2]
        S.append(Spec("AABB.__init__", ["p_min", "p_max"], B2, lambda i: (AABB, [f(i[0]), f(i[1])]), swap=(0, 1)))
        bp = [(b1, b2) for b1 in B2[::3] for b2 in B2[::5]]
        mkb = lambda b: AABB(f(b[0]), f(b[1]))
        for name in ("union", "intersection", "do_intersect"):
            S.append(Spec("AABB." + name, ["b1", "b2"], bp, (lambda nm: lambda i: (getattr(AABB, nm), [mkb(i[0]), mkb(i[1])]))(name)))
        H = [x / 2 for x in range(-3, 6)]
        bq = [(b, p) for b in B2[::2] for p in itertools.product(H[::2], repeat=2)]
        for name in ("contains_point", "project"):
            S.append(Spec("AABB." + name, ["pt"], bq, (lambda nm: lambda i: (getattr(mkb(i[0]), nm), [f(i[1])]))(name)))

        def padded(i):
            def go(*a, **k):
                b = mkb(i[0])
                b.pad(*a, **k)
                return b
            return go, [f(i[1])]
        S.append(Spec("AABB.pad", ["pad"], bq[::3], padded))
        S.append(Spec("Vec.dot", ["other"], T2, lambda i: (Vec(f(i[0])).dot, [f(i[1])])))
    else:
        raise KeyError(part)
    return S


def run_defaults(task, c):
    if task["part"] == "signature":
        return run_signature(task, c)
    for sp in specs(c, task["part"]):
        run_spec(sp, c, task.get("chunk", 0), task.get("of", 1))
        c.rep.flag("defaults:spec:" + sp.callee)


def tasks(tier):
    T = [dict(kind="defaults", part="signature")]
    for part, n in (("norms", 2), ("boxes", 2), ("roots", 1), ("keywords", 2)):
        for i in range(n):
            T.append(dict(kind="defaults", part=part, chunk=i, of=n))
    return T


RUNNERS = {"defaults": run_defaults}
EXPECTED_EVALS = ["C12.defaults.signature", "C12.defaults.omitted_equals_documented", "C12.defaults.value",
                  "C12.forms.keyword_equals_positional"]
# callees of the table that have no behavioural spec (single variable-positional parameter / no argument besides self)
NO_SPEC = {"det_3x3", "face_basis", "AABB.infinite", "AABB.is_empty"}
ORDER_WITNESS = ["cross", "angle_3pts", "cotan", "signed_angle_2vec3D", "signed_angle_3pts", "project_to_plane", "det_2x2",
                 "angle_2vec2D", "distance_to_segment2D", "intersect_2lines2D", "rotate_around_axis",
                 "angle_diff", "AABB.__init__"]


def finish(tier, rep):
    fails = []
    if rep.counters.get("defaults:signature_compared", 0) != len(PINNED):
        fails.append(f"defaults: {rep.counters.get('defaults:signature_compared', 0)} signatures compared, table has {len(PINNED)}")
    for cal, p in OPTIONALS:
        if rep.counters.get(f"defaults:exercised:{cal}.{p}", 0) <= 0:
            fails.append(f"defaults: optional parameter {cal}.{p} never omitted")
        if f"defaults:discriminating:{cal}.{p}" not in rep.flags:
            fails.append(f"defaults: no input on which a non-default {cal}.{p} changes the answer")
    for cal in PINNED:
        if cal in NO_SPEC:
            continue
        if "defaults:spec:" + cal not in rep.flags:
            fails.append("defaults: no calling-form sweep for " + cal)
        elif rep.counters.get("forms:kw:" + cal, 0) <= 0:
            fails.append("defaults: keyword form never evaluated for " + cal)
    for cal in ORDER_WITNESS:
        if "forms:order_matters:" + cal not in rep.flags:
            fails.append("defaults: no input on which the order of the arguments of " + cal + " matters")
    return fails
