"""Canonical dump with aliasing pattern for C06 state keys.

Same contract as ``mc.canon.canon`` (generic recursive dump of everything reachable from the roots, identical
mutable objects become back references, numpy arrays that share memory are grouped) but the memory-sharing
groups are found by a sweep over the arrays' byte bounds (``n log n``) instead of testing every pair, which
matters here because every vertex of every live mesh is its own small array.
"""
from __future__ import annotations
import numpy as np
from fractions import Fraction

try:
    from numpy.lib.array_utils import byte_bounds
except Exception:                      # numpy < 2
    byte_bounds = np.byte_bounds

_ATOM = (type(None), bool, int, str, bytes, Fraction)


def canon(*roots, skip_attrs=()):
    seen = {}
    arrays = []
    keep = []

    def go(x, depth=0):
        t = type(x)
        if t is float:
            return ("f", x.hex() if x == x else "nan")
        if t in (int, str, bool, type(None), bytes) or isinstance(x, _ATOM):
            return x
        if t is complex:
            return ("c", repr(x))
        if isinstance(x, np.generic):
            return ("np", x.dtype.str, go(x.item(), depth + 1))
        ident = id(x)
        if ident in seen:
            return ("ref", seen[ident])
        if depth > 60:
            return ("deep", t.__name__)
        if isinstance(x, np.ndarray):
            idx = len(seen); seen[ident] = idx; keep.append(x)
            arrays.append((idx, x))
            if x.dtype == object:
                return ("arr", idx, t.__name__, "O", x.shape, tuple(go(v, depth + 1) for v in x.ravel().tolist()))
            return ("arr", idx, t.__name__, x.dtype.str, x.shape, x.tobytes())
        if t is list:
            idx = len(seen); seen[ident] = idx; keep.append(x)
            return ("L", idx, tuple(go(v, depth + 1) for v in x))
        if t is tuple or isinstance(x, tuple):
            return ("T", tuple(go(v, depth + 1) for v in x))
        if isinstance(x, list):
            idx = len(seen); seen[ident] = idx; keep.append(x)
            return ("L", idx, tuple(go(v, depth + 1) for v in x))
        if isinstance(x, dict):
            idx = len(seen); seen[ident] = idx; keep.append(x)
            items = [(go(k, depth + 1), k) for k in x.keys()]
            items.sort(key=lambda t: repr(t[0]))
            return ("D", idx, tuple((ck, go(x[k], depth + 1)) for ck, k in items))
        if isinstance(x, (set, frozenset)):
            idx = len(seen); seen[ident] = idx; keep.append(x)
            return ("S", idx, tuple(sorted((go(v, depth + 1) for v in x), key=repr)))
        if isinstance(x, range):
            return ("R", x.start, x.stop, x.step)
        if isinstance(x, type):
            return ("type", x.__module__, x.__qualname__)
        if callable(x) and not hasattr(x, "__dict__"):
            return ("callable", getattr(x, "__qualname__", repr(type(x))))
        d = getattr(x, "__dict__", None)
        slots = getattr(t, "__slots__", None)
        if d is None and slots is None:
            return ("opaque", t.__name__, repr(x)[:200])
        idx = len(seen); seen[ident] = idx; keep.append(x)
        fields = []
        if d is not None:
            for k in sorted(d):
                if k in skip_attrs:
                    continue
                fields.append((k, go(d[k], depth + 1)))
        if slots:
            for k in ([slots] if isinstance(slots, str) else slots):
                if hasattr(x, k) and k not in skip_attrs:
                    fields.append((k, go(getattr(x, k), depth + 1)))
        return ("O", idx, t.__module__ + "." + t.__qualname__, tuple(fields))

    body = tuple(go(r) for r in roots)
    share = []
    if len(arrays) > 1:
        iv = []
        for idx, a in arrays:
            if a.size:
                lo, hi = byte_bounds(a)
                iv.append((lo, hi, idx, a))
        iv.sort(key=lambda t: (t[0], t[1], t[2]))
        active = []                       # intervals whose hi > current lo
        for lo, hi, idx, a in iv:
            active = [t for t in active if t[1] > lo]
            for lo2, hi2, idx2, b in active:
                if np.shares_memory(a, b):
                    share.append((min(idx, idx2), max(idx, idx2)))
            active.append((lo, hi, idx, a))
        share.sort()
    return (body, tuple(share))
