"""Core bookkeeping shared by every property driver.

A driver (props/cNN.py) exposes

    ID, RULE, ASSUMPTIONS (list of str), LEVEL_TEXT (optional)
    tasks(tier)            -> list of JSON-serialisable work items
    run_task(task, rep)    -> None; records everything into the Report `rep`
    finish(tier, rep)      -> list of vacuity-guard failure strings (harness errors)

Every work item is executed on the real code in a worker process; Reports are merged in task order
so a run is reproducible.
"""
from __future__ import annotations
import hashlib, json, os, traceback

SAMPLE_CAP = 4
OUTCOME_CAP = 64


def h64(x) -> int:
    """Stable 64-bit hash of a canonical (repr-able) value."""
    if not isinstance(x, (bytes, bytearray)):
        x = repr(x).encode()
    return int.from_bytes(hashlib.blake2b(x, digest_size=8).digest(), "big")


def jsonable(x, depth=0):
    """Best-effort conversion of arbitrary values into JSON-serialisable form (for replay / samples)."""
    import numpy as np
    if depth > 12:
        return repr(x)
    if x is None or isinstance(x, (bool, int, str)):
        return x
    if isinstance(x, float):
        if x != x or x in (float("inf"), float("-inf")):
            return repr(x)
        return x
    if isinstance(x, complex):
        return {"re": jsonable(x.real), "im": jsonable(x.imag)}
    if isinstance(x, (np.bool_,)):
        return bool(x)
    if isinstance(x, np.integer):
        return int(x)
    if isinstance(x, np.floating):
        return jsonable(float(x))
    if isinstance(x, np.complexfloating):
        return jsonable(complex(x))
    if isinstance(x, np.ndarray):
        return jsonable(x.tolist(), depth + 1)
    if isinstance(x, dict):
        return {str(k): jsonable(v, depth + 1) for k, v in x.items()}
    if isinstance(x, (list, tuple)):
        return [jsonable(v, depth + 1) for v in x]
    if isinstance(x, (set, frozenset)):
        return sorted((jsonable(v, depth + 1) for v in x), key=repr)
    try:
        from fractions import Fraction
        if isinstance(x, Fraction):
            return str(x)
    except Exception:
        pass
    return repr(x)


class Report:
    """Counters + violations of one task (or the merge of many)."""

    def __init__(self):
        self.states = 0            # distinct explored states (per task: exact; merged: sum over tasks)
        self.transitions = 0       # real-code calls / events executed
        self.evaluations = 0       # oracle evaluations (individual answers compared)
        self.traces = 0            # executions (histories / inputs) run on the real code
        self.distinct = set()      # 64-bit hashes of distinct non-trivial cases
        self.outcomes = {}         # event kind -> set of short outcome labels (capped)
        self.samples = []          # a few actual cases, JSON-able
        self.violations = []       # dicts
        self.counters = {}         # name -> int
        self.flags = set()         # names of coverage facts seen (for vacuity guards)
        self.notes = []
        self.fp_counts = {}        # fingerprint tail -> number of occurrences (details kept for the first few only)
        self.class_suffix = ""     # appended to every input_class (e.g. the stale-attribute-blackboard mode)
        self.stop_on = None        # replay mode: fingerprint tail (subcheck, callee, kind, input_class) to stop at

    # -- recording -------------------------------------------------------------------------
    def count(self, name, n=1):
        self.counters[name] = self.counters.get(name, 0) + n

    def flag(self, name):
        self.flags.add(name)

    def case(self, key):
        """Register a distinct non-trivial case (anything repr-able)."""
        self.distinct.add(h64(key))

    def outcome(self, kind, label):
        s = self.outcomes.get(kind)
        if s is None:
            s = self.outcomes[kind] = set()
        if len(s) < OUTCOME_CAP:
            s.add(str(label)[:80])

    def sample(self, x):
        if len(self.samples) < SAMPLE_CAP:
            self.samples.append(jsonable(x))

    def violation(self, subcheck, callee, kind, input_class, detail=None):
        """fingerprint = (subcheck, callee, kind, input_class); detail = concrete counterexample."""
        key = (str(subcheck), str(callee), str(kind), str(input_class) + self.class_suffix)
        c = self.fp_counts.get(key, 0)
        self.fp_counts[key] = c + 1
        if c < 2:
            self.violations.append({
                "subcheck": key[0], "callee": key[1], "kind": key[2],
                "input_class": key[3], "detail": jsonable(detail),
            })
        if self.stop_on is not None and self.stop_on == key:
            raise ReplayHit()

    # -- merging ----------------------------------------------------------------------------
    def merge(self, other: "Report"):
        self.states += other.states
        self.transitions += other.transitions
        self.evaluations += other.evaluations
        self.traces += other.traces
        self.distinct |= other.distinct
        for k, v in other.outcomes.items():
            s = self.outcomes.setdefault(k, set())
            for x in sorted(v):
                if len(s) < OUTCOME_CAP:
                    s.add(x)
        for x in other.samples:
            if len(self.samples) < SAMPLE_CAP:
                self.samples.append(x)
        self.violations.extend(other.violations)
        for k, v in other.fp_counts.items():
            self.fp_counts[k] = self.fp_counts.get(k, 0) + v
        for k, v in other.counters.items():
            self.counters[k] = self.counters.get(k, 0) + v
        self.flags |= other.flags
        self.notes.extend(other.notes[:5])


def fingerprint(prop, v):
    return (prop, v["subcheck"], v["callee"], v["kind"], v["input_class"])


def fp_str(fp):
    return " | ".join(fp)


def fp_file(fp):
    return hashlib.blake2b(fp_str(fp).encode(), digest_size=6).hexdigest()


class Outcome:
    """Result of calling real code: value or raised exception class."""
    __slots__ = ("ok", "value", "exc", "msg")

    def __init__(self, ok, value=None, exc=None, msg=""):
        self.ok, self.value, self.exc, self.msg = ok, value, exc, msg

    def __repr__(self):
        return f"ok({self.value!r})" if self.ok else f"raised({self.exc}: {self.msg[:80]})"


def call(fn, *a, **k) -> Outcome:
    """Call real code, catching every Exception (not KeyboardInterrupt / SystemExit / watchdog)."""
    try:
        return Outcome(True, fn(*a, **k))
    except Exception as e:  # noqa
        return Outcome(False, exc=type(e).__name__, msg=str(e))


class WatchdogTimeout(BaseException):
    pass


class ReplayHit(BaseException):
    """Raised in replay mode as soon as the wanted fingerprint is reproduced."""


def exc_kind(o: Outcome):
    return "raises:" + o.exc
