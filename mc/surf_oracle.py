"""Independent half-edge oracle computed from a raw face list (used by C01, C13 and others).

Array/list based (the library is dictionary based). Corner ids are running indices in face order.
"""
from __future__ import annotations


class SurfOracle:
    def __init__(self, faces, n_vertices, edges):
        self.F = [tuple(int(v) for v in f) for f in faces]
        self.n = n_vertices
        self.E = [tuple(sorted((int(a), int(b)))) for a, b in edges]
        self.eid = {e: i for i, e in enumerate(self.E)}
        self.off = []
        k = 0
        for f in self.F:
            self.off.append(k); k += len(f)
        self.nc = k
        self.c_vertex = [v for f in self.F for v in f]
        self.c_face = [i for i, f in enumerate(self.F) for _ in f]
        self.c_local = [j for f in self.F for j in range(len(f))]
        # half edges
        self.he_corner = {}     # (a,b) -> corner at a
        for i, f in enumerate(self.F):
            m = len(f)
            for j in range(m):
                self.he_corner[(f[j], f[(j + 1) % m])] = self.off[i] + j
        self.fid = {tuple(sorted(f)): i for i, f in enumerate(self.F)}

    # ---- corners
    def next_corner(self, c):
        f, j = self.c_face[c], self.c_local[c]
        return self.off[f] + (j + 1) % len(self.F[f])

    def previous_corner(self, c):
        f, j = self.c_face[c], self.c_local[c]
        return self.off[f] + (j - 1) % len(self.F[f])

    def half_edge(self, c):
        return (self.c_vertex[c], self.c_vertex[self.next_corner(c)])

    def opposite_corner(self, c):
        a, b = self.half_edge(c)
        return self.he_corner.get((b, a))

    # ---- edges
    def direct_face(self, u, v):
        c = self.he_corner.get((u, v))
        return None if c is None else self.c_face[c]

    def direct_face_inds(self, u, v):
        c = self.he_corner.get((u, v))
        if c is None:
            return (None, None, None)
        f, j = self.c_face[c], self.c_local[c]
        return (f, j, (j + 1) % len(self.F[f]))

    def is_edge(self, u, v):
        return tuple(sorted((u, v))) in self.eid

    def edge_on_border(self, u, v):
        if not self.is_edge(u, v):
            return False
        return (self.direct_face(u, v) is None) != (self.direct_face(v, u) is None) or \
               (self.direct_face(u, v) is None and self.direct_face(v, u) is None)

    # ---- rings
    def faces_at(self, a):
        return [i for i, f in enumerate(self.F) if a in f]

    def pn(self, f, a):
        fl = self.F[f]; j = fl.index(a)
        return fl[j - 1], fl[(j + 1) % len(fl)]

    def ring(self, a):
        """Returns (is_border, faces f_0..f_{k-1}, vertices) in the library's documented rotational
        convention: p(f_{i+1}) = n(f_i); border ring vertices = [p(f_0), n(f_0), ..., n(f_{k-1})],
        interior ring vertices v_i = n(f_i) (defined up to rotation)."""
        inc = self.faces_at(a)
        if not inc:
            return False, [], []
        by_p = {self.pn(f, a)[0]: f for f in inc}
        ns = {self.pn(f, a)[1] for f in inc}
        starts = [f for f in inc if self.pn(f, a)[0] not in ns]
        border = bool(starts)
        f = starts[0] if starts else inc[0]
        faces = []
        for _ in range(len(inc)):
            faces.append(f)
            nx = self.pn(f, a)[1]
            f = by_p.get(nx)
            if f is None:
                break
        verts = [self.pn(g, a)[1] for g in faces]
        if border:
            verts = [self.pn(faces[0], a)[0]] + verts
        return border, faces, verts

    def vertex_on_border(self, a):
        return any((a in e) and self.edge_on_border(*e) for e in self.E)


def rot_equal(a, b):
    """lists equal up to rotation"""
    a, b = list(a), list(b)
    if len(a) != len(b):
        return False
    if not a:
        return True
    for s in range(len(a)):
        if a[s:] + a[:s] == b:
            return True
    return False
