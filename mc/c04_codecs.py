"""Independent reference codecs for the mesh file formats of property C04.

Written from the public descriptions of the formats (Wavefront OBJ, INRIA medit .mesh, Geomview OFF,
".tet", .xyz point lists, geogram ASCII "GeoFile", binary and ASCII STL), NOT from mouette's readers and
writers, and in a different style: every text parser is a whole-file *token stream* parser (mouette's are
line based), numbers are parsed with Python's float()/int() only, nothing from numpy or mouette is used.

A "model" is a plain dict
    {"V": [[x,y,z], ...] floats, "E": [[a,b], ...], "F": [[v0,v1,...], ...], "C": [[...], ...],
     "attrs": {"<set>|<name>": {"type": str, "dim": int, "values": [[...], ...]}}}          (geogram only)
with 0-based indices.  Only the constructs both sides document are produced by the writers.
"""
from __future__ import annotations
import struct


class RefParseError(Exception):
    """The file is not a well-formed instance of the format for the independent reader."""


def _strip_comment(line, mark="#"):
    k = line.find(mark)
    return line if k < 0 else line[:k]


def _f(tok):
    try:
        return float(tok)
    except ValueError:
        raise RefParseError(f"not a number: {tok!r}")


def _i(tok):
    try:
        return int(tok)
    except ValueError:
        raise RefParseError(f"not an integer: {tok!r}")


def _empty():
    return {"V": [], "E": [], "F": [], "C": [], "attrs": {}}


class _Tokens:
    def __init__(self, toks):
        self.t, self.k = toks, 0

    def more(self):
        return self.k < len(self.t)

    def next(self, what="token"):
        if self.k >= len(self.t):
            raise RefParseError(f"unexpected end of file, wanted {what}")
        self.k += 1
        return self.t[self.k - 1]


# ================================================================================================ OBJ
def parse_obj(text):
    m = _empty()
    nvt = nvn = 0
    pending = []      # (kind, tokens, number of v seen so far) - relative indices need the running count
    for raw in text.splitlines():
        toks = _strip_comment(raw).split()
        if not toks:
            continue
        key, args = toks[0], toks[1:]
        if key == "v":
            if len(args) < 3:
                raise RefParseError("v with fewer than 3 coordinates")
            m["V"].append([_f(a) for a in args[:3]])
        elif key == "vt":
            nvt += 1
        elif key == "vn":
            nvn += 1
        elif key in ("f", "l"):
            pending.append((key, args, len(m["V"])))
    nv = len(m["V"])

    def vid(ref, seen):
        s = ref.split("/")[0]
        i = _i(s)
        if i > 0:
            i -= 1
        elif i < 0:
            i = seen + i
        else:
            raise RefParseError("vertex index 0")
        if not 0 <= i < nv:
            raise RefParseError(f"vertex reference {ref} out of range")
        return i

    for key, args, seen in pending:
        ids = [vid(a, seen) for a in args]
        if key == "f":
            if len(ids) < 3:
                raise RefParseError("face with fewer than 3 vertices")
            m["F"].append(ids)
        else:
            if len(ids) < 2:
                raise RefParseError("line element with fewer than 2 vertices")
            for a, b in zip(ids, ids[1:]):
                m["E"].append([a, b])
    return m


def write_obj(m, variant=0):
    """variant 0: 'f a b c'; 1: 'f a/t ..' ; 2: 'f a//n ..'; 3: 'f a/t/n ..'; 4: plain with the decorations
    usual exporters add (comments, blank lines, o/g/s statements)."""
    out = []
    if variant == 4:
        out += ["# reference OBJ writer", "", "o object_1"]
    for p in m["V"]:
        out.append("v " + " ".join(repr(float(c)) for c in p))
    ncorner = sum(len(f) for f in m["F"])
    if variant in (1, 3):
        for k in range(max(ncorner, 1)):
            out.append(f"vt {repr(float(k % 4) / 4)} {repr(float(k % 3) / 2)}")
    if variant in (2, 3):
        for k in range(max(len(m["V"]), 1)):
            out.append("vn 0.0 0.0 1.0")
    if variant == 4:
        out += ["g group_1", "s off"]
    for a, b in m["E"]:
        out.append(f"l {a + 1} {b + 1}")
    c = 0
    for f in m["F"]:
        parts = []
        for v in f:
            c += 1
            if variant == 1:
                parts.append(f"{v + 1}/{c}")
            elif variant == 2:
                parts.append(f"{v + 1}//{v + 1}")
            elif variant == 3:
                parts.append(f"{v + 1}/{c}/{v + 1}")
            else:
                parts.append(f"{v + 1}")
        out.append("f " + " ".join(parts))
    return "\n".join(out) + "\n"


# ================================================================================================ medit
_MEDIT_ARITY = {"Vertices": 3, "Edges": 2, "Triangles": 3, "Quadrilaterals": 4, "Tetrahedra": 4, "Hexahedra": 8}
_MEDIT_OTHER_COUNTED = {"Corners": 1, "Ridges": 1, "RequiredVertices": 1, "RequiredEdges": 1, "RequiredTriangles": 1}


def parse_medit(text):
    toks = []
    for raw in text.splitlines():
        toks += _strip_comment(raw).split()
    ts = _Tokens(toks)
    m = _empty()
    dim = 3
    seen_version = False
    while ts.more():
        key = ts.next()
        if key == "MeshVersionFormatted":
            _i(ts.next("version")); seen_version = True
        elif key == "Dimension":
            dim = _i(ts.next("dimension"))
            if dim not in (2, 3):
                raise RefParseError(f"Dimension {dim}")
        elif key == "End":
            break
        elif key == "Vertices":
            n = _i(ts.next("count"))
            for _ in range(n):
                p = [_f(ts.next("coordinate")) for _ in range(dim)]
                ts.next("reference")
                m["V"].append(p + [0.0] * (3 - dim))
        elif key in _MEDIT_ARITY:
            n = _i(ts.next("count")); k = _MEDIT_ARITY[key]
            for _ in range(n):
                ids = [_i(ts.next("index")) - 1 for _ in range(k)]
                ts.next("reference")
                dest = {"Edges": "E", "Triangles": "F", "Quadrilaterals": "F", "Tetrahedra": "C", "Hexahedra": "C"}[key]
                m[dest].append(ids)
        elif key in _MEDIT_OTHER_COUNTED:
            n = _i(ts.next("count"))
            for _ in range(n * _MEDIT_OTHER_COUNTED[key]):
                ts.next()
        else:
            raise RefParseError(f"unknown medit keyword {key!r}")
    if not seen_version:
        raise RefParseError("MeshVersionFormatted missing")
    nv = len(m["V"])
    for kind in ("E", "F", "C"):
        for el in m[kind]:
            if any(not 0 <= v < nv for v in el):
                raise RefParseError(f"index out of range in {kind}: {el}")
    return m


def write_medit(m, variant=0):
    """variant 0: 'MeshVersionFormatted 1 / Dimension 3', references 1, faces before cells;
    variant 1: the layout other tools write (version 2, ' Dimension' and its value on separate indented lines,
    reference 0, cells before faces, quadrilaterals before triangles)."""
    out = []
    ref = 1 if variant == 0 else 0
    ind = "" if variant == 0 else " "
    if variant == 0:
        out += ["MeshVersionFormatted 1", "Dimension 3"]
    else:
        out += [" MeshVersionFormatted 2", " Dimension", " 3"]

    def block(name, rows, shift=1):
        if not rows:
            return
        out.append(ind + name)
        out.append(ind + str(len(rows)))
        for r in rows:
            out.append(ind + " ".join(str(v + shift) for v in r) + f" {ref}")

    out.append(ind + "Vertices")
    out.append(ind + str(len(m["V"])))
    for p in m["V"]:
        out.append(ind + " ".join(repr(float(c)) for c in p) + f" {ref}")
    tris = [f for f in m["F"] if len(f) == 3]
    quads = [f for f in m["F"] if len(f) == 4]
    tets = [c for c in m["C"] if len(c) == 4]
    hexs = [c for c in m["C"] if len(c) == 8]
    if variant == 0:
        block("Edges", m["E"]); block("Triangles", tris); block("Quadrilaterals", quads)
        block("Tetrahedra", tets); block("Hexahedra", hexs)
    else:
        block("Tetrahedra", tets); block("Hexahedra", hexs)
        block("Quadrilaterals", quads); block("Triangles", tris); block("Edges", m["E"])
    out.append(ind + "End")
    return "\n".join(out) + "\n"


# ================================================================================================ OFF
def parse_off(text):
    toks = []
    for raw in text.splitlines():
        toks += _strip_comment(raw).split()
    ts = _Tokens(toks)
    head = ts.next("OFF header")
    if head != "OFF":
        raise RefParseError(f"header {head!r} (only the plain OFF flavour is handled)")
    nv, nf, _ne = _i(ts.next()), _i(ts.next()), _i(ts.next())
    m = _empty()
    for _ in range(nv):
        m["V"].append([_f(ts.next("coordinate")) for _ in range(3)])
    for _ in range(nf):
        k = _i(ts.next("face size"))
        if k < 1:
            raise RefParseError("face with no vertex")
        ids = [_i(ts.next("face index")) for _ in range(k)]
        if any(not 0 <= v < nv for v in ids):
            raise RefParseError(f"face index out of range: {ids}")
        m["F"].append(ids)        # an OFF record 'k i1..ik' is a k-gon, whatever k
    if ts.more():
        raise RefParseError("trailing data after the announced number of faces")
    return m


def write_off(m, variant=0):
    out = ["OFF", f"{len(m['V'])} {len(m['F'])} 0"]
    for p in m["V"]:
        out.append(" ".join(repr(float(c)) for c in p))
    if variant == 1:
        out.append("")
    for f in m["F"]:
        sep = " " if variant == 0 else "  "
        out.append(f"{len(f)}" + sep + " ".join(str(v) for v in f))
    return "\n".join(out) + "\n"


# ================================================================================================ TET
def parse_tet(text):
    lines = [l.split() for l in text.splitlines() if l.strip()]
    if len(lines) < 2 or len(lines[0]) < 2 or lines[0][1] != "vertices" or len(lines[1]) < 2 \
            or lines[1][1] not in ("tets", "cells"):
        raise RefParseError("header must be 'N vertices' / 'M tets'")
    nv, nc = _i(lines[0][0]), _i(lines[1][0])
    body = lines[2:]
    if len(body) != nv + nc:
        raise RefParseError(f"{len(body)} records for {nv} vertices + {nc} cells")
    m = _empty()
    for r in body[:nv]:
        if len(r) != 3:
            raise RefParseError("vertex record must have 3 coordinates")
        m["V"].append([_f(x) for x in r])
    for r in body[nv:]:
        k = _i(r[0])
        if len(r) != k + 1:
            raise RefParseError(f"cell record announces {k} vertices, has {len(r) - 1}")
        ids = [_i(x) for x in r[1:]]
        if any(not 0 <= v < nv for v in ids):
            raise RefParseError("cell index out of range")
        m["C"].append(ids)
    return m


def write_tet(m, variant=0):
    out = [f"{len(m['V'])} vertices", f"{len(m['C'])} tets"]
    for p in m["V"]:
        out.append(" ".join(repr(float(c)) for c in p))
    for c in m["C"]:
        out.append(f"{len(c)} " + " ".join(str(v) for v in c))
    return "\n".join(out) + "\n"


# ================================================================================================ XYZ
def parse_xyz(text):
    m = _empty()
    for raw in text.splitlines():
        r = raw.split()
        if not r:
            continue
        if len(r) not in (3, 6):
            raise RefParseError(f"xyz record with {len(r)} fields")
        m["V"].append([_f(x) for x in r[:3]])
    return m


def write_xyz(m, variant=0):
    out = []
    for p in m["V"]:
        row = [repr(float(c)) for c in p]
        if variant == 1:
            row += ["0.0", "0.0", "1.0"]
        out.append(" ".join(row))
    return "\n".join(out) + ("\n" if out else "")


# ================================================================================================ geogram ASCII
_GEO_INT = {"int", "index_t", "signed_index_t", "char", "unsigned int"}
_GEO_FLOAT = {"double", "float"}
_GEO_BYTES = {"int": 4, "index_t": 4, "signed_index_t": 4, "double": 8, "float": 4, "bool": 1, "char": 1}


def _unq(s, what):
    s = s.strip()
    if len(s) < 2 or s[0] != '"' or s[-1] != '"':
        raise RefParseError(f"{what} must be a quoted string, got {s!r}")
    return s[1:-1]


def parse_geogram(text, issues=None):
    """With `issues` (a list) given, problems that leave the rest of the file interpretable are appended to it as
    (scope, message) - scope in {"faces", "cells", "attr:<set>|<name>"} - instead of raising."""
    def problem(scope, msg):
        if issues is None:
            raise RefParseError(msg)
        issues.append((scope, msg))

    lines = [_strip_comment(l).strip() for l in text.splitlines()]
    lines = [l for l in lines if l]
    ts = _Tokens(lines)
    if ts.next("[HEAD]") != "[HEAD]":
        raise RefParseError("file must start with a [HEAD] chunk")
    if _unq(ts.next(), "magic") != "GEOGRAM":
        raise RefParseError("bad magic")
    _unq(ts.next(), "version")
    sets = {}          # set name -> nb items
    attrs = []         # (set, name, type, dim, flat values)

    def body():
        out = []
        while ts.more() and not ts.t[ts.k].startswith("["):
            out.append(ts.next())
        return out

    while ts.more():
        cls = ts.next()
        if cls == "[ATTS]":
            name = _unq(ts.next(), "attribute set name"); n = _i(ts.next("item count"))
            if name in sets:
                raise RefParseError(f"attribute set {name} declared twice")
            sets[name] = n
        elif cls == "[ATTR]":
            sname = _unq(ts.next(), "set name"); aname = _unq(ts.next(), "attribute name")
            scope = f"attr:{sname}|{aname}"
            try:
                tname = _unq(ts.next(), "element type")
                esize = ts.next("element size"); dim = _i(ts.next("dimension"))
                toks = body()
                if sname not in sets:
                    raise RefParseError(f"attribute {aname} refers to undeclared attribute set {sname}")
                esize = _i(esize)
                if tname in _GEO_BYTES and esize != _GEO_BYTES[tname]:
                    raise RefParseError(f"element size {esize} for type {tname}")
                if len(toks) != sets[sname] * dim:
                    raise RefParseError(f"attribute {sname}::{aname}: {len(toks)} values for {sets[sname]} items x {dim}")
                vals = []
                for tok in toks:
                    if tname in _GEO_INT:
                        vals.append(_i(tok))
                    elif tname in _GEO_FLOAT:
                        vals.append(_f(tok))
                    elif tname == "bool":
                        if tok not in ("0", "1"):
                            raise RefParseError(f"bool value {tok!r}")
                        vals.append(tok == "1")
                    else:
                        vals.append(tok)
            except RefParseError as e:
                body()
                problem(scope, str(e))
                continue
            attrs.append((sname, aname, tname, dim, vals))
        elif cls.startswith("["):
            body()                                                    # unknown chunk class: skip
        else:
            raise RefParseError(f"stray line {cls!r}")
    m = _empty()
    byname = {(s, a): (t, d, v) for s, a, t, d, v in attrs}

    def take(s, a, dim):
        if (s, a) not in byname:
            return None
        t, d, v = byname.pop((s, a))
        if d != dim:
            raise RefParseError(f"{a} has dimension {d}")
        return v

    pts = take("GEO::Mesh::vertices", "point", 3)
    nv = sets.get("GEO::Mesh::vertices", 0)
    if pts is None and nv:
        raise RefParseError("vertices without point attribute")
    for i in range(nv):
        m["V"].append([float(pts[3 * i + k]) for k in range(3)])
    ev = take("GEO::Mesh::edges", "GEO::Mesh::edges::edge_vertex", 2)
    for i in range(sets.get("GEO::Mesh::edges", 0)):
        if ev is None:
            raise RefParseError("edges without edge_vertex")
        m["E"].append([ev[2 * i], ev[2 * i + 1]])

    def polys(scope, set_items, set_corners, ptr_name, cv_name, default_k):
        n = sets.get(set_items, 0)
        nc = sets.get(set_corners, 0)
        ptr = take(set_items, ptr_name, 1)
        cv = take(set_corners, cv_name, 1)
        out = []
        if n == 0:
            return out
        try:
            if cv is None:
                raise RefParseError(f"{set_items} without corner_vertex")
            if ptr is None:
                if nc != default_k * n:
                    raise RefParseError(f"{n} items in {set_items} and no {ptr_name.split('::')[-1]}: they are "
                                        f"{default_k}-vertex items and need {default_k * n} corners, the file has {nc}")
                ptr = [default_k * i for i in range(n)]
            bounds = list(ptr) + [nc]
            for i in range(n):
                a, b = bounds[i], bounds[i + 1]
                if not 0 <= a < b <= nc:
                    raise RefParseError(f"bad {ptr_name}")
                out.append([cv[j] for j in range(a, b)])
            for el in out:
                if any(not 0 <= v < nv for v in el):
                    raise RefParseError(f"index out of range in {set_items}: {el}")
        except RefParseError as e:
            problem(scope, str(e))
            return []
        return out

    m["F"] = polys("faces", "GEO::Mesh::facets", "GEO::Mesh::facet_corners", "GEO::Mesh::facets::facet_ptr",
                   "GEO::Mesh::facet_corners::corner_vertex", 3)
    m["C"] = polys("cells", "GEO::Mesh::cells", "GEO::Mesh::cell_corners", "GEO::Mesh::cells::cell_ptr",
                   "GEO::Mesh::cell_corners::corner_vertex", 4)
    for el in m["E"]:
        if any(not 0 <= v < nv for v in el):
            raise RefParseError(f"index out of range in edges: {el}")
    for (s, a), (t, d, v) in byname.items():
        n = sets[s]
        m["attrs"][s + "|" + a] = {"type": t, "dim": d, "values": [v[d * i:d * i + d] for i in range(n)]}
    return m


_GEO_SET_OF = {"vertices": "GEO::Mesh::vertices", "edges": "GEO::Mesh::edges", "faces": "GEO::Mesh::facets",
               "face_corners": "GEO::Mesh::facet_corners", "cells": "GEO::Mesh::cells",
               "cell_corners": "GEO::Mesh::cell_corners", "cell_faces": "GEO::Mesh::cell_facets"}


def write_geogram(m, variant=0):
    """variant 0: bare; variant 1: with the explanatory comments geogram itself writes after every header line."""
    cm = (lambda s: " # " + s) if variant == 1 else (lambda s: "")
    out = ["[HEAD]", '"GEOGRAM"', '"1.0"']

    def atts(name, n):
        out.extend(["[ATTS]", f'"{name}"' + cm("this is the name of this attribute set"),
                    f"{n}" + cm("this is the number of items in this attribute set")])

    def attr(sname, aname, tname, dim, flat):
        out.extend(["[ATTR]", f'"{sname}"' + cm("this is the name of the attribute set this attribute belongs to"),
                    f'"{aname}"' + cm("this is the name of this attribute"),
                    f'"{tname}"' + cm("this is the type of the elements in this attribute"),
                    f"{_GEO_BYTES[tname]}" + cm("this is the size of an element (in bytes)"),
                    f"{dim}" + cm("this is the number of elements per item")])
        for v in flat:
            if tname == "bool":
                out.append("1" if v else "0")
            elif tname in _GEO_FLOAT:
                out.append(repr(float(v)))
            else:
                out.append(str(int(v)))

    def user(key):
        for k, a in sorted(m.get("attrs", {}).items()):
            s, name = k.split("|", 1)
            if s == key:
                attr(s, name, a["type"], a["dim"], [x for row in a["values"] for x in row])

    atts("GEO::Mesh::vertices", len(m["V"]))
    attr("GEO::Mesh::vertices", "point", "double", 3, [c for p in m["V"] for c in p])
    user("GEO::Mesh::vertices")
    if m["E"]:
        atts("GEO::Mesh::edges", len(m["E"]))
        attr("GEO::Mesh::edges", "GEO::Mesh::edges::edge_vertex", "index_t", 2, [v for e in m["E"] for v in e])
        user("GEO::Mesh::edges")
    if m["F"]:
        atts("GEO::Mesh::facets", len(m["F"]))
        if any(len(f) != 3 for f in m["F"]):
            ptr, k = [], 0
            for f in m["F"]:
                ptr.append(k); k += len(f)
            attr("GEO::Mesh::facets", "GEO::Mesh::facets::facet_ptr", "index_t", 1, ptr)
        user("GEO::Mesh::facets")
        atts("GEO::Mesh::facet_corners", sum(len(f) for f in m["F"]))
        attr("GEO::Mesh::facet_corners", "GEO::Mesh::facet_corners::corner_vertex", "index_t", 1,
             [v for f in m["F"] for v in f])
        user("GEO::Mesh::facet_corners")
    if m["C"]:
        atts("GEO::Mesh::cells", len(m["C"]))
        if any(len(c) != 4 for c in m["C"]):
            ptr, k = [], 0
            for c in m["C"]:
                ptr.append(k); k += len(c)
            attr("GEO::Mesh::cells", "GEO::Mesh::cells::cell_ptr", "index_t", 1, ptr)
        user("GEO::Mesh::cells")
        atts("GEO::Mesh::cell_corners", sum(len(c) for c in m["C"]))
        attr("GEO::Mesh::cell_corners", "GEO::Mesh::cell_corners::corner_vertex", "index_t", 1,
             [v for c in m["C"] for v in c])
        user("GEO::Mesh::cell_corners")
        if any(k.split("|", 1)[0] == "GEO::Mesh::cell_facets" for k in m.get("attrs", {})):
            atts("GEO::Mesh::cell_facets", sum(len(c) if len(c) == 4 else 6 for c in m["C"]))
            user("GEO::Mesh::cell_facets")
    return "\n".join(out) + "\n"


# ================================================================================================ STL
def parse_stl_binary(data: bytes):
    """-> list of triangles, each 3 points of 3 float32-valued Python floats."""
    if len(data) < 84:
        raise RefParseError(f"binary STL shorter than its 84-byte preamble ({len(data)} bytes)")
    (n,) = struct.unpack_from("<I", data, 80)
    if len(data) != 84 + 50 * n:
        raise RefParseError(f"binary STL announces {n} facets, size is {len(data)} bytes")
    tris = []
    for k in range(n):
        vals = struct.unpack_from("<12fH", data, 84 + 50 * k)
        tris.append([list(vals[3:6]), list(vals[6:9]), list(vals[9:12])])
    return tris


def write_stl_binary(tris):
    out = [struct.pack("<80sI", b"reference STL writer", len(tris))]
    for t in tris:
        flat = [0.0, 0.0, 0.0] + [c for p in t for c in p]
        out.append(struct.pack("<12fH", *flat, 0))
    return b"".join(out)


def write_stl_ascii(tris):
    out = ["solid ref"]
    for t in tris:
        out.append("  facet normal 0.0 0.0 0.0")
        out.append("    outer loop")
        for p in t:
            out.append("      vertex " + " ".join(repr(float(c)) for c in p))
        out.append("    endloop")
        out.append("  endfacet")
    out.append("endsolid ref")
    return "\n".join(out) + "\n"


def f32(x):
    """Round a Python float to the nearest float32 (raises OverflowError outside the float32 range)."""
    return struct.unpack("<f", struct.pack("<f", x))[0]


# ================================================================================================ registry
PARSERS = {"obj": parse_obj, "mesh": parse_medit, "off": parse_off, "tet": parse_tet, "xyz": parse_xyz,
           "geogram_ascii": parse_geogram}
WRITERS = {"obj": write_obj, "mesh": write_medit, "off": write_off, "tet": write_tet, "xyz": write_xyz,
           "geogram_ascii": write_geogram}
N_VARIANTS = {"obj": 5, "mesh": 2, "off": 2, "tet": 1, "xyz": 2, "geogram_ascii": 2}


def selftest():
    """Every writer/parser pair of this module is mutually consistent on a small model (run by the driver)."""
    V = [[0.0, -0.0, 1.0], [-1.5, 0.1, 1 / 3], [1e-30, -1e30, 5e-324], [1.7976931348623157e308, 123456789.12345679, 2.0],
         [1.0, 1.0, 1.0], [2.0, 0.0, 0.0], [2.0, 1.0, 0.0], [0.0, 3.0, 1.0]]
    hexa = lambda x: [[c.hex() for c in p] for p in x]
    base = {"V": V, "E": [[0, 1], [2, 3]], "F": [[0, 1, 2], [0, 2, 3, 4], [4, 3, 2, 1, 0]],
            "C": [[0, 1, 2, 3], [0, 1, 2, 3, 4, 5, 6, 7]], "attrs": {}}
    vocab = {"obj": "VEF", "mesh": "VEFC", "off": "VF", "tet": "VC", "xyz": "V", "geogram_ascii": "VEFC"}
    for fmt, par in PARSERS.items():
        for var in range(N_VARIANTS[fmt]):
            m = {k: (base[k] if k in vocab[fmt] else []) for k in "VEFC"}
            m["attrs"] = {}
            if fmt == "mesh":
                m["F"] = [f for f in m["F"] if len(f) in (3, 4)]
            if fmt == "geogram_ascii":
                m["attrs"] = {"GEO::Mesh::vertices|w": {"type": "double", "dim": 2, "values": [[float(i), 0.5] for i in range(8)]},
                              "GEO::Mesh::facets|b": {"type": "bool", "dim": 1, "values": [[True], [False], [True]]}}
            back = par(WRITERS[fmt](m, var))
            want_F = m["F"]
            if fmt == "mesh" and var == 1:
                want_F = [f for f in m["F"] if len(f) == 4] + [f for f in m["F"] if len(f) == 3]
            assert hexa(back["V"]) == hexa(m["V"]), (fmt, var, "V")
            assert back["E"] == m["E"] and back["F"] == want_F and back["C"] == m["C"], (fmt, var, back)
            assert back["attrs"] == m["attrs"], (fmt, var, back["attrs"])
    tris = [[[0.0, 0.5, 1.0], [f32(0.1), 2.0, 3.0], [-1.0, -2.0, f32(1e30)]]]
    assert parse_stl_binary(write_stl_binary(tris)) == tris
    return True
