"""Independent reference codecs for the mesh file formats of property C04.

Written from the public descriptions of the formats (Wavefront OBJ, INRIA medit .mesh, Geomview OFF,
".tet", .xyz point lists, geogram ASCII "GeoFile", binary and ASCII STL), NOT from mouette's readers and
writers, and in a different style: every text parser is a whole-file *token stream* parser (mouette's are
line based), numbers are parsed with Python's float()/int() only, nothing from numpy or mouette is used.

A "model" is a plain dict
    {"V": [[x,y,z], ...] floats, "E": [[a,b], ...], "F": [[v0,v1,...], ...], "C": [[...], ...],
     "attrs": {"<set>|<name>": {"type": str, "dim": int, "values": [[...], ...]}}}          (geogram only)
with 0-based indices.  Only the constructs both sides document are produced by the writers.
"""
from __future__ import annotations
import struct


class RefParseError(Exception):
    """The file is not a well-formed instance of the format for the independent reader."""


def _strip_comment(line, mark="#"):
    k = line.find(mark)
    return line if k < 0 else line[:k]


def _f(tok):
    try:
        return float(tok)
    except ValueError:
        raise RefParseError(f"not a number: {tok!r}")


def _i(tok):
    try:
        return int(tok)
    except ValueError:
        raise RefParseError(f"not an integer: {tok!r}")


def _empty():
    return {"V": [], "E": [], "F": [], "C": [], "attrs": {}}


def _spell(c, style=0):
    """a double written the way different exporters do, always exactly (17 significant digits identify a double):
    0 shortest repr, 1 '%.17g', 2 '%+.16E' (explicit sign, upper-case exponent)"""
    c = float(c)
    return repr(c) if style == 0 else "%.17g" % c if style == 1 else "%+.16E" % c


def _layout(lines, variant_is_layout):
    """the 'layout' variants: tabs for blanks, indented records, trailing blanks, CR LF line ends"""
    if not variant_is_layout:
        return "\n".join(lines) + "\n"
    return "".join(" " + l.replace(" ", "\t") + " \r\n" for l in lines)


class _Tokens:
    def __init__(self, toks):
        self.t, self.k = toks, 0

    def more(self):
        return self.k < len(self.t)

    def next(self, what="token"):
        if self.k >= len(self.t):
            raise RefParseError(f"unexpected end of file, wanted {what}")
        self.k += 1
        return self.t[self.k - 1]


# ================================================================================================ OBJ
def parse_obj(text):
    m = _empty()
    nvt = nvn = 0
    pending = []      # (kind, tokens, number of v seen so far) - relative indices need the running count
    for raw in text.splitlines():
        toks = _strip_comment(raw).split()
        if not toks:
            continue
        key, args = toks[0], toks[1:]
        if key == "v":
            if len(args) < 3:
                raise RefParseError("v with fewer than 3 coordinates")
            m["V"].append([_f(a) for a in args[:3]])
        elif key == "vt":
            nvt += 1
        elif key == "vn":
            nvn += 1
        elif key in ("f", "l"):
            pending.append((key, args, len(m["V"])))
    nv = len(m["V"])

    def vid(ref, seen):
        s = ref.split("/")[0]
        i = _i(s)
        if i > 0:
            i -= 1
        elif i < 0:
            i = seen + i
        else:
            raise RefParseError("vertex index 0")
        if not 0 <= i < nv:
            raise RefParseError(f"vertex reference {ref} out of range")
        return i

    for key, args, seen in pending:
        ids = [vid(a, seen) for a in args]
        if key == "f":
            if len(ids) < 3:
                raise RefParseError("face with fewer than 3 vertices")
            m["F"].append(ids)
        else:
            if len(ids) < 2:
                raise RefParseError("line element with fewer than 2 vertices")
            for a, b in zip(ids, ids[1:]):
                m["E"].append([a, b])
    return m


def write_obj(m, variant=0):
    """variant 0: 'f a b c'; 1: 'f a/t ..' ; 2: 'f a//n ..'; 3: 'f a/t/n ..'; 4: plain with the decorations
    usual exporters add (comments, blank lines, o/g/s statements); 5: 'v x y z w' and 'v x y z r g b' records (optional
    weight / vertex colour after the coordinates); 6: plain with mtllib/usemtl statements, 17-digit numbers with explicit
    sign and upper-case exponent, tabs, indented records, CR LF line ends."""
    out = []
    if variant == 4:
        out += ["# reference OBJ writer", "", "o object_1"]
    if variant == 6:
        out += ["mtllib reference.mtl"]
    for k, p in enumerate(m["V"]):
        extra = ""
        if variant == 5:
            extra = " 1.0" if k % 2 == 0 else f" {repr((k % 5) / 4)} 0.5 1.0"
        out.append("v " + " ".join(_spell(c, 2 if variant == 6 else 0) for c in p) + extra)
    ncorner = sum(len(f) for f in m["F"])
    if variant in (1, 3):
        for k in range(max(ncorner, 1)):
            out.append(f"vt {repr(float(k % 4) / 4)} {repr(float(k % 3) / 2)}")
    if variant in (2, 3):
        for k in range(max(len(m["V"]), 1)):
            out.append("vn 0.0 0.0 1.0")
    if variant == 4:
        out += ["g group_1", "s off"]
    if variant == 6:
        out += ["usemtl material_0"]
    for a, b in m["E"]:
        out.append(f"l {a + 1} {b + 1}")
    c = 0
    for f in m["F"]:
        parts = []
        for v in f:
            c += 1
            if variant == 1:
                parts.append(f"{v + 1}/{c}")
            elif variant == 2:
                parts.append(f"{v + 1}//{v + 1}")
            elif variant == 3:
                parts.append(f"{v + 1}/{c}/{v + 1}")
            else:
                parts.append(f"{v + 1}")
        out.append("f " + " ".join(parts))
    return _layout(out, variant == 6)


# ================================================================================================ medit
_MEDIT_ARITY = {"Vertices": 3, "Edges": 2, "Triangles": 3, "Quadrilaterals": 4, "Tetrahedra": 4, "Hexahedra": 8}
_MEDIT_OTHER_COUNTED = {"Corners": 1, "Ridges": 1, "RequiredVertices": 1, "RequiredEdges": 1, "RequiredTriangles": 1}


def parse_medit(text):
    toks = []
    for raw in text.splitlines():
        toks += _strip_comment(raw).split()
    ts = _Tokens(toks)
    m = _empty()
    dim = 3
    seen_version = False
    while ts.more():
        key = ts.next()
        if key == "MeshVersionFormatted":
            _i(ts.next("version")); seen_version = True
        elif key == "Dimension":
            dim = _i(ts.next("dimension"))
            if dim not in (2, 3):
                raise RefParseError(f"Dimension {dim}")
        elif key == "End":
            break
        elif key == "Vertices":
            n = _i(ts.next("count"))
            for _ in range(n):
                p = [_f(ts.next("coordinate")) for _ in range(dim)]
                ts.next("reference")
                m["V"].append(p + [0.0] * (3 - dim))
        elif key in _MEDIT_ARITY:
            n = _i(ts.next("count")); k = _MEDIT_ARITY[key]
            for _ in range(n):
                ids = [_i(ts.next("index")) - 1 for _ in range(k)]
                ts.next("reference")
                dest = {"Edges": "E", "Triangles": "F", "Quadrilaterals": "F", "Tetrahedra": "C", "Hexahedra": "C"}[key]
                m[dest].append(ids)
        elif key in _MEDIT_OTHER_COUNTED:
            n = _i(ts.next("count"))
            for _ in range(n * _MEDIT_OTHER_COUNTED[key]):
                ts.next()
        else:
            raise RefParseError(f"unknown medit keyword {key!r}")
    if not seen_version:
        raise RefParseError("MeshVersionFormatted missing")
    nv = len(m["V"])
    for kind in ("E", "F", "C"):
        for el in m[kind]:
            if any(not 0 <= v < nv for v in el):
                raise RefParseError(f"index out of range in {kind}: {el}")
    return m


def write_medit(m, variant=0):
    """variant 0: 'MeshVersionFormatted 1 / Dimension 3', references 1, faces before cells;
    variant 1: the layout other tools write (version 2, ' Dimension' and its value on separate indented lines,
    reference 0, cells before faces, quadrilaterals before triangles);
    variant 2: layout 0 with the optional parts of the format a reader has to skip: comment lines, blank lines between
    the blocks, Corners / Ridges / RequiredVertices blocks between the element blocks, region references other than 0/1;
    variant 3: layout 0 with 17-digit numbers (explicit sign, upper-case exponent), tabs, indented records, CR LF."""
    out = []
    ref = 0 if variant == 1 else 1
    ind = " " if variant == 1 else ""
    refs = [0, 3, 17, 1, 2]
    if variant == 1:
        out += [" MeshVersionFormatted 2", " Dimension", " 3"]
    else:
        out += ["MeshVersionFormatted 1", "Dimension 3"]
    if variant == 2:
        out += ["# written by the reference medit writer", ""]
    nrec = [0]

    def rf():
        nrec[0] += 1
        return refs[nrec[0] % 5] if variant == 2 else ref

    def block(name, rows, shift=1):
        if not rows:
            return
        out.append(ind + name)
        out.append(ind + str(len(rows)))
        for r in rows:
            out.append(ind + " ".join(str(v + shift) for v in r) + f" {rf()}")
        if variant == 2:
            out.append("")

    def other(name, ids):
        if variant == 2 and ids:
            out.extend([name, str(len(ids))] + [str(i + 1) for i in ids] + ["", "# end of " + name])

    out.append(ind + "Vertices")
    out.append(ind + str(len(m["V"])))
    for p in m["V"]:
        out.append(ind + " ".join(_spell(c, 2 if variant == 3 else 0) for c in p) + f" {rf()}")
    other("Corners", list(range(min(2, len(m["V"])))))
    tris = [f for f in m["F"] if len(f) == 3]
    quads = [f for f in m["F"] if len(f) == 4]
    tets = [c for c in m["C"] if len(c) == 4]
    hexs = [c for c in m["C"] if len(c) == 8]
    if variant != 1:
        block("Edges", m["E"]); other("Ridges", list(range(min(1, len(m["E"])))))
        block("Triangles", tris); block("Quadrilaterals", quads)
        other("RequiredVertices", list(range(min(3, len(m["V"])))))
        block("Tetrahedra", tets); block("Hexahedra", hexs)
    else:
        block("Tetrahedra", tets); block("Hexahedra", hexs)
        block("Quadrilaterals", quads); block("Triangles", tris); block("Edges", m["E"])
    out.append(ind + "End")
    return _layout(out, variant == 3)


# ================================================================================================ OFF
def parse_off(text):
    """Header and vertices are a free token stream; a face record is 'k i1..ik' followed, up to the end of ITS line, by
    an optional colour (no token, one colormap index, or 3 / 4 integers or floats)."""
    EOL = object()
    toks = []
    for raw in text.splitlines():
        toks += _strip_comment(raw).split()
        toks.append(EOL)
    ts = _Tokens(toks)

    def nxt(what):
        while True:
            t = ts.next(what)
            if t is not EOL:
                return t

    head = nxt("OFF header")
    if head != "OFF":
        raise RefParseError(f"header {head!r} (only the plain OFF flavour is handled)")
    nv, nf, _ne = _i(nxt("count")), _i(nxt("count")), _i(nxt("count"))
    m = _empty()
    for _ in range(nv):
        m["V"].append([_f(nxt("coordinate")) for _ in range(3)])
    for _ in range(nf):
        k = _i(nxt("face size"))
        if k < 1:
            raise RefParseError("face with no vertex")
        ids = [_i(nxt("face index")) for _ in range(k)]
        if any(not 0 <= v < nv for v in ids):
            raise RefParseError(f"face index out of range: {ids}")
        colour = []
        while ts.more() and ts.t[ts.k] is not EOL:
            colour.append(_f(ts.next("colour component")))
        if len(colour) not in (0, 1, 3, 4):
            raise RefParseError(f"face record with {len(colour)} values after its {k} indices (a colour has 1, 3 or 4)")
        m["F"].append(ids)        # an OFF record 'k i1..ik' is a k-gon, whatever k
    while ts.more():
        if ts.next() is not EOL:
            raise RefParseError("trailing data after the announced number of faces")
    return m


def write_off(m, variant=0):
    """variant 0: bare; 1: blank line before the faces, two blanks after the face size; 2: every face record carries the
    optional colour after its indices, as integers (by turns r g b / r g b a / one colormap index); 3: the colour as
    floats (r g b / r g b a); 4: the real number of edges in the header (readers ignore it), 17-digit numbers, tabs,
    indented records, CR LF."""
    ne = 0
    if variant == 4:
        ne = len({(min(a, b), max(a, b)) for f in m["F"] for a, b in zip(f, list(f[1:]) + [f[0]]) if a != b})
    out = ["OFF", f"{len(m['V'])} {len(m['F'])} {ne}"]
    for p in m["V"]:
        out.append(" ".join(_spell(c, 1 if variant == 4 else 0) for c in p))
    if variant == 1:
        out.append("")
    for k, f in enumerate(m["F"]):
        sep = "  " if variant in (1, 2, 3) else " "
        colour = ""
        if variant == 2:
            colour = "  " + [f"255 {(40 * k) % 256} 0", f"{(10 * k) % 256} 128 3 255", f"{k % 7}"][k % 3]
        elif variant == 3:
            colour = "  " + ["%.3f %.3f %.3f" % (1.0, (k % 5) / 4, 0.0), "%.3f %.3f %.3f %.3f" % (0.5, 0.25, (k % 3) / 2, 1.0)][k % 2]
        out.append(f"{len(f)}" + sep + " ".join(str(v) for v in f) + colour)
    return _layout(out, variant == 4)


# ================================================================================================ TET
def parse_tet(text):
    lines = [l.split() for l in text.splitlines() if l.strip()]
    if len(lines) < 2 or len(lines[0]) < 2 or lines[0][1] != "vertices" or len(lines[1]) < 2 \
            or lines[1][1] not in ("tets", "cells"):
        raise RefParseError("header must be 'N vertices' / 'M tets'")
    nv, nc = _i(lines[0][0]), _i(lines[1][0])
    body = lines[2:]
    if len(body) != nv + nc:
        raise RefParseError(f"{len(body)} records for {nv} vertices + {nc} cells")
    m = _empty()
    for r in body[:nv]:
        if len(r) != 3:
            raise RefParseError("vertex record must have 3 coordinates")
        m["V"].append([_f(x) for x in r])
    for r in body[nv:]:
        k = _i(r[0])
        if len(r) != k + 1:
            raise RefParseError(f"cell record announces {k} vertices, has {len(r) - 1}")
        ids = [_i(x) for x in r[1:]]
        if any(not 0 <= v < nv for v in ids):
            raise RefParseError("cell index out of range")
        m["C"].append(ids)
    return m


def write_tet(m, variant=0):
    """variant 0: bare; 1: 17-digit numbers, tabs, indented records, trailing blanks, CR LF."""
    out = [f"{len(m['V'])} vertices", f"{len(m['C'])} tets"]
    for p in m["V"]:
        out.append(" ".join(_spell(c, variant) for c in p))
    for c in m["C"]:
        out.append(f"{len(c)} " + " ".join(str(v) for v in c))
    return _layout(out, variant == 1)


# ================================================================================================ XYZ
def parse_xyz(text):
    """one record 'x y z' or 'x y z a b c' (normal or colour) per line; the first line may announce the number of points"""
    m = _empty()
    announced = None
    for k, raw in enumerate(text.splitlines()):
        r = raw.split()
        if not r:
            continue
        if k == 0 and len(r) == 1:
            announced = _i(r[0])
            continue
        if len(r) not in (3, 6):
            raise RefParseError(f"xyz record with {len(r)} fields")
        m["V"].append([_f(x) for x in r[:3]])
    if announced is not None and announced != len(m["V"]):
        raise RefParseError(f"{announced} points announced, {len(m['V'])} records")
    return m


def write_xyz(m, variant=0):
    """variant 0: 'x y z'; 1: 'x y z nx ny nz'; 2: the number of points on a first line of its own; 3: 'x y z r g b'
    (integer colour), 17-digit numbers, tabs, indented records, CR LF."""
    out = [str(len(m["V"]))] if variant == 2 else []
    for k, p in enumerate(m["V"]):
        row = [_spell(c, 2 if variant == 3 else 0) for c in p]
        if variant == 1:
            row += ["0.0", "0.0", "1.0"]
        if variant == 3:
            row += ["255", str((40 * k) % 256), "0"]
        out.append(" ".join(row))
    if not out:
        return ""
    return _layout(out, variant == 3)


# ================================================================================================ geogram ASCII
_GEO_INT = {"int", "index_t", "signed_index_t", "char", "unsigned int"}
_GEO_FLOAT = {"double", "float"}
_GEO_BYTES = {"int": 4, "index_t": 4, "signed_index_t": 4, "double": 8, "float": 4, "bool": 1, "char": 1}


def _unq(s, what):
    s = s.strip()
    if len(s) < 2 or s[0] != '"' or s[-1] != '"':
        raise RefParseError(f"{what} must be a quoted string, got {s!r}")
    return s[1:-1]


def parse_geogram(text, issues=None):
    """With `issues` (a list) given, problems that leave the rest of the file interpretable are appended to it as
    (scope, message) - scope in {"faces", "cells", "attr:<set>|<name>"} - instead of raising."""
    def problem(scope, msg):
        if issues is None:
            raise RefParseError(msg)
        issues.append((scope, msg))

    lines = [_strip_comment(l).strip() for l in text.splitlines()]
    lines = [l for l in lines if l]
    ts = _Tokens(lines)
    if ts.next("[HEAD]") != "[HEAD]":
        raise RefParseError("file must start with a [HEAD] chunk")
    if _unq(ts.next(), "magic") != "GEOGRAM":
        raise RefParseError("bad magic")
    _unq(ts.next(), "version")
    sets = {}          # set name -> nb items
    attrs = []         # (set, name, type, dim, flat values)

    def body():
        out = []
        while ts.more() and not ts.t[ts.k].startswith("["):
            out.append(ts.next())
        return out

    while ts.more():
        cls = ts.next()
        if cls == "[ATTS]":
            name = _unq(ts.next(), "attribute set name"); n = _i(ts.next("item count"))
            if name in sets:
                raise RefParseError(f"attribute set {name} declared twice")
            sets[name] = n
        elif cls == "[ATTR]":
            sname = _unq(ts.next(), "set name"); aname = _unq(ts.next(), "attribute name")
            scope = f"attr:{sname}|{aname}"
            try:
                tname = _unq(ts.next(), "element type")
                esize = ts.next("element size"); dim = _i(ts.next("dimension"))
                toks = body()
                if sname not in sets:
                    raise RefParseError(f"attribute {aname} refers to undeclared attribute set {sname}")
                esize = _i(esize)
                if tname in _GEO_BYTES and esize != _GEO_BYTES[tname]:
                    raise RefParseError(f"element size {esize} for type {tname}")
                if len(toks) != sets[sname] * dim:
                    raise RefParseError(f"attribute {sname}::{aname}: {len(toks)} values for {sets[sname]} items x {dim}")
                vals = []
                for tok in toks:
                    if tname in _GEO_INT:
                        vals.append(_i(tok))
                    elif tname in _GEO_FLOAT:
                        vals.append(_f(tok))
                    elif tname == "bool":
                        if tok not in ("0", "1"):
                            raise RefParseError(f"bool value {tok!r}")
                        vals.append(tok == "1")
                    else:
                        vals.append(tok)
            except RefParseError as e:
                body()
                problem(scope, str(e))
                continue
            attrs.append((sname, aname, tname, dim, vals))
        elif cls.startswith("["):
            body()                                                    # unknown chunk class: skip
        else:
            raise RefParseError(f"stray line {cls!r}")
    m = _empty()
    byname = {(s, a): (t, d, v) for s, a, t, d, v in attrs}

    def take(s, a, dim):
        if (s, a) not in byname:
            return None
        t, d, v = byname.pop((s, a))
        if d != dim:
            raise RefParseError(f"{a} has dimension {d}")
        return v

    pts = take("GEO::Mesh::vertices", "point", 3)
    nv = sets.get("GEO::Mesh::vertices", 0)
    if pts is None and nv:
        raise RefParseError("vertices without point attribute")
    for i in range(nv):
        m["V"].append([float(pts[3 * i + k]) for k in range(3)])
    ev = take("GEO::Mesh::edges", "GEO::Mesh::edges::edge_vertex", 2)
    for i in range(sets.get("GEO::Mesh::edges", 0)):
        if ev is None:
            raise RefParseError("edges without edge_vertex")
        m["E"].append([ev[2 * i], ev[2 * i + 1]])

    def polys(scope, set_items, set_corners, ptr_name, cv_name, default_k):
        n = sets.get(set_items, 0)
        nc = sets.get(set_corners, 0)
        ptr = take(set_items, ptr_name, 1)
        cv = take(set_corners, cv_name, 1)
        out = []
        if n == 0:
            return out
        try:
            if cv is None:
                raise RefParseError(f"{set_items} without corner_vertex")
            if ptr is None:
                if nc != default_k * n:
                    raise RefParseError(f"{n} items in {set_items} and no {ptr_name.split('::')[-1]}: they are "
                                        f"{default_k}-vertex items and need {default_k * n} corners, the file has {nc}")
                ptr = [default_k * i for i in range(n)]
            bounds = list(ptr) + [nc]
            for i in range(n):
                a, b = bounds[i], bounds[i + 1]
                if not 0 <= a < b <= nc:
                    raise RefParseError(f"bad {ptr_name}")
                out.append([cv[j] for j in range(a, b)])
            for el in out:
                if any(not 0 <= v < nv for v in el):
                    raise RefParseError(f"index out of range in {set_items}: {el}")
        except RefParseError as e:
            problem(scope, str(e))
            return []
        return out

    m["F"] = polys("faces", "GEO::Mesh::facets", "GEO::Mesh::facet_corners", "GEO::Mesh::facets::facet_ptr",
                   "GEO::Mesh::facet_corners::corner_vertex", 3)
    m["C"] = polys("cells", "GEO::Mesh::cells", "GEO::Mesh::cell_corners", "GEO::Mesh::cells::cell_ptr",
                   "GEO::Mesh::cell_corners::corner_vertex", 4)
    for el in m["E"]:
        if any(not 0 <= v < nv for v in el):
            raise RefParseError(f"index out of range in edges: {el}")
    for (s, a), (t, d, v) in byname.items():
        n = sets[s]
        m["attrs"][s + "|" + a] = {"type": t, "dim": d, "values": [v[d * i:d * i + d] for i in range(n)]}
    return m


_GEO_SET_OF = {"vertices": "GEO::Mesh::vertices", "edges": "GEO::Mesh::edges", "faces": "GEO::Mesh::facets",
               "face_corners": "GEO::Mesh::facet_corners", "cells": "GEO::Mesh::cells",
               "cell_corners": "GEO::Mesh::cell_corners", "cell_faces": "GEO::Mesh::cell_facets"}


_NO_ID = 4294967295


def _facet_adjacency(F):
    """per facet corner k (edge f[k] -> f[k+1]): the one other facet on that edge, else NO_FACET (geogram's convention)"""
    on = {}
    for i, f in enumerate(F):
        for a, b in zip(f, list(f[1:]) + [f[0]]):
            on.setdefault((min(a, b), max(a, b)), []).append(i)
    out = []
    for i, f in enumerate(F):
        for a, b in zip(f, list(f[1:]) + [f[0]]):
            others = [j for j in on[(min(a, b), max(a, b))] if j != i]
            out.append(others[0] if len(others) == 1 else _NO_ID)
    return out


def tet_adjacency(C):
    """per tetrahedron c and local facet k (the facet opposite to local vertex k): the one other cell holding the same
    three vertices, else NO_CELL (geogram's convention for GEO::Mesh::cell_facets::adjacent_cell)"""
    out = []
    for i, c in enumerate(C):
        for k in range(4):
            facet = set(c) - {c[k]}
            others = [j for j, d in enumerate(C) if j != i and facet <= set(d)]
            out.append(others[0] if len(others) == 1 else _NO_ID)
    return out


def write_geogram(m, variant=0):
    """variant 0: bare; variant 1: with the explanatory comments geogram itself writes after every header line;
    variant 2: every [ATTS] chunk first, then the [ATTR] chunks, and facet_ptr written although every facet is a triangle
    (both optional choices of a writer); variant 3: as 0 plus the adjacency attributes geogram itself stores
    (facet_corners::corner_adjacent_facet, and cell_facets::adjacent_cell when every cell is a tetrahedron)."""
    cm = (lambda s: " # " + s) if variant == 1 else (lambda s: "")
    head = ["[HEAD]", '"GEOGRAM"', '"1.0"']
    chunks = []        # ("ATTS" | "ATTR", lines) in the natural interleaved order

    def atts(name, n):
        chunks.append(("ATTS", ["[ATTS]", f'"{name}"' + cm("this is the name of this attribute set"),
                                f"{n}" + cm("this is the number of items in this attribute set")]))

    def attr(sname, aname, tname, dim, flat):
        out = ["[ATTR]", f'"{sname}"' + cm("this is the name of the attribute set this attribute belongs to"),
               f'"{aname}"' + cm("this is the name of this attribute"),
               f'"{tname}"' + cm("this is the type of the elements in this attribute"),
               f"{_GEO_BYTES[tname]}" + cm("this is the size of an element (in bytes)"),
               f"{dim}" + cm("this is the number of elements per item")]
        for v in flat:
            if tname == "bool":
                out.append("1" if v else "0")
            elif tname in _GEO_FLOAT:
                out.append(repr(float(v)))
            else:
                out.append(str(int(v)))
        chunks.append(("ATTR", out))

    def user(key):
        for k, a in sorted(m.get("attrs", {}).items()):
            s, name = k.split("|", 1)
            if s == key:
                attr(s, name, a["type"], a["dim"], [x for row in a["values"] for x in row])

    atts("GEO::Mesh::vertices", len(m["V"]))
    attr("GEO::Mesh::vertices", "point", "double", 3, [c for p in m["V"] for c in p])
    user("GEO::Mesh::vertices")
    if m["E"]:
        atts("GEO::Mesh::edges", len(m["E"]))
        attr("GEO::Mesh::edges", "GEO::Mesh::edges::edge_vertex", "index_t", 2, [v for e in m["E"] for v in e])
        user("GEO::Mesh::edges")
    if m["F"]:
        atts("GEO::Mesh::facets", len(m["F"]))
        if variant == 2 or any(len(f) != 3 for f in m["F"]):
            ptr, k = [], 0
            for f in m["F"]:
                ptr.append(k); k += len(f)
            attr("GEO::Mesh::facets", "GEO::Mesh::facets::facet_ptr", "index_t", 1, ptr)
        user("GEO::Mesh::facets")
        atts("GEO::Mesh::facet_corners", sum(len(f) for f in m["F"]))
        attr("GEO::Mesh::facet_corners", "GEO::Mesh::facet_corners::corner_vertex", "index_t", 1,
             [v for f in m["F"] for v in f])
        if variant == 3:
            attr("GEO::Mesh::facet_corners", "GEO::Mesh::facet_corners::corner_adjacent_facet", "index_t", 1,
                 _facet_adjacency(m["F"]))
        user("GEO::Mesh::facet_corners")
    if m["C"]:
        atts("GEO::Mesh::cells", len(m["C"]))
        if any(len(c) != 4 for c in m["C"]):
            ptr, k = [], 0
            for c in m["C"]:
                ptr.append(k); k += len(c)
            attr("GEO::Mesh::cells", "GEO::Mesh::cells::cell_ptr", "index_t", 1, ptr)
        user("GEO::Mesh::cells")
        atts("GEO::Mesh::cell_corners", sum(len(c) for c in m["C"]))
        attr("GEO::Mesh::cell_corners", "GEO::Mesh::cell_corners::corner_vertex", "index_t", 1,
             [v for c in m["C"] for v in c])
        user("GEO::Mesh::cell_corners")
        adj = variant == 3 and all(len(c) == 4 for c in m["C"])
        if adj or any(k.split("|", 1)[0] == "GEO::Mesh::cell_facets" for k in m.get("attrs", {})):
            atts("GEO::Mesh::cell_facets", sum(len(c) if len(c) == 4 else 6 for c in m["C"]))
            if adj:
                attr("GEO::Mesh::cell_facets", "GEO::Mesh::cell_facets::adjacent_cell", "index_t", 1, tet_adjacency(m["C"]))
            user("GEO::Mesh::cell_facets")
    if variant == 2:
        chunks.sort(key=lambda c: c[0] != "ATTS")          # stable: the [ATTS] chunks move to the front, order kept
    return "\n".join(head + [l for _, ls in chunks for l in ls]) + "\n"


GEO_BUILTIN_ATTRS = ("GEO::Mesh::facet_corners|GEO::Mesh::facet_corners::corner_adjacent_facet",
                     "GEO::Mesh::cell_facets|GEO::Mesh::cell_facets::adjacent_cell")


# ================================================================================================ STL
def parse_stl_binary(data: bytes):
    """-> list of triangles, each 3 points of 3 float32-valued Python floats."""
    if len(data) < 84:
        raise RefParseError(f"binary STL shorter than its 84-byte preamble ({len(data)} bytes)")
    (n,) = struct.unpack_from("<I", data, 80)
    if len(data) != 84 + 50 * n:
        raise RefParseError(f"binary STL announces {n} facets, size is {len(data)} bytes")
    tris = []
    for k in range(n):
        vals = struct.unpack_from("<12fH", data, 84 + 50 * k)
        tris.append([list(vals[3:6]), list(vals[6:9]), list(vals[9:12])])
    return tris


def _normal(t):
    (ax, ay, az), (bx, by, bz), (cx, cy, cz) = t
    u, v = (bx - ax, by - ay, bz - az), (cx - ax, cy - ay, cz - az)
    n = (u[1] * v[2] - u[2] * v[1], u[2] * v[0] - u[0] * v[2], u[0] * v[1] - u[1] * v[0])
    try:
        l = (n[0] * n[0] + n[1] * n[1] + n[2] * n[2]) ** 0.5
        n = [f32(c / l) for c in n] if 0.0 < l < float("inf") else [0.0, 0.0, 0.0]
    except (OverflowError, ZeroDivisionError):
        n = [0.0, 0.0, 0.0]
    return [c if c == c else 0.0 for c in n]


def write_stl_binary(tris, variant=0):
    """variant 0: zero normals, zero attribute words, text header; variant 1: the optional parts filled in - computed
    unit normals, a non-zero 'attribute byte count' word per facet (the colour extension of some exporters) and a
    header of arbitrary bytes."""
    if variant == 0:
        out = [struct.pack("<80sI", b"reference STL writer", len(tris))]
    else:
        out = [struct.pack("<80sI", bytes([0x80 + (k * 7) % 120 for k in range(80)]), len(tris))]
    for k, t in enumerate(tris):
        flat = ([0.0, 0.0, 0.0] if variant == 0 else _normal(t)) + [c for p in t for c in p]
        out.append(struct.pack("<12fH", *flat, 0 if variant == 0 else 0x8000 | (k * 1057) % 0x7FFF))
    return b"".join(out)


def write_stl_ascii(tris, variant=0):
    """variant 0: zero normals, named solid; variant 1: computed normals, 17-digit exponent notation (exact),
    unnamed solid, tabs for the indentation, CR LF line ends."""
    if variant == 0:
        out = ["solid ref"]
        for t in tris:
            out.append("  facet normal 0.0 0.0 0.0")
            out.append("    outer loop")
            for p in t:
                out.append("      vertex " + " ".join(repr(float(c)) for c in p))
            out.append("    endloop")
            out.append("  endfacet")
        out.append("endsolid ref")
        return "\n".join(out) + "\n"
    e = lambda c: "%.16e" % c
    out = ["solid"]
    for t in tris:
        out.append("\tfacet normal " + " ".join(e(c) for c in _normal(t)))
        out.append("\t\touter loop")
        for p in t:
            out.append("\t\t\tvertex  " + "  ".join(e(c) for c in p))
        out.append("\t\tendloop")
        out.append("\tendfacet")
    out.append("endsolid")
    return "".join(l + "\r\n" for l in out)


def f32(x):
    """Round a Python float to the nearest float32 (raises OverflowError outside the float32 range)."""
    return struct.unpack("<f", struct.pack("<f", x))[0]


# ================================================================================================ constructs
# Valid constructs of the formats that a conforming independent writer may emit and that have a POSITION in the file
# (first / middle / last record, end of file).  construct_files(fmt, model) -> [(construct, position, text)], every
# text is a complete file that means `model` to the reference parser of the format (checked by selftest()).
def _positions(n):
    """(name, index) of the first / middle / last of n records; coinciding positions are listed once"""
    out = []
    for name, i in (("first", 0), ("last", n - 1), ("middle", n // 2)):
        if n > 0 and all(i != j for _, j in out):
            out.append((name, i))
    return sorted(out, key=lambda x: x[1])


def _join(lines):
    return "\n".join(lines) + "\n"


def _blank_line_files(lines, records):
    """one blank line before the first / middle / last record (records = indices into lines) and one after the last line"""
    out = []
    for pos, k in _positions(len(records)):
        i = records[k]
        out.append((pos, _join(lines[:i] + [""] + lines[i:])))
    if records:
        out.append(("end", _join(lines + [""])))
    return out


def _comment_line_files(lines, records, trailing, mark="# "):
    """a comment line before the first / middle / last record (plus, where the format ends a record at the end of its
    line, a comment after that record on the same line) and a comment line after the last line of the file"""
    out = []
    for pos, k in _positions(len(records)):
        i = records[k]
        rec = lines[i] + (" " + mark + "record " + str(k) if trailing else "")
        out.append((pos, _join(lines[:i] + [mark + "a comment before record " + str(k), rec] + lines[i + 1:])))
    if records:
        out.append(("end", _join(lines + [mark + "end of the data"])))
    return out


def _obj_v(p):
    return "v " + " ".join(_spell(c) for c in p)


def obj_relative_files(m):
    """OBJ: 'A negative index refers to the vertex that many positions before the record': the vertices are written just
    before the first record that needs them (the usual layout of exporters that write relative indices), and the first /
    middle / last / every l and f record uses relative indices."""
    recs = [("l", e) for e in m["E"]] + [("f", f) for f in m["F"]]
    out = []
    for pos, sel in _positions(len(recs)) + ([("all", None)] if len(recs) > 1 else []):
        lines, seen = [], 0
        for k, (key, ids) in enumerate(recs):
            while seen <= max(ids):
                lines.append(_obj_v(m["V"][seen])); seen += 1
            rel = sel is None or k == sel
            lines.append(key + " " + " ".join(str(v - seen) if rel else str(v + 1) for v in ids))
        lines += [_obj_v(p) for p in m["V"][seen:]]
        out.append((pos, _join(lines)))
    return out


def _trails(E):
    """deterministic decomposition of an edge list into trails (each edge used once): start at the smallest vertex of
    odd degree (else the smallest vertex that still has an edge), always leave by the smallest neighbour"""
    left = [(min(a, b), max(a, b)) for a, b in E]
    out = []
    while left:
        deg = {}
        for a, b in left:
            deg[a] = deg.get(a, 0) + 1; deg[b] = deg.get(b, 0) + 1
        odd = sorted(v for v in deg if deg[v] % 2)
        cur = odd[0] if odd else min(deg)
        trail = [cur]
        while True:
            cand = sorted((b if a == cur else a, k) for k, (a, b) in enumerate(left) if cur in (a, b))
            if not cand:
                break
            cur, k = cand[0]
            left.pop(k)
            trail.append(cur)
        out.append(trail)
    return out


def obj_polyline_files(m):
    """OBJ: 'l v1 v2 v3 ...' is a polyline through all its vertices: the edges are written as trails, and the first /
    middle / last / every trail with more than two vertices is ONE record (the others one record per segment)."""
    trails = _trails(m["E"])
    long = [k for k, t in enumerate(trails) if len(t) > 2]
    out = []
    for pos, sel in _positions(len(long)) + ([("all", None)] if len(long) > 1 else []):
        lines = [_obj_v(p) for p in m["V"]]
        for k, t in enumerate(trails):
            if sel is None or k == long[sel]:
                lines.append("l " + " ".join(str(v + 1) for v in t))
            else:
                lines += [f"l {a + 1} {b + 1}" for a, b in zip(t, t[1:])]
        lines += ["f " + " ".join(str(v + 1) for v in f) for f in m["F"]]
        out.append((pos, _join(lines)))
    return out


def _medit_blocks(m):
    one = lambda rows: [[v + 1 for v in r] for r in rows]
    blocks = [("Vertices", [[_spell(c) for c in p] for p in m["V"]])]
    for name, rows in (("Edges", m["E"]), ("Triangles", [f for f in m["F"] if len(f) == 3]),
                       ("Quadrilaterals", [f for f in m["F"] if len(f) == 4]),
                       ("Tetrahedra", [c for c in m["C"] if len(c) == 4]), ("Hexahedra", [c for c in m["C"] if len(c) == 8])):
        if rows:
            blocks.append((name, one(rows)))
    return blocks


def _medit_lines(blocks, oneline=(), dim=3):
    """-> (lines, indices of the record lines); the keyword and the count of the blocks in `oneline` share a line"""
    lines, records = ["MeshVersionFormatted 2", f"Dimension {dim}"], []
    for b, (name, rows) in enumerate(blocks):
        lines += [f"{name} {len(rows)}"] if b in oneline else [name, str(len(rows))]
        for k, r in enumerate(rows):
            records.append(len(lines))
            lines.append(" ".join(str(x) for x in r) + f" {1 + (k + b) % 3}")
    lines.append("End")
    return lines, records


def medit_oneline_files(m):
    """medit: keywords and numbers are a free token stream, so 'Vertices 4' on one line is the same as on two: the
    first / middle / last / every block has its keyword and count on one line"""
    blocks = _medit_blocks(m)
    out = []
    for pos, sel in _positions(len(blocks)) + ([("all", None)] if len(blocks) > 1 else []):
        lines, _ = _medit_lines(blocks, range(len(blocks)) if sel is None else (sel,))
        out.append((pos, _join(lines)))
    return out


def medit_blank_files(m):
    lines, records = _medit_lines(_medit_blocks(m))
    return [(pos, t) for pos, t in _blank_line_files(lines, records) if pos != "end"]


def medit_dim2_files(m):
    """medit 'Dimension 2': every vertex record is 'x y ref' (what 2D mesh generators write); only for planar models"""
    if not m["V"] or any(not (p[2] == 0.0 and str(p[2]) == "0.0") for p in m["V"]):
        return []
    blocks = _medit_blocks(m)
    blocks[0] = ("Vertices", [r[:2] for r in blocks[0][1]])
    return [("whole", _join(_medit_lines(blocks, dim=2)[0]))]


def off_files(m, which):
    lines = _lines(write_off(m, 0))
    if which == "counts_on_header_line":
        return [("whole", _join(["OFF " + lines[1]] + lines[2:]))]
    return _comment_line_files(lines, list(range(1, len(lines))), True)


def _lines(text):
    return text.split("\n")[:-1] if text else []


def _geogram_lines(m):
    lines = _lines(write_geogram(m, 0))
    return lines, list(range(3, len(lines)))


CONSTRUCTS = {
    "obj": [("relative_indices", obj_relative_files), ("polyline_records", obj_polyline_files)],
    "mesh": [("keyword_count_one_line", medit_oneline_files), ("blank_lines_in_block", medit_blank_files),
             ("dimension_2", medit_dim2_files)],
    "off": [("comment_lines", lambda m: off_files(m, "comment_lines")),
            ("counts_on_header_line", lambda m: off_files(m, "counts_on_header_line"))],
    "tet": [("blank_lines", lambda m: _blank_line_files(_lines(write_tet(m, 0)), list(range(2, 2 + len(m["V"]) + len(m["C"])))))],
    "xyz": [("blank_lines", lambda m: _blank_line_files(_lines(write_xyz(m, 0)), list(range(len(m["V"])))))],
    "geogram_ascii": [("blank_lines", lambda m: _blank_line_files(*_geogram_lines(m))),
                      ("comment_lines", lambda m: _comment_line_files(*_geogram_lines(m), False))],
}
CONSTRUCT_POSITIONS = {
    ("obj", "relative_indices"): ["first", "middle", "last", "all"], ("obj", "polyline_records"): ["first", "middle", "last", "all"],
    ("mesh", "keyword_count_one_line"): ["first", "middle", "last", "all"], ("mesh", "blank_lines_in_block"): ["first", "middle", "last"],
    ("mesh", "dimension_2"): ["whole"], ("off", "comment_lines"): ["first", "middle", "last", "end"],
    ("off", "counts_on_header_line"): ["whole"], ("tet", "blank_lines"): ["first", "middle", "last", "end"],
    ("xyz", "blank_lines"): ["first", "middle", "last", "end"], ("geogram_ascii", "blank_lines"): ["first", "middle", "last", "end"],
    ("geogram_ascii", "comment_lines"): ["first", "middle", "last", "end"],
    ("stl-ascii", "blank_lines"): ["first", "middle", "last", "end"],
}


def construct_files(fmt, model):
    """-> [(construct, position, text)] for a text format; files with identical text are listed once per construct"""
    out = []
    for tag, fn in CONSTRUCTS.get(fmt, ()):
        seen = set()
        for pos, text in fn(model):
            if text not in seen:
                seen.add(text)
                out.append((tag, pos, text))
    return out


def stl_construct_files(tris):
    """ASCII STL is a token stream ('white space may be used anywhere except within numbers or words'): a blank line after
    the 'solid' line, before a middle line, before 'endsolid' and at the end of the file -> [(construct, position, bytes)]"""
    if not tris:
        return []
    lines = _lines(write_stl_ascii(tris))
    return [("blank_lines", pos, t.encode()) for pos, t in _blank_line_files(lines, list(range(1, len(lines))))]


def parse_stl_ascii(text):
    """token-stream reader of ASCII STL (used by the self-test of the construct files only) -> triangles"""
    ts = _Tokens(text.split())
    if ts.next("solid") != "solid":
        raise RefParseError("ASCII STL must start with 'solid'")
    if ts.more() and ts.t[ts.k] not in ("facet", "endsolid"):
        ts.next()
    tris = []
    while True:
        t = ts.next("facet or endsolid")
        if t == "endsolid":
            return tris
        for want in ("facet", "normal", None, None, None, "outer", "loop"):
            if want is None:
                _f(ts.next("normal component"))
            elif (t if want == "facet" else ts.next(want)) != want:
                raise RefParseError(f"expected {want!r}")
        tri = []
        for _ in range(3):
            if ts.next("vertex") != "vertex":
                raise RefParseError("expected 'vertex'")
            tri.append([_f(ts.next("coordinate")) for _ in range(3)])
        if ts.next("endloop") != "endloop" or ts.next("endfacet") != "endfacet":
            raise RefParseError("expected 'endloop' 'endfacet'")
        tris.append(tri)


# ================================================================================================ carried attributes
# What a file says about the well-known attributes some formats carry next to the geometry: per-vertex normals and
# texture coordinates of OBJ (vn / vt records, referred to corner by corner in the 'f' records), the three extra columns
# of an xyz record, the facet normals of STL.  Readers and writers of exactly these records, nothing else.
def parse_obj_refs(text):
    """-> {"VT": [[u, v], ...], "VN": [[x, y, z], ...], "F": [[vertex per corner], ...], "FT": [[vt index or None per corner],
    ...], "FN": [[vn index or None per corner], ...]} (0-based; relative references resolved where the record stands)"""
    vt, vn, nv, recs = [], [], 0, []
    for raw in text.splitlines():
        toks = _strip_comment(raw).split()
        if not toks:
            continue
        key, args = toks[0], toks[1:]
        if key == "v":
            nv += 1
        elif key == "vt":
            if len(args) < 2:
                raise RefParseError("vt with fewer than 2 numbers")
            vt.append([_f(a) for a in args[:2]])
        elif key == "vn":
            if len(args) != 3:
                raise RefParseError(f"vn with {len(args)} numbers")
            vn.append([_f(a) for a in args])
        elif key == "f":
            recs.append((args, nv, len(vt), len(vn)))

    def res(tok, seen, total, what):
        i = _i(tok)
        if i == 0:
            raise RefParseError(f"{what} index 0")
        i = i - 1 if i > 0 else seen + i
        if not 0 <= i < total:
            raise RefParseError(f"{what} reference {tok} out of range")
        return i

    out = {"VT": vt, "VN": vn, "F": [], "FT": [], "FN": []}
    for args, sv, st, sn in recs:
        fv, ft, fn = [], [], []
        for a in args:
            parts = a.split("/")
            if len(parts) > 3:
                raise RefParseError(f"corner reference {a!r}")
            fv.append(res(parts[0], sv, nv, "vertex"))
            ft.append(res(parts[1], st, len(vt), "vt") if len(parts) > 1 and parts[1] else None)
            fn.append(res(parts[2], sn, len(vn), "vn") if len(parts) > 2 and parts[2] else None)
        out["F"].append(fv); out["FT"].append(ft); out["FN"].append(fn)
    return out


def write_obj_carried(m, VN=None, VT=None):
    """OBJ file of the model m carrying one normal per vertex (VN, len == number of vertices) and / or one texture
    coordinate per face corner (VT, corners counted face after face).  The vn / vt records are written in REVERSE order, so
    that the number of a record never equals the number of the vertex / corner that refers to it (except in the middle)."""
    out = ["v " + " ".join(repr(float(c)) for c in p) for p in m["V"]]
    nv, nc = len(m["V"]), sum(len(f) for f in m["F"])
    if VT is not None:
        out += ["vt " + " ".join(repr(float(c)) for c in t) for t in reversed(VT)]
    if VN is not None:
        out += ["vn " + " ".join(repr(float(c)) for c in n) for n in reversed(VN)]
    out += [f"l {a + 1} {b + 1}" for a, b in m["E"]]
    c = 0
    for f in m["F"]:
        parts = []
        for v in f:
            t = str(nc - c) if VT is not None else ""
            n = str(nv - v) if VN is not None else ""
            parts.append(f"{v + 1}/{t}/{n}" if VN is not None else f"{v + 1}/{t}" if VT is not None else f"{v + 1}")
            c += 1
        out.append("f " + " ".join(parts))
    return "\n".join(out) + "\n"


def parse_xyz_extra(text):
    """the columns after the coordinates, one list per point record (empty for a three-column record)"""
    rows = []
    for k, raw in enumerate(text.splitlines()):
        r = raw.split()
        if not r or (k == 0 and len(r) == 1):
            continue
        if len(r) not in (3, 6):
            raise RefParseError(f"xyz record with {len(r)} fields")
        rows.append([_f(x) for x in r[3:]])
    return rows


def write_xyz_carried(m, N):
    return "".join(" ".join(repr(float(c)) for c in list(p) + list(n)) + "\n" for p, n in zip(m["V"], N))


def parse_stl_binary_normals(data: bytes):
    parse_stl_binary(data)
    (n,) = struct.unpack_from("<I", data, 80)
    return [list(struct.unpack_from("<3f", data, 84 + 50 * k)) for k in range(n)]


def write_stl_ascii_carried(tris, normals):
    out = ["solid carried"]
    for t, n in zip(tris, normals):
        out.append("facet normal " + " ".join(repr(float(c)) for c in n))
        out.append(" outer loop")
        out += ["  vertex " + " ".join(repr(float(c)) for c in p) for p in t]
        out += [" endloop", "endfacet"]
    out.append("endsolid carried")
    return "\n".join(out) + "\n"


def parse_stl_ascii_normals(text):
    """the 'facet normal' triples of an ASCII STL, in file order (the file must be one the token-stream reader accepts)"""
    parse_stl_ascii(text)
    toks = text.split()
    return [[_f(toks[k + 2]), _f(toks[k + 3]), _f(toks[k + 4])] for k in range(len(toks) - 4)
            if toks[k] == "facet" and toks[k + 1] == "normal"]


def selftest_carried():
    m = {"V": [[0.0, 0.5, 1.0], [1.0, 0.0, 2.0], [1.0, 1.0, -3.0], [0.0, 1.0, 0.25], [7.0, 8.0, 9.0]], "E": [[0, 4]],
         "F": [[0, 1, 2], [2, 3, 0, 1]], "C": [], "attrs": {}}
    VN = [[0.1 * i, -1.0 * i, 1.0 / 3 + i] for i in range(5)]
    VT = [[c / 8.0, 1.0 - c / 16.0] for c in range(7)]
    for vn, vt in ((VN, None), (None, VT), (VN, VT), (None, None)):
        text = write_obj_carried(m, vn, vt)
        geo, r = parse_obj(text), parse_obj_refs(text)
        assert geo["V"] == m["V"] and geo["F"] == m["F"] == r["F"] and geo["E"] == m["E"], (vn, vt)
        c = 0
        for f, ft, fn in zip(r["F"], r["FT"], r["FN"]):
            for v, t, n in zip(f, ft, fn):
                assert (n is None) == (vn is None) and (t is None) == (vt is None)
                assert vn is None or r["VN"][n] == VN[v]
                assert vt is None or r["VT"][t] == VT[c]
                c += 1
        assert vn is None or any(n != v for f, fn in zip(r["F"], r["FN"]) for v, n in zip(f, fn))
    rel = parse_obj_refs("v 0 0 0\nv 1 0 0\nv 0 1 0\nvt 0 0\nvt 1 1\nvn 0 0 1\nf -3/-2/-1 -2/-1/1 3//1\n")
    assert rel["F"] == [[0, 1, 2]] and rel["FT"] == [[0, 1, None]] and rel["FN"] == [[0, 0, 0]]
    text = write_xyz_carried(m, VN)
    assert parse_xyz(text)["V"] == m["V"] and parse_xyz_extra(text) == VN and parse_xyz_extra("3\n1 2 3\n") == [[]]
    tris = [[[0.0, 0.5, 1.0], [f32(0.1), 2.0, 3.0], [-1.0, -2.0, 4.0]], [[1.0, 0.0, 0.0], [0.0, 1.0, 0.0], [0.0, 0.0, 1.0]]]
    nrm = [[0.25, -0.5, 2.0], [f32(0.1), 0.0, -1.0]]
    text = write_stl_ascii_carried(tris, nrm)
    assert parse_stl_ascii(text) == tris and parse_stl_ascii_normals(text) == nrm
    assert parse_stl_binary_normals(write_stl_binary(tris, 1)) == [_normal(t) for t in tris]
    assert parse_stl_binary_normals(write_stl_binary(tris)) == [[0.0, 0.0, 0.0]] * 2
    return True


# ================================================================================================ registry
PARSERS = {"obj": parse_obj, "mesh": parse_medit, "off": parse_off, "tet": parse_tet, "xyz": parse_xyz,
           "geogram_ascii": parse_geogram}
WRITERS = {"obj": write_obj, "mesh": write_medit, "off": write_off, "tet": write_tet, "xyz": write_xyz,
           "geogram_ascii": write_geogram}
N_VARIANTS = {"obj": 7, "mesh": 4, "off": 5, "tet": 2, "xyz": 4, "geogram_ascii": 4}
# the optional construct of the format a variant exercises (None: the variant uses only what every file of the format has)
VARIANT_TAG = {"obj": [None, None, None, None, None, "vertex-weight-colour", "layout"],
               "mesh": [None, None, "skippable-blocks", "layout"],
               "off": [None, None, "face-colour-int", "face-colour-float", "layout"],
               "tet": [None, "layout"],
               "xyz": [None, None, "count-line", "colour+layout"],
               "geogram_ascii": [None, None, "atts-first+explicit-facet_ptr", "adjacency-attributes"]}
STL_VARIANTS = [("binary", None), ("ascii", None), ("binary-attr", "normals+attribute-words"), ("ascii-decorated", "layout")]


def stl_blob(tris, name):
    return {"binary": lambda: write_stl_binary(tris), "ascii": lambda: write_stl_ascii(tris).encode(),
            "binary-attr": lambda: write_stl_binary(tris, 1), "ascii-decorated": lambda: write_stl_ascii(tris, 1).encode()}[name]()


def selftest():
    """Every writer/parser pair of this module is mutually consistent on a small model (run by the driver)."""
    V = [[0.0, -0.0, 1.0], [-1.5, 0.1, 1 / 3], [1e-30, -1e30, 5e-324], [1.7976931348623157e308, 123456789.12345679, 2.0],
         [1.0, 1.0, 1.0], [2.0, 0.0, 0.0], [2.0, 1.0, 0.0], [0.0, 3.0, 1.0]]
    hexa = lambda x: [[c.hex() for c in p] for p in x]
    base = {"V": V, "E": [[0, 1], [2, 3]], "F": [[0, 1, 2], [0, 2, 3, 4], [4, 3, 2, 1, 0]],
            "C": [[0, 1, 2, 3], [0, 1, 2, 3, 4, 5, 6, 7]], "attrs": {}}
    vocab = {"obj": "VEF", "mesh": "VEFC", "off": "VF", "tet": "VC", "xyz": "V", "geogram_ascii": "VEFC"}
    for fmt, par in PARSERS.items():
        for var in range(N_VARIANTS[fmt]):
            m = {k: (base[k] if k in vocab[fmt] else []) for k in "VEFC"}
            m["attrs"] = {}
            if fmt == "mesh":
                m["F"] = [f for f in m["F"] if len(f) in (3, 4)]
            if fmt == "geogram_ascii":
                m["attrs"] = {"GEO::Mesh::vertices|w": {"type": "double", "dim": 2, "values": [[float(i), 0.5] for i in range(8)]},
                              "GEO::Mesh::facets|b": {"type": "bool", "dim": 1, "values": [[True], [False], [True]]}}
            back = par(WRITERS[fmt](m, var))
            if fmt == "geogram_ascii" and var == 3:
                assert GEO_BUILTIN_ATTRS[0] in back["attrs"], (fmt, var)
                for key in GEO_BUILTIN_ATTRS:
                    back["attrs"].pop(key, None)
            want_F = m["F"]
            if fmt == "mesh" and var == 1:
                want_F = [f for f in m["F"] if len(f) == 4] + [f for f in m["F"] if len(f) == 3]
            assert hexa(back["V"]) == hexa(m["V"]), (fmt, var, "V")
            assert back["E"] == m["E"] and back["F"] == want_F and back["C"] == m["C"], (fmt, var, back)
            assert back["attrs"] == m["attrs"], (fmt, var, back["attrs"])
    tris = [[[0.0, 0.5, 1.0], [f32(0.1), 2.0, 3.0], [-1.0, -2.0, f32(1e30)]]]
    assert parse_stl_binary(write_stl_binary(tris)) == tris
    assert parse_stl_binary(write_stl_binary(tris, 1)) == tris
    assert all(float(_spell(x, k)) == x for k in (0, 1, 2) for x in (0.1, 1 / 3, 1e-30, -1e30, 5e-324, 1.7976931348623157e308))
    assert tet_adjacency([[0, 1, 2, 3], [1, 2, 3, 4]]) == [1] + [_NO_ID] * 6 + [0]
    assert all(len(VARIANT_TAG[f]) == N_VARIANTS[f] for f in N_VARIANTS)
    # every construct file means the model it was written from to the reference reader, every position is produced
    flat = [[p[0], p[1], 0.0] for p in V]
    path = {"V": V, "E": [[0, 1], [2, 0], [0, 3], [0, 4], [5, 0], [0, 6], [6, 7]], "F": base["F"], "C": base["C"], "attrs": {}}
    produced = set()
    for fmt, par in PARSERS.items():
        for src in (base, path, dict(base, V=flat)):
            m = {k: (src[k] if k in vocab[fmt] else []) for k in "VEFC"}
            m["attrs"] = {}
            if fmt == "mesh":
                m["F"] = [f for f in m["F"] if len(f) in (3, 4)]
            for tag, pos, text in construct_files(fmt, m):
                back = par(text)
                produced.add((fmt, tag, pos))
                assert hexa(back["V"]) == hexa(m["V"]), (fmt, tag, pos, "V")
                assert sorted(sorted(e) for e in back["E"]) == sorted(sorted(e) for e in m["E"]), (fmt, tag, pos, back["E"])
                assert back["F"] == m["F"] and back["C"] == m["C"] and back["attrs"] == m["attrs"], (fmt, tag, pos, back)
                assert text != WRITERS[fmt](m, 0), (fmt, tag, pos)
    two = tris + [[[1.0, 0.0, 0.0], [0.0, 1.0, 0.0], [0.0, 0.0, 1.0]]]
    for tag, pos, blob in stl_construct_files(two):
        assert parse_stl_ascii(blob.decode()) == two, (tag, pos)
        produced.add(("stl-ascii", tag, pos))
    assert parse_stl_ascii(write_stl_ascii(two)) == two and parse_stl_ascii(write_stl_ascii(two, 1)) == two
    want = {(f, t, p) for (f, t), ps in CONSTRUCT_POSITIONS.items() for p in ps}
    assert produced == want, (produced ^ want)
    assert _trails([[0, 1], [2, 1], [2, 0], [2, 3]]) == [[2, 0, 1, 2, 3]]
    return True
