"""Regenerates /verif/MANIFEST.json from the drivers present in props/ (python3 -m mc.manifest_gen)."""
import importlib, json, os, sys, glob
VERIF = os.path.dirname(os.path.dirname(os.path.abspath(__file__)))
sys.path.insert(0, VERIF)

NOT_APPLICABLE_REASON = "no check built yet for this property in this round (see DESIGN.md section 4 for the planned exploration)"

def main():
    props = [json.loads(l) for l in open(os.path.join(VERIF, "properties.jsonl"))]
    have = sorted(os.path.basename(p)[:-3].upper() for p in glob.glob(os.path.join(VERIF, "props", "c[0-9]*.py")))
    # only drivers that have been reviewed and integrated are claimed (one id per line in claimed.txt)
    claimed = set(open(os.path.join(VERIF, "claimed.txt")).read().split())
    have = [h for h in have if h in claimed]
    checks, na = [], []
    for p in props:
        pid = p["id"]
        if pid not in have:
            na.append({"property_id": pid, "reason": NOT_APPLICABLE_REASON})
            continue
        src = open(os.path.join(VERIF, "props", pid.lower() + ".py")).read()
        meta = {}
        # read driver metadata without importing mouette
        import ast
        tree = ast.parse(src)
        for node in tree.body:
            if isinstance(node, ast.Assign) and len(node.targets) == 1 and isinstance(node.targets[0], ast.Name):
                n = node.targets[0].id
                if n in ("RULE", "LEVEL_TEXT", "LEVEL_NOTE", "TECHNIQUE", "DESIGN_REF"):
                    try:
                        meta[n] = ast.literal_eval(node.value)
                    except Exception:
                        pass
        checks.append({
            "property_id": pid,
            "quick_cmd": f"./check {pid} --tier quick",
            "thorough_cmd": f"./check {pid} --tier thorough",
            "evidence_file": f"/verif/evidence/{pid}.json",
            "replay_cmd_template": f"./check {pid} --replay {{path}}",
            "engine": "mc-python",
            "level_claimed": {
                "category": "model_checking",
                "text": meta.get("LEVEL_TEXT") or ("bounded exhaustive exploration of the real code: " + meta.get("RULE", "")),
                "design_ref": meta.get("DESIGN_REF", f"DESIGN.md section 4, {pid}"),
            },
            "level_note": meta.get("LEVEL_NOTE", "trusted base: the reference model/oracle in props/%s.py and mc/; bounds as reported in the evidence file; nothing is claimed beyond those bounds" % pid.lower()),
            "technique": meta.get("TECHNIQUE", "explicit-state / bounded-exhaustive enumeration of executions of the real code against a reference model"),
        })
    man = {
        "version": 1,
        "setup_cmd": "cd /verif && /venv/bin/python -B -m mc.setup",
        "hooks": {
            "guard": "MOUETTE_VERIF",
            "enable": "no source hooks: seams are installed from the harness by rebinding module globals; checks import mouette from /repo's working tree (VERIF_REPO overrides)",
            "baseline_off_cmd": "cd /repo && /venv/bin/python -m pytest -ra -q -p no:cacheprovider --timeout=900 --continue-on-collection-errors",
            "source_commits": [],
            "add_only": True,
        },
        "engines": [{"name": "mc-python", "path": "/verif/mc", "serves_properties": have,
                     "kind_free_text": "hand-written explicit-state explorer and bounded-exhaustive enumerators driving the real mouette code against reference models"}],
        "checks": checks,
        "not_applicable": na,
        "notes": "exit 0 held / 1 VIOLATION / 2 harness error; known findings in /verif/known_findings.json; see DESIGN.md",
    }
    with open(os.path.join(VERIF, "MANIFEST.json"), "w") as f:
        json.dump(man, f, indent=1)
    print("MANIFEST.json:", len(checks), "checks,", len(na), "not yet claimed")

if __name__ == "__main__":
    main()
