"""C01 helper: input-form deviations added in round 5 (used only by props/c01.py).

Two dimensions of the input space, each applied to the WHOLE mesh family of the driver through its
`_build` hook, so that the unchanged cache-state BFS (every accessor on its whole domain, every state,
the unchanged oracle and judges) runs on the deviating object:

1. INDEX DTYPE (`dtype:<name>`): the face list is handed over as numpy rows of a narrow / unsigned
   integer dtype (the public `mouette.mesh.from_arrays(V, F=<2-D array>)` when all faces have one arity,
   `RawMeshData.faces += [1-D arrays]` otherwise - exactly what from_arrays does internally). The rows
   are kept by the mesh, so every vertex id that flows through the library is a numpy scalar of that
   dtype: any arithmetic on ids (id*n, id+id, id-1) wraps as soon as the result leaves the range of the
   dtype. A dtype applies to a mesh iff n_vertices - 1 fits; the specimens are chosen so that for
   int8 / uint8 / int16 / uint16 at least one has (n-1)*n + (n-1) beyond
   the maximum of the dtype (`wraps(dtype, n)`, recorded as a coverage fact); the 32-bit dtypes would need
   n >= 46341 vertices (not reached: only the type of the ids is varied there).
   The vertex array is float32 for from_arrays in the unsigned forms and float64 otherwise (coordinates
   do not enter any C01 answer).

2. COLLIDING ATTRIBUTE NAMES (`collide:<kind>`): before the first query, every element container of the
   mesh (vertices, edges, faces, face_corners) carries user attributes under every name of NAMES - the
   names the pinned library itself creates on mesh containers (grep create_attribute /
   register_array_as_attribute in mouette/mesh, mouette/attributes defaults excluded) plus the names of
   the lazily built private fields without their underscore. kind = storage form and content:
     true            sparse bool, every element explicitly True
     true_dense      dense bool, every element True
     false_explicit  sparse bool, every element explicitly False (entries equal to the default)
     int             sparse int, element i carries i + 1
     raw_true        like `true`, but planted on the RawMeshData BEFORE the SurfaceMesh is made from it (attributes
                     that arrive with the data, e.g. read from a file); the other kinds are planted on the finished
                     mesh. Only elements that exist at planting time get an entry.
   A name that the container already carries at planting time (the library's own construction-time attributes,
   e.g. `hard_edges` on the edges) is left alone.
   The statement promises answers that equal inspection of the face list; user attributes are not part
   of the face list, so every judge stays as it is.
"""
from __future__ import annotations

DTYPES = ("int8", "uint8", "int16", "uint16", "int32", "uint32", "int64", "uint64")
_MAX = {"int8": 2 ** 7 - 1, "uint8": 2 ** 8 - 1, "int16": 2 ** 15 - 1, "uint16": 2 ** 16 - 1, "int32": 2 ** 31 - 1,
        "uint32": 2 ** 32 - 1, "int64": 2 ** 63 - 1, "uint64": 2 ** 64 - 1}

KINDS = ("true", "true_dense", "false_explicit", "int", "raw_true")

# names the pinned library creates itself on containers of a mesh (mesh/datatypes, mesh/mesh_data.py, mesh/io,
# processing) ...
LIBRARY_NAMES = ("border", "hard_edges", "opposite_face", "adjacent_cell", "opposite_cell", "normals", "uv_coords", "color",
                 "selection", "feature", "singuls", "corners", "component", "degree", "fixed", "free")
# ... and the lazily built private fields of SurfaceMesh / its connectivity, without the underscore
FIELD_NAMES = ("is_vertex_on_border", "boundary_vertices", "interior_vertices", "boundary_edges", "interior_edges", "half_edges", "edge_id", "face_id")
NAMES = LIBRARY_NAMES + FIELD_NAMES
CONTAINERS = ("vertices", "edges", "faces", "face_corners")


def fits(dtype, n):
    """a mesh of n vertices can be written with this index dtype"""
    return n - 1 <= _MAX[dtype]


def wraps(dtype, n):
    """the largest packed pair (n-1)*n + (n-1) (and a fortiori some id*id / id*n product) leaves the dtype"""
    return (n - 1) * n + (n - 1) > _MAX[dtype]


def _p3(p):
    p = [float(x) for x in p]
    return p + [0.0] * (3 - len(p))


def build_index_dtype(M, points, faces, dtype):
    import numpy as np
    dt = np.dtype(dtype)
    n = len(points)
    assert fits(dtype, n), (dtype, n)
    arities = {len(f) for f in faces}
    if len(arities) == 1 and faces:
        V = np.array([_p3(p) for p in points], dtype=np.float32 if dtype.startswith("u") else np.float64)
        m = M.mesh.from_arrays(V, F=np.array([list(f) for f in faces], dtype=dt))
    else:
        raw = M.mesh.RawMeshData()
        raw.vertices += [M.Vec(*_p3(p)) for p in points]
        raw.faces += [np.array(list(f), dtype=dt) for f in faces]
        m = M.mesh.SurfaceMesh(raw)
    return m


def index_dtype_really_kept(m, dtype):
    """vacuity: the ids stored in the face container are numpy scalars of the requested dtype"""
    for f in m.faces:
        for v in f:
            return type(v).__name__ == dtype
    return False


def plant(m, kind):
    """puts the colliding user attributes on every container; returns {(container, name): attribute object}"""
    planted = {}
    for cn in CONTAINERS:
        cont = getattr(m, cn)
        k = len(cont)
        for name in NAMES:
            if cont.has_attribute(name):
                continue
            if kind in ("true", "raw_true"):
                a = cont.create_attribute(name, bool)
                for i in range(k):
                    a[i] = True
            elif kind == "true_dense":
                a = cont.create_attribute(name, bool, dense=True)
                for i in range(k):
                    a[i] = True
            elif kind == "false_explicit":
                a = cont.create_attribute(name, bool)
                for i in range(k):
                    a[i] = False
            elif kind == "int":
                a = cont.create_attribute(name, int)
                for i in range(k):
                    a[i] = i + 1
            else:
                raise ValueError(kind)
            planted[(cn, name)] = a
    return planted


def collisions_hit(m, planted, before):
    """(container, name) pairs whose attribute object was replaced or whose content changed since `before`
    (= snapshot(planted) taken right after planting): the names the library really uses itself."""
    import pickle
    hit = []
    for (cn, name), a in planted.items():
        cont = getattr(m, cn)
        now = cont.get_attribute(name) if cont.has_attribute(name) else None
        if now is not a or pickle.dumps(a.__dict__, protocol=4) != before[(cn, name)]:
            hit.append(f"{cn}:{name}")
    return hit


def snapshot(planted):
    import pickle
    return {k: pickle.dumps(a.__dict__, protocol=4) for k, a in planted.items()}


def build_colliding(M, points, faces, kind, build_surface):
    """the mesh of the `collide:<kind>` form; build_surface = the driver's ordinary builder"""
    if kind != "raw_true":
        m = build_surface(points, faces)
        return m, plant(m, kind)
    raw = M.mesh.RawMeshData()
    raw.vertices += [M.Vec(*_p3(p)) for p in points]
    raw.faces += [list(f) for f in faces]
    planted = plant(raw, kind)
    m = M.mesh.SurfaceMesh(raw)
    return m, planted
