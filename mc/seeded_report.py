"""Writes /verif/seeded/RESULTS.md from seeded/*/meta.json and seeded/RESULTS.json (python -m mc.seeded_report)."""
import json, os
VERIF = os.path.dirname(os.path.dirname(os.path.abspath(__file__)))
S = os.path.join(VERIF, "seeded")
res = json.load(open(os.path.join(S, "RESULTS.json")))
first = json.load(open(os.path.join(S, "FIRST_RESULTS.json")))
rows = []
for name in sorted(n for n in os.listdir(S) if os.path.isdir(os.path.join(S, n))):
    meta = json.load(open(os.path.join(S, name, "meta.json")))
    notes = ""
    p = os.path.join(S, name, "patch.diff")
    files = sorted(set(l[6:].strip() for l in open(p) if l.startswith("+++ b/")))
    q = res.get(name + ":quick")
    t = res.get(name + ":thorough")
    def cell(o):
        if not o: return "not run"
        cs = [c for c in o.get("checks", {}).values() if c.get("violations")] or list(o.get("checks", {}).values())
        c = cs[0] if cs else {}
        fp = (c.get("fingerprints") or [""])[0]
        fp = " / ".join(fp.split(" | ")[1:3]) if fp else ""
        return ("**detected** (%s)" % fp) if o.get("detected") else "MISSED"
    qc = cell(q)
    if meta.get("superseded_by_fix") and "detected" not in qc:
        qc = "no longer a breaking change (neutralised by fix %s)" % meta["superseded_by_fix"]["commit"]
    rows.append((name, meta["property"], ", ".join(files), qc, cell(t) if t else "-", first.get(name, "detected")))
with open(os.path.join(S, "RESULTS.md"), "w") as f:
    f.write("# Seeded property-breaking changes\n\n"
            "Each directory holds `patch.diff` (a change to mouette that keeps the repository's 622 passing tests passing),\n"
            "`demo.py` (exits 0 on the unchanged tree, 1 with the change), `notes.txt` (the author's description) and `meta.json`\n"
            "(property, what the change needs in order to manifest, what was run to validate it). All of them were written by\n"
            "independent sub-agents that saw only the property text and a scratch worktree; each was re-validated by\n"
            "`mc/seeded_import.py` (demo 0/1, suite pass set = BASELINE.json) before being stored, and evaluated by\n"
            "`mc/seeded_eval.py` (scratch worktree of /repo HEAD + patch, `VERIF_REPO=<worktree> ./check <ID>`).\n\n"
            "`first_result` records what the check said the first time, before any strengthening (see DESIGN.md 8.5).\n\n"
            "| change | property | files touched | quick tier | thorough tier | first result |\n|---|---|---|---|---|---|\n")
    for r in rows:
        f.write("| %s | %s | %s | %s | %s | %s |\n" % r)
    det = sum(1 for r in rows if "detected" in r[3])
    sup = sum(1 for r in rows if "neutralised" in r[3])
    f.write(f"\n{det} of {len(rows)} detected by the quick tier; {sup} no longer break the property on the repaired tree.\n")
print(len(rows), "rows")
