"""Reference refinement model for C13 (subdivision), pure Python, exact arithmetic, no mouette import.

Written from the property statement and the operations' docstrings, in a different style from the library:
a mesh element is a tuple of POINTS, a point being an exact affine combination of the ORIGINAL vertices (sparse
tuple of (original index, Fraction weight)) - every centre of an edge, face or cell of a refined mesh is one.
The identity of a vertex is that combination (vertex and face numbering of the refined mesh are not fixed by
the statement, so nothing here depends on them); its exact position follows from the original positions.
When two different combinations have positions closer than the tolerance (degenerate geometry) the
observation cannot be interpreted: Degenerate is raised and the caller filters the case. A refinement step is validated as a relation between the state observed before an
operation and the state observed after it:

  * the original vertices are still there, at the same index and position;
  * every new vertex is at the centre of an edge / face / cell of the mesh it refines;
  * the faces (cells) of the new state are exactly the union, over the old faces, of ONE of the admissible
    refinements of that face. Choices the documentation leaves open (which diagonal splits a quad) are
    alternatives, resolved per face against the observation.

Atoms of the surface operations (faces = cyclic tuples of points, orientation matters, start vertex not):
  T    triangulate a face   : triangle -> itself; quad -> two triangles along either diagonal; k>=5 -> fan
  FAN  fan from the centroid: k triangles (v_i, v_{i+1}, centroid)
  L0   1-to-4               : (mAB,mBC,mCA), (A,mAB,mCA), (B,mBC,mAB), (C,mCA,mBC)
  Q0   1-to-3 quads         : (A,mAB,S,mCA), (B,mBC,S,mAB), (C,mCA,S,mBC)
"""
from __future__ import annotations
from fractions import Fraction as Fr
from math import gcd, sqrt
import itertools
from . import families as F


# ------------------------------------------------------------------------------------------ points
def P(p):
    """exact value of a float/int triple"""
    return (Fr(p[0]), Fr(p[1]), Fr(p[2]))


def W(i):
    """the original vertex i as a point"""
    return ((i, Fr(1)),)


def centroid(ws):
    """centre of points given as affine combinations (also used for 3-tuples of coordinates: see centroid3)"""
    acc = {}
    n = len(ws)
    for w in ws:
        for i, x in w:
            acc[i] = acc.get(i, 0) + x
    return tuple(sorted((i, x / n) for i, x in acc.items()))


def centroid3(pts):
    n = len(pts)
    return (sum(p[0] for p in pts) / n, sum(p[1] for p in pts) / n, sum(p[2] for p in pts) / n)


def pos(w, P0):
    return (sum(x * P0[i][0] for i, x in w), sum(x * P0[i][1] for i, x in w), sum(x * P0[i][2] for i, x in w))


class Degenerate(Exception):
    """two different centres coincide geometrically: the case is filtered (exactly evaluated premise)"""


def sub(a, b):
    return (a[0] - b[0], a[1] - b[1], a[2] - b[2])


def cross(a, b):
    return (a[1] * b[2] - a[2] * b[1], a[2] * b[0] - a[0] * b[2], a[0] * b[1] - a[1] * b[0])


def dot(a, b):
    return a[0] * b[0] + a[1] * b[1] + a[2] * b[2]


def det3(a, b, c):
    return dot(a, cross(b, c))


def rot_min(face):
    i = face.index(min(face))
    return tuple(face[i:]) + tuple(face[:i])


# ------------------------------------------------------------------------------------------ surface atoms
def atom_T(face, existing=None):
    """existing: set of frozenset({p,q}) = sides already present in the mesh being refined. A diagonal that is
    already an edge of the mesh cannot be used (the result would have an edge with three faces); if both are
    taken only a fan is left."""
    k = len(face)
    if k == 3:
        return [[tuple(face)]]
    if k == 4:
        A, B, C, D = face
        alts = []
        if not existing or frozenset((B, D)) not in existing:
            alts.append([(A, B, D), (B, C, D)])
        if not existing or frozenset((A, C)) not in existing:
            alts.append([(A, B, C), (A, C, D)])
        return alts or atom_FAN(face)
    return atom_FAN(face)


def atom_FAN(face):
    k = len(face)
    c = centroid(face)
    return [[(face[i], face[(i + 1) % k], c) for i in range(k)]]


def atom_L0(face):
    A, B, C = face
    ab, bc, ca = centroid((A, B)), centroid((B, C)), centroid((C, A))
    return [[(ab, bc, ca), (A, ab, ca), (B, bc, ab), (C, ca, bc)]]


def atom_Q0(face):
    A, B, C = face
    ab, bc, ca = centroid((A, B)), centroid((B, C)), centroid((C, A))
    s = centroid(face)
    return [[(A, ab, s, ca), (B, bc, s, ab), (C, ca, s, bc)]]


ATOMS = {"T": atom_T, "FAN": atom_FAN, "L0": atom_L0, "Q0": atom_Q0}

# operation kind -> atoms applied in sequence (global operations: to every face; targeted: to one face)
# "If the mesh is not triangulated, will triangulate the mesh first" = leading T.
OPS = {
    "T": ["T"], "TF": ["T"], "FAN": ["FAN"],
    "L": ["T", "L0"], "L2": ["T", "L0", "L0"],
    "Q3": ["T", "Q0"],
    "S6": ["T", "Q0", "T"], "S6x2": ["T", "Q0", "T", "Q0", "T"],
}
TARGETED = ("TF", "FAN")


def estimate_faces(face_lens, kind, targets=None):
    """number of faces of the refined mesh (cheap bound used to skip sequences whose result is too large)"""
    total = 0
    for i, k in enumerate(face_lens):
        lens = [k]
        if targets is None or i in targets:
            for a in OPS[kind]:
                nxt = []
                for q in lens:
                    if a == "T":
                        nxt += [3] * (1 if q == 3 else (2 if q == 4 else q))
                    elif a == "FAN":
                        nxt += [3] * q
                    elif a == "L0":
                        nxt += [3] * 4
                    else:
                        nxt += [4] * 3
                lens = nxt
        total += len(lens)
    return total


def _alts(atom, face, existing):
    return atom_T(face, existing) if atom == "T" else ATOMS[atom](face)


def collect_points(face, atoms, acc, existing=None):
    """every point appearing in any admissible refinement of the face (existing: only for the first atom,
    which acts on faces of the mesh being refined; later atoms act on fresh faces)"""
    if not atoms:
        acc.update(face)
        return
    for alt in _alts(atoms[0], face, existing):
        for sub_face in alt:
            collect_points(sub_face, atoms[1:], acc)


def first_refinement(face, atoms, existing=None):
    faces = [tuple(face)]
    for i, a in enumerate(atoms):
        faces = [g for f in faces for g in _alts(a, f, existing if i == 0 else None)[0]]
    return faces


def match(face, atoms, observed, existing=None):
    """keys of the observed faces forming one admissible refinement of `face`, or None.
    Sub-faces are matched independently (their refinements are disjoint)."""
    if not atoms:
        k = rot_min(tuple(face))
        return [k] if k in observed else None
    for alt in _alts(atoms[0], face, existing):
        used = []
        for sub_face in alt:
            r = match(sub_face, atoms[1:], observed)
            if r is None:
                used = None
                break
            used += r
        if used is not None:
            return used
    return None


def tolerance(points_f):
    scale = max([1.0] + [abs(x) for p in points_f for x in p])
    return 1e-9 * scale


def snap(obs, candidates, tol):
    """candidates: list of (key, float position). The unique key within tol of the observed float point, else
    (None, nearest distance); Degenerate if several keys are within tol."""
    best, bd, near = None, None, 0
    for key, c in candidates:
        d = max(abs(c[0] - obs[0]), abs(c[1] - obs[1]), abs(c[2] - obs[2]))
        if d <= tol:
            near += 1
        if bd is None or d < bd:
            best, bd = key, d
    if near > 1:
        raise Degenerate()
    if best is None or bd > tol:
        return None, bd
    return best, bd


def fpos(w, P0):
    return tuple(float(x) for x in pos(w, P0))


class StepFailure(Exception):
    def __init__(self, clause, label, detail):
        super().__init__(label)
        self.clause, self.label, self.detail = clause, label, detail


def validate_surface_step(before_P, P0, before_Pf, before_F, kind, targets, obs_Pf, obs_F):
    """before_P: the vertices of the state as points (affine combinations of the original vertices, whose exact
    positions are P0), before_Pf: float positions as observed, before_F: faces (index tuples);
    kind: key of OPS; targets: None (every face) or the list of face indices the operation refines;
    obs_*: state observed after the operation. Returns (points of the new state, stats);
    raises StepFailure(clause, label, detail) or Degenerate."""
    atoms = OPS[kind]
    n0 = len(before_P)
    tset = None if targets is None else set(targets)
    per_face = [atoms if (tset is None or i in tset) else [] for i in range(len(before_F))]
    bfaces = [tuple(before_P[v] for v in f) for f in before_F]
    existing = set(frozenset((f[i], f[(i + 1) % len(f)])) for f in bfaces for i in range(len(f)))
    # ---- documented element counts: faces (the same for every admissible alternative); vertices: below
    want_nf = sum(len(first_refinement(f, a, existing)) for f, a in zip(bfaces, per_face))
    if len(obs_F) != want_nf:
        raise StepFailure("counts", "face_count", {"got": len(obs_F), "want": want_nf})
    if len(obs_Pf) < n0:
        raise StepFailure("counts", "vertex_count", {"got": len(obs_Pf), "want_at_least": n0})
    # ---- originals in place
    for i in range(n0):
        if tuple(obs_Pf[i]) != tuple(before_Pf[i]):
            raise StepFailure("originals_in_place", "original_vertex_moved", {"vertex": i, "got": list(obs_Pf[i]), "want": list(before_Pf[i])})
    # ---- new vertices at centres
    cand = set()
    for f, a in zip(bfaces, per_face):
        if a:
            collect_points(f, a, cand, existing)
    cand -= set(before_P)
    tol = tolerance(before_Pf)
    candf = [(c, fpos(c, P0)) for c in sorted(cand)]
    newP, taken = [], {}
    for j in range(n0, len(obs_Pf)):
        c, d = snap(obs_Pf[j], candf, tol)
        if c is None:
            raise StepFailure("new_vertex_position", "new_vertex_not_at_a_centre", {"vertex": j, "got": list(obs_Pf[j]), "distance_to_nearest_centre": d})
        if c in taken:
            raise StepFailure("new_vertex_position", "two_new_vertices_at_one_centre", {"vertices": [taken[c], j], "position": list(fpos(c, P0))})
        taken[c] = j
        newP.append(c)
    after_P = list(before_P) + newP
    # ---- faces = union of admissible refinements
    n1 = len(after_P)
    keys = []
    for g in obs_F:
        if len(g) < 3 or any((not isinstance(v, int)) or v < 0 or v >= n1 for v in g):
            raise StepFailure("refinement_pattern", "face_index_out_of_range", {"face": list(g), "n_vertices": n1})
        keys.append(rot_min(tuple(after_P[v] for v in g)))
    kset = set(keys)
    if len(kset) != len(keys):
        raise StepFailure("refinement_pattern", "duplicate_face", {})
    used = []
    for i, (f, a) in enumerate(zip(bfaces, per_face)):
        r = match(f, a, kset, existing)
        if r is None:
            raise StepFailure("refinement_pattern", "face_not_refined_as_documented",
                              {"face_index": i, "face": list(before_F[i]), "atoms": a})
        used += r
    if sorted(used) != sorted(keys):
        raise StepFailure("refinement_pattern", "extra_or_missing_faces", {"matched": len(used), "observed": len(keys)})
    # ---- documented vertex count = the centres used by the refinement that was matched (every new vertex is at a
    #      distinct centre, see above; so the count is wrong exactly when a new vertex belongs to no face)
    want_new = len(set(p for k in used for p in k) - set(before_P))
    if len(obs_Pf) != n0 + want_new:
        raise StepFailure("counts", "vertex_count", {"got": len(obs_Pf), "want": n0 + want_new})
    return after_P, {"faces": want_nf, "new_vertices": want_new}


# ------------------------------------------------------------------------------------------ surface invariants
def poly_normal2(pts):
    """2 x vector area (exact)"""
    o = pts[0]
    acc = (Fr(0), Fr(0), Fr(0))
    for i in range(1, len(pts) - 1):
        c = cross(sub(pts[i], o), sub(pts[i + 1], o))
        acc = (acc[0] + c[0], acc[1] + c[1], acc[2] + c[2])
    return acc


def planar_convex(pts):
    """exact: polygon is planar and strictly convex (triangles: non-degenerate)"""
    N = poly_normal2(pts)
    if N == (0, 0, 0):
        return False
    k = len(pts)
    for i in range(k):
        if dot(sub(pts[i], pts[0]), N) != 0:
            return False
        c = cross(sub(pts[(i + 1) % k], pts[i]), sub(pts[(i + 2) % k], pts[(i + 1) % k]))
        if dot(c, N) <= 0:
            return False
    return True


def direction(N):
    den = 1
    for x in N:
        den = den * x.denominator // gcd(den, x.denominator)
    ints = [int(x * den) for x in N]
    g = 0
    for x in ints:
        g = gcd(g, abs(x))
    return tuple(x // g for x in ints) if g else (0, 0, 0)


def area_by_direction(Pex, faces):
    """direction of the normal -> exact sum of 2 x vector areas of the faces having that oriented normal.
    Invariant under any refinement that keeps every child face inside its parent with the same orientation;
    the total area is sum over directions of |sum|/2 (faces of one direction are parallel and co-oriented)."""
    out = {}
    for f in faces:
        N = poly_normal2([Pex[v] for v in f])
        d = direction(N)
        a = out.get(d, (Fr(0), Fr(0), Fr(0)))
        out[d] = (a[0] + N[0], a[1] + N[1], a[2] + N[2])
    return out


def total_area(by_dir):
    return sum(sqrt(float(dot(N, N))) for N in by_dir.values()) / 2


def quad_with_taken_diagonal(faces, targets=None):
    """indices of the quads (among targets) one of whose diagonals joins two vertices that are already joined by a
    side of a face of the mesh, or that another quad to be split could join as well: a rule that fixes the
    diagonal from the position in the face alone can then produce an edge with more than two faces"""
    sides = F.undirected_edges(faces)
    quads = [i for i, f in enumerate(faces) if len(f) == 4 and (targets is None or i in targets)]
    diag = {}
    for i in quads:
        f = faces[i]
        for d in (tuple(sorted((f[0], f[2]))), tuple(sorted((f[1], f[3])))):
            diag[d] = diag.get(d, 0) + 1
    out = []
    for i in quads:
        f = faces[i]
        ds = (tuple(sorted((f[0], f[2]))), tuple(sorted((f[1], f[3]))))
        if any(d in sides or diag[d] > 1 for d in ds):
            out.append(i)
    return out


def surface_topology(faces, n):
    comps = F.components(sorted(set(v for f in faces for v in f)), F.undirected_edges(faces))
    return {"chi": n - len(F.undirected_edges(faces)) + len(faces), "border_loops": len(F.border_loops(faces)),
            "components": len(comps) + (n - len(set(v for f in faces for v in f)))}


# ------------------------------------------------------------------------------------------ volume
def tet_sign(c, P0):
    q = [pos(w, P0) for w in c]
    d = det3(sub(q[0], q[3]), sub(q[1], q[3]), sub(q[2], q[3]))
    return (d > 0) - (d < 0)


def tet_key(c, P0):
    return (tuple(sorted(c)), tet_sign(c, P0))


def validate_volume_step(before_P, P0, before_Pf, before_C, before_Fl, kind, arg, obs_Pf, obs_C):
    """kind 'CFAN' (arg = cell index) or 'FSPLIT' (arg = index in the raw face list before_Fl). Points are affine
    combinations of the original vertices (positions P0). A child tetrahedron keeps its parent's orientation."""
    n0 = len(before_P)
    cells = [tuple(before_P[v] for v in c) for c in before_C]
    want = []
    if kind == "CFAN":
        m = centroid(cells[arg])
        for i, c in enumerate(cells):
            if i == arg:
                s = tet_sign(c, P0)
                want += [(tuple(sorted(c[:k] + (m,) + c[k + 1:])), s) for k in range(4)]
            else:
                want.append(tet_key(c, P0))
    else:
        tri = tuple(before_P[v] for v in before_Fl[arg])
        m = centroid(tri)
        for c in cells:
            if all(p in c for p in tri):
                s = tet_sign(c, P0)
                want += [(tuple(sorted(tuple(m if q == p else q for q in c))), s) for p in tri]
            else:
                want.append(tet_key(c, P0))
    if len(obs_C) != len(want):
        raise StepFailure("counts", "cell_count", {"got": len(obs_C), "want": len(want)})
    if len(obs_Pf) != n0 + 1:
        raise StepFailure("counts", "vertex_count", {"got": len(obs_Pf), "want": n0 + 1})
    for i in range(n0):
        if tuple(obs_Pf[i]) != tuple(before_Pf[i]):
            raise StepFailure("originals_in_place", "original_vertex_moved", {"vertex": i, "got": list(obs_Pf[i]), "want": list(before_Pf[i])})
    tol = tolerance(before_Pf)
    c, d = snap(obs_Pf[n0], [(m, fpos(m, P0))], tol)
    if c is None:
        raise StepFailure("new_vertex_position", "new_vertex_not_at_the_centre", {"got": list(obs_Pf[n0]), "want": list(fpos(m, P0)), "distance": d})
    if m in before_P:
        raise Degenerate()
    after_P = list(before_P) + [m]
    got = []
    for cidx in obs_C:
        if len(cidx) != 4 or len(set(cidx)) != 4 or any((not isinstance(v, int)) or v < 0 or v > n0 for v in cidx):
            raise StepFailure("refinement_pattern", "cell_index_invalid", {"cell": list(cidx), "n_vertices": n0 + 1})
        got.append(tet_key(tuple(after_P[v] for v in cidx), P0))
    if sorted(got) != sorted(want):
        gs, ws = sorted(got), sorted(want)
        same_sets = sorted(k[0] for k in gs) == sorted(k[0] for k in ws)
        raise StepFailure("refinement_pattern", "cell_orientation_flipped" if same_sets else "cells_not_the_documented_split",
                          {"n_matching": len(set(gs) & set(ws)), "n_cells": len(gs)})
    return after_P, {"cells": len(want)}


def volume6_abs(Pex, cells):
    return sum(abs(det3(sub(Pex[c[0]], Pex[c[3]]), sub(Pex[c[1]], Pex[c[3]]), sub(Pex[c[2]], Pex[c[3]]))) for c in cells)


def volume_topology(cells, n):
    tris = {}
    for ic, c in enumerate(cells):
        for k in range(4):
            tris.setdefault(tuple(sorted(c[:k] + c[k + 1:])), []).append(ic)
    edges = set(tuple(sorted(e)) for c in cells for e in itertools.combinations(c, 2))
    border = [t for t, cs in tris.items() if len(cs) == 1]
    bedges = set(e for t in border for e in itertools.combinations(t, 2))
    bverts = set(v for t in border for v in t)
    cell_adj = [tuple(cs) for cs in tris.values() if len(cs) == 2]
    bcomp = F.components(sorted(bverts), bedges)
    return {"chi": n - len(edges) + len(tris) - len(cells),
            "border_chi": len(bverts) - len(bedges) + len(border), "border_components": len(bcomp),
            "cell_components": len(F.components(len(cells), cell_adj)),
            "vertex_components": len(F.components(n, edges)),
            "max_cells_per_triangle": max(len(cs) for cs in tris.values())}
