"""Helpers of props/c16.py (round 5): the dimensions "history of the input MESH before it is cut" and "geometry far from the origin".

History of the mesh object.  The statement quantifies over surfaces; a surface handed to the cutter is a mesh OBJECT with a past:
  filler  - public queries that leave caches on the object (border lists, connectivity arrays, persistent attributes, a feature detector
            run, an earlier cut), FILLERS below: one member per family of caches + none + all together;
  edit    - a documented editing step applied to the SAME object afterwards (mouette.mesh.subdivision): blocks that edit the element
            containers in place (fan split of one face, split_double_boundary_edges_triangles, triangulate() of a quad / mixed mesh or
            as an empty block on triangles) and blocks that replace the containers (loop_subdivision, subdivide_triangles_6);
  cut     - the cutter is then run on the object; the oracle reads the element containers the object holds at that moment.
Nothing here knows anything about the cutter's code; the functions only call public entry points.
"""
from __future__ import annotations

FILLERS = ("none", "border", "connectivity", "attributes", "detector", "cut", "all")
EDIT_KINDS = ("fan", "ears", "triangulate", "loop", "tri6")
IN_PLACE = ("fan", "ears", "triangulate")           # edit kinds that work inside the containers of the object (when they have something to do)
SNAP = 4096.0                                       # far-from-origin deviation: coordinates are first rounded to multiples of 2^-12
SHIFT_MAX = 40                                      # 2^40 + (multiples of 2^-12 below 2^38) need <= 53 bits: the translation is exact


def shift_points(pts, k):
    """Coordinates rounded to multiples of 2^-12, then translated by (2^k, -2^k, 2^(k-1)): exact for k <= 40, so every edge vector of the
    translated surface is bit for bit the one of the rounded surface at the origin."""
    assert 0 < k <= SHIFT_MAX
    off = (2.0 ** k, -(2.0 ** k), 2.0 ** (k - 1))
    out = []
    for p in pts:
        q = [float(x) for x in p] + [0.0] * (3 - len(p))
        r = [round(x * SNAP) / SNAP for x in q]
        assert all(abs(x) < 2.0 ** (k - 2) for x in r)          # the surface is small compared with its distance from the origin
        t = tuple(r[i] + off[i] for i in range(3))
        assert all(t[i] - off[i] == r[i] for i in range(3))          # the translation lost nothing
        out.append(t)
    return out


def read_containers(m):
    """(points, faces, edges) the mesh object holds now, as plain python values."""
    pts = [tuple(float(x) for x in m.vertices[i]) for i in range(len(m.vertices))]
    faces = [tuple(int(v) for v in f) for f in m.faces]
    edges = [tuple(int(v) for v in e) for e in m.edges]
    return pts, faces, edges


def apply_filler(M, m, name):
    """Public queries that leave caches on the mesh object.  Answers are not judged here (C01 / C15 / C07 are about them)."""
    if name in ("border", "all"):
        _ = (list(m.boundary_vertices), list(m.interior_vertices), list(m.boundary_edges), list(m.interior_edges))
        if len(m.edges):
            a, b = m.edges[0]
            m.is_edge_on_border(a, b)
        m.is_vertex_on_border(0)
    if name in ("connectivity", "all"):
        c = m.connectivity
        a, b, _c = (int(v) for v in m.faces[0][:3])
        for q in (lambda: c.vertex_to_vertices(a), lambda: c.vertex_to_faces(a), lambda: c.vertex_to_edges(a), lambda: c.vertex_to_corners(a),
                  lambda: c.edge_id(a, b), lambda: c.direct_face(a, b, True), lambda: c.edge_to_faces(a, b), lambda: c.opposite_face(a, b, 0),
                  lambda: c.face_to_edges(0), lambda: c.face_to_faces(0), lambda: c.face_to_corners(0), lambda: c.face_id(*[int(v) for v in m.faces[0]]),
                  lambda: c.other_edge_end(0, int(m.edges[0][0]))):
            q()
    if name in ("attributes", "all"):
        A = M.attributes
        A.edge_length(m, persistent=True)
        A.face_barycenter(m, persistent=True)
        A.face_area(m, persistent=True)
        A.face_normals(m, persistent=True)
    if name in ("detector", "all"):
        M.processing.FeatureEdgeDetector(verbose=False).run(m)
    if name in ("cut", "all") and all(len(f) == 3 for f in m.faces):      # the statement (and the cutter) is about triangulated surfaces only
        c0 = M.processing.SingularityCutter(m, [0], features=None, verbose=False)
        c0.run()
        _ = c0.output_mesh


def apply_edit(M, m, edit):
    """One documented editing step on the mesh object (mouette.mesh.subdivision)."""
    from mouette.mesh import subdivision as SD
    kind = edit[0]
    if kind == "fan":
        with SD.SurfaceSubdivision(m) as s:
            s.split_face_as_fan(int(edit[1]) % len(m.faces))
    elif kind == "ears":
        SD.split_double_boundary_edges_triangles(m)
    elif kind == "triangulate":
        with SD.SurfaceSubdivision(m) as s:
            s.triangulate()
    elif kind == "loop":
        with SD.SurfaceSubdivision(m) as s:
            s.loop_subdivision(1)
    elif kind == "tri6":
        with SD.SurfaceSubdivision(m) as s:
            s.subdivide_triangles_6(1)
    else:
        raise ValueError(edit)


def edit_label(edit):
    return edit[0] if edit[0] != "fan" else "fan(face %d)" % int(edit[1])
