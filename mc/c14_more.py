"""Helpers of props/c14.py (round 5): families and observations that are independent of the library.

  primitive_directions / tilted_axes   the direction family of every generator that is parametrised by an axis
  distort / request_all_persistent_attributes
                                       the 'history of the input mesh' deviations (what an earlier stage of a pipeline
                                       leaves on a mesh that is later handed to a generator); copied from mc/families.py
  coherence_findings                   the returned object seen through the library's derived containers and
                                       connectivity queries, compared with an incidence structure computed from the face
                                       list alone
Nothing here imports mouette at module level.
"""
from __future__ import annotations
import itertools, math


# ------------------------------------------------------------------------------------------------ direction family
def primitive_directions(k):
    """every integer direction d != 0 with |d|_inf <= k and gcd(d) = 1, in lexicographic order (k=1: 26, k=2: 98,
    k=3: 290): all sign patterns, all coordinate planes, every ratio p/q of two components with |p|, |q| <= k"""
    out = []
    for d in itertools.product(range(-k, k + 1), repeat=3):
        if d == (0, 0, 0):
            continue
        g = math.gcd(math.gcd(abs(d[0]), abs(d[1])), abs(d[2]))
        if g == 1:
            out.append([int(c) for c in d])
    return out


def tilted_axes(exponents):
    """coordinate axes tilted by 2^-k towards another coordinate axis: [(direction, label)], direction = s e_i + 2^-k e_j
    for every i, sign s, j != i, k in exponents (12 per exponent): the neighbourhoods in which a generator has to pick
    another auxiliary vector"""
    out = []
    for k in exponents:
        for i in range(3):
            for s in (1.0, -1.0):
                for j in range(3):
                    if j == i:
                        continue
                    d = [0.0, 0.0, 0.0]
                    d[i] = s
                    d[j] = 2.0 ** (-k)
                    out.append((d, "tilt:2^-%d" % k))
    return out


# ------------------------------------------------------------------------------------------------ input histories
def distort(p):
    """invertible affine map (det 5.5): keeps elements non-degenerate, changes every length, angle and direction"""
    x, y, z = float(p[0]), float(p[1]), float(p[2])
    return (2 * x + y + 1, 3 * y - z, z + 0.5 * x + 2)


def request_all_persistent_attributes(mesh):
    """calls every function of mouette.attributes that accepts the mesh alone (default arguments = persistent); returns
    the number of functions that answered"""
    import mouette as M, warnings
    made = 0
    for name in sorted(dir(M.attributes)):
        if name.startswith("_") or name.startswith(("interpolate", "average", "scatter", "generate")):
            continue
        fn = getattr(M.attributes, name)
        if not callable(fn) or isinstance(fn, type):
            continue
        try:
            with warnings.catch_warnings():
                warnings.simplefilter("ignore")
                fn(mesh)
            made += 1
        except Exception:   # noqa: not applicable to this mesh type / needs more arguments
            pass
    return made


def n_attributes(mesh):
    n = 0
    for cname in ("vertices", "edges", "faces", "face_corners", "cells", "cell_corners", "cell_faces"):
        cont = getattr(mesh, cname, None)
        if cont is not None and hasattr(cont, "attributes"):
            n += len(list(cont.attributes))
    return n


# ------------------------------------------------------------------------------------------------ coherent object
def _ask(fn, *a):
    try:
        return True, fn(*a)
    except Exception as e:      # noqa: the exception class is the finding
        return False, type(e).__name__ + ": " + str(e)[:120]


def coherence_findings(mesh, kind):
    """[(kind_of_finding, witness)] - where the derived containers / connectivity answers of the returned object disagree
    with its own defining element list.  kind: 'surface' (faces define), 'volume' (cells define), 'polyline' (edges).
    The expectation is computed here from the element list alone (lists and sets of ints).  At most one finding per
    question.  Only called on objects whose element list passed the structural chain (indices in range, manifold)."""
    out = []

    def bad(k, **w):
        if not any(o[0] == k for o in out):
            out.append((k, w))

    n = len(mesh.vertices)
    if kind == "surface":
        faces = [[int(v) for v in f] for f in mesh.faces]
        flat = [v for f in faces for v in f]
        owner = [fi for fi, f in enumerate(faces) for _v in f]
        ok, got = _ask(lambda: [int(c) for c in mesh.face_corners])
        if not ok:
            bad("raises:face_corners", msg=got)
        elif got != flat:
            bad("mismatch:face_corners", n_corners=len(got), n_corners_of_faces=len(flat), first_corners=got[:6], want_first=flat[:6])
        else:
            ok, adj = _ask(lambda: [int(mesh.face_corners.adj(c)) for c in range(len(flat))])
            if not ok:
                bad("raises:face_corners.adj", msg=adj)
            elif adj != owner:
                bad("mismatch:face_corners.adj", got=adj[:8], want=owner[:8])
        und = {}
        direct = {}
        for fi, f in enumerate(faces):
            for i in range(len(f)):
                a, b = f[i], f[(i + 1) % len(f)]
                und.setdefault((min(a, b), max(a, b)), []).append(fi)
                direct.setdefault((a, b), fi)
        ok, edges = _ask(lambda: [tuple(sorted(int(v) for v in e)) for e in mesh.edges])
        if not ok:
            bad("raises:edges", msg=edges)
        elif sorted(edges) != sorted(und):
            bad("mismatch:edges", n_edges=len(edges), n_sides_of_faces=len(und), got=sorted(edges)[:6], want=sorted(und)[:6])
        inc = [[] for _ in range(n)]
        nb = [set() for _ in range(n)]
        for fi, f in enumerate(faces):
            for v in f:
                inc[v].append(fi)
        for (a, b) in und:
            nb[a].add(b); nb[b].add(a)
        border_e = sorted(e for e, l in und.items() if len(l) == 1)
        border_v = {v for e in border_e for v in e}
        conn = mesh.connectivity
        for v in range(n):
            ok, got = _ask(lambda: sorted(int(x) for x in (conn.vertex_to_faces(v) or [])))
            if not ok:
                bad("raises:connectivity.vertex_to_faces", vertex=v, msg=got)
            elif got != sorted(inc[v]):
                bad("mismatch:connectivity.vertex_to_faces", vertex=v, got=got, want=sorted(inc[v]))
            ok, got = _ask(lambda: sorted(int(x) for x in (conn.vertex_to_vertices(v) or [])))
            if not ok:
                bad("raises:connectivity.vertex_to_vertices", vertex=v, msg=got)
            elif got != sorted(nb[v]):
                bad("mismatch:connectivity.vertex_to_vertices", vertex=v, got=got, want=sorted(nb[v]))
            ok, got = _ask(lambda: bool(mesh.is_vertex_on_border(v)))
            if not ok:
                bad("raises:is_vertex_on_border", vertex=v, msg=got)
            elif got != (v in border_v):
                bad("mismatch:is_vertex_on_border", vertex=v, got=got, want=(v in border_v))
        ok, got = _ask(lambda: sorted(tuple(sorted(int(x) for x in mesh.edges[e])) for e in mesh.boundary_edges))
        if not ok:
            bad("raises:boundary_edges", msg=got)
        elif got != border_e:
            bad("mismatch:boundary_edges", got=got[:6], want=border_e[:6], n_got=len(got), n_want=len(border_e))
        if len(direct) == sum(len(f) for f in faces):       # consistently oriented: the face left of (a, b) is defined
            for (a, b), fi in sorted(direct.items()):
                ok, got = _ask(conn.direct_face, a, b)
                if not ok:
                    bad("raises:connectivity.direct_face", edge=[a, b], msg=got)
                elif got != fi:
                    bad("mismatch:connectivity.direct_face", edge=[a, b], got=got, want=fi)
                ok, got = _ask(conn.direct_face, b, a)
                want = direct.get((b, a))
                if ok and got != want:
                    bad("mismatch:connectivity.direct_face", edge=[b, a], got=got, want=want)
        return out
    if kind == "volume":
        cells = [[int(v) for v in c] for c in mesh.cells]
        flat = [v for c in cells for v in c]
        owner = [ci for ci, c in enumerate(cells) for _v in c]
        ok, got = _ask(lambda: [int(c) for c in mesh.cell_corners])
        if not ok:
            bad("raises:cell_corners", msg=got)
        elif got != flat:
            bad("mismatch:cell_corners", n_corners=len(got), n_corners_of_cells=len(flat), first_corners=got[:8], want_first=flat[:8])
        else:
            ok, adj = _ask(lambda: [int(mesh.cell_corners.adj(c)) for c in range(len(flat))])
            if not ok:
                bad("raises:cell_corners.adj", msg=adj)
            elif adj != owner:
                bad("mismatch:cell_corners.adj", got=adj[:8], want=owner[:8])
        faces = [[int(v) for v in f] for f in mesh.faces]
        sides = {tuple(sorted((f[i], f[(i + 1) % len(f)]))) for f in faces for i in range(len(f))}
        ok, edges = _ask(lambda: [tuple(sorted(int(v) for v in e)) for e in mesh.edges])
        if not ok:
            bad("raises:edges", msg=edges)
        elif faces and sorted(edges) != sorted(sides):
            bad("mismatch:edges", n_edges=len(edges), n_sides_of_faces=len(sides))
        incc = [[] for _ in range(n)]
        for ci, c in enumerate(cells):
            for v in c:
                if 0 <= v < n:
                    incc[v].append(ci)
        for v in range(n):
            ok, got = _ask(lambda: sorted(int(x) for x in (mesh.connectivity.vertex_to_cell(v) or [])))
            if not ok:
                bad("raises:connectivity.vertex_to_cell", vertex=v, msg=got)
            elif got != sorted(incc[v]):
                bad("mismatch:connectivity.vertex_to_cell", vertex=v, got=got, want=sorted(incc[v]))
        return out
    if kind == "polyline":
        edges = [tuple(int(v) for v in e) for e in mesh.edges]
        nb = [set() for _ in range(n)]
        for a, b in edges:
            if 0 <= a < n and 0 <= b < n:
                nb[a].add(b); nb[b].add(a)
        for v in range(n):
            ok, got = _ask(lambda: sorted(int(x) for x in (mesh.connectivity.vertex_to_vertices(v) or [])))
            if not ok:
                bad("raises:connectivity.vertex_to_vertices", vertex=v, msg=got)
            elif got != sorted(nb[v]):
                bad("mismatch:connectivity.vertex_to_vertices", vertex=v, got=got, want=sorted(nb[v]))
        for e, (a, b) in enumerate(edges):
            ok, got = _ask(mesh.connectivity.edge_id, a, b)
            if not ok:
                bad("raises:connectivity.edge_id", edge=[a, b], msg=got)
            elif got != e:
                bad("mismatch:connectivity.edge_id", edge=[a, b], got=got, want=e)
        return out
    return out
