"""./check <ID> [--tier quick|thorough] [--replay FILE] [--jobs N] [--only SUBSTR]

exit 0: property held on everything explored (known findings are printed as KNOWN-FINDING lines)
exit 1: at least one violation not listed in known_findings.json (VIOLATION lines printed)
exit 2: harness error (vacuity guard, non-reproducible failure, crashed worker, invalid evidence)
"""
from __future__ import annotations
import argparse, importlib, json, os, signal, subprocess, sys, time, traceback

VERIF = os.path.dirname(os.path.dirname(os.path.abspath(__file__)))
REPO = os.environ.get("VERIF_REPO", "/repo")
SEED = int(os.environ.get("VERIF_SEED", "0") or 0)
TASK_TIMEOUT = int(os.environ.get("VERIF_TASK_TIMEOUT", "600"))


def _reexec_with_hashseed():
    want = str(SEED % 4294967296)
    if os.environ.get("PYTHONHASHSEED") != want or os.environ.get("MC_REEXEC") != "1":
        env = dict(os.environ)
        env["PYTHONHASHSEED"] = want
        env["MC_REEXEC"] = "1"
        env.setdefault("OMP_NUM_THREADS", "1")
        env.setdefault("OPENBLAS_NUM_THREADS", "1")
        env.setdefault("MKL_NUM_THREADS", "1")
        env["PYTHONDONTWRITEBYTECODE"] = "1"
        os.execve(sys.executable, [sys.executable, "-B", "-m", "mc.runner"] + sys.argv[1:], env)


def _bind_repo():
    if REPO not in sys.path[:1]:
        sys.path.insert(0, REPO)
    import warnings
    warnings.filterwarnings("ignore")
    import mouette
    f = os.path.realpath(mouette.__file__)
    if not f.startswith(os.path.realpath(REPO) + os.sep):
        print(f"HARNESS-ERROR: mouette imported from {f}, not from {REPO}")
        sys.exit(2)
    return mouette


def _load_driver(pid):
    return importlib.import_module("props." + pid.lower())


# ---------------------------------------------------------------- worker side
_driver = None


def _alarm(signum, frame):
    from .core import WatchdogTimeout
    raise WatchdogTimeout()


def _worker_init(pid):
    global _driver
    import warnings
    warnings.filterwarnings("ignore")
    _bind_repo()
    _driver = _load_driver(pid)
    signal.signal(signal.SIGALRM, _alarm)
    if os.environ.get("VERIF_DEBUG_HANG"):
        import faulthandler
        faulthandler.dump_traceback_later(int(os.environ["VERIF_DEBUG_HANG"]), repeat=False, exit=False)


def _run_one(args):
    idx, task = args
    from .core import Report, WatchdogTimeout
    rep = Report()
    err = None
    t0 = time.time()
    signal.alarm(TASK_TIMEOUT)
    stale = isinstance(task, dict) and task.get("_stale_blackboard")
    dupflag = isinstance(task, dict) and task.get("_dupflag")
    warm = isinstance(task, dict) and task.get("_warm_blackboard")
    try:
        if warm:
            from . import families
            families.WARM[0] = True
            rep.class_suffix = ":warm_attribute_blackboard"
        if stale:
            from . import families
            families.STALE[0] = True
            rep.class_suffix = ":stale_attribute_blackboard"
        if dupflag:
            import mouette
            _old_dup = mouette.config.display_duplicate_attribute_warning
            mouette.config.display_duplicate_attribute_warning = True
            rep.class_suffix = ":duplicate_attribute_flag"
        _driver.run_task(task, rep)
    except WatchdogTimeout:
        rep.violation(f"{_driver.ID}.task_terminates", "task", "hang", "task-watchdog", {"task": task})
    except Exception:
        err = traceback.format_exc()
    finally:
        signal.alarm(0)
        if warm:
            families.WARM[0] = False
            rep.counters = {"warm_blackboard:" + k: v for k, v in rep.counters.items()}
            rep.count("warm_blackboard:tasks")
        if dupflag:
            mouette.config.display_duplicate_attribute_warning = _old_dup
            rep.counters = {"duplicate_attribute_flag:" + k: v for k, v in rep.counters.items()}
            rep.count("duplicate_attribute_flag:tasks")
        if stale:
            families.STALE[0] = False
            # family-size counters of the drivers' vacuity guards count the regular tasks only
            rep.counters = {"stale_blackboard:" + k: v for k, v in rep.counters.items()}
            rep.count("stale_blackboard:tasks")
    # tag violations with the task that produced them
    for v in rep.violations:
        v["task_index"] = idx
    return idx, rep, err, time.time() - t0


# ---------------------------------------------------------------- main side
def _load_findings(pid):
    path = os.path.join(VERIF, "known_findings.json")
    if not os.path.exists(path):
        return []
    with open(path) as f:
        data = json.load(f)
    return [e for e in data.get("findings", []) if e.get("property") == pid]


def _validate_evidence(path):
    schema = "/root/.vp/EVIDENCE.schema.json"
    if not os.path.exists(schema):
        schema = os.path.join(VERIF, "mc", "EVIDENCE.schema.json")
    code = ("import json,sys,jsonschema;"
            "jsonschema.validate(json.load(open(sys.argv[1])), json.load(open(sys.argv[2])))")
    try:
        r = subprocess.run(["python3-vt", "-W", "ignore", "-c", code, path, schema],
                           capture_output=True, text=True, timeout=60)
        if r.returncode != 0:
            return r.stderr.strip().splitlines()[-1] if r.stderr.strip() else "schema validation failed"
    except FileNotFoundError:
        pass
    return None


def main():
    ap = argparse.ArgumentParser()
    ap.add_argument("prop")
    ap.add_argument("--tier", default=os.environ.get("VERIF_TIER") or "quick", choices=["quick", "thorough"])
    ap.add_argument("--replay")
    ap.add_argument("--jobs", type=int, default=int(os.environ.get("VERIF_JOBS", "0")) or (os.cpu_count() or 4))
    ap.add_argument("--only", help="debug: run only tasks whose JSON contains this substring")
    ap.add_argument("--no-confirm", action="store_true", help="debug: skip fresh-process confirmation")
    ap.add_argument("--list-tasks", action="store_true")
    args = ap.parse_args()
    pid = args.prop.upper()

    _reexec_with_hashseed()
    os.chdir(VERIF)
    if VERIF not in sys.path:
        sys.path.insert(0, VERIF)
    _bind_repo()
    from .core import Report, fingerprint, fp_str, fp_file, jsonable
    driver = _load_driver(pid)
    assert driver.ID == pid

    if args.replay:
        return _replay(driver, pid, args.replay)

    t0 = time.time()
    tasks = json.loads(json.dumps(list(driver.tasks(args.tier))))  # drivers always see JSON-pure tasks
    if hasattr(driver, "stale_variant"):
        # history deviation shared by several drivers (mc/families.py, STALE): the same task once more on meshes whose
        # attribute blackboard was filled on another geometry before the vertices were moved to the tested positions
        tasks += [dict(t, _stale_blackboard=True) for t in tasks if isinstance(t, dict) and driver.stale_variant(t, args.tier)]
    if hasattr(driver, "warm_variant"):
        # history deviation: the same task on meshes whose attribute blackboard is already filled (with valid values)
        tasks += [dict(t, _warm_blackboard=True) for t in tasks if isinstance(t, dict) and not t.get("_stale_blackboard")
                  and driver.warm_variant(t, args.tier)]
    if hasattr(driver, "dupflag_variant"):
        # configuration deviation shared by several drivers: config.display_duplicate_attribute_warning = True makes
        # create_attribute hand back an existing attribute of the same name instead of a fresh one
        tasks += [dict(t, _dupflag=True) for t in tasks if isinstance(t, dict) and not t.get("_stale_blackboard")
                  and not t.get("_warm_blackboard") and driver.dupflag_variant(t, args.tier)]
    if args.only:
        tasks = [t for t in tasks if args.only in json.dumps(t)]
    if args.list_tasks:
        for t in tasks:
            print(json.dumps(t))
        return 0
    print(f"[{pid}] tier={args.tier} seed={SEED} tasks={len(tasks)} jobs={args.jobs} repo={REPO}", flush=True)

    merged = Report()
    harness_errors = []
    slow = []
    if args.jobs <= 1 or len(tasks) <= 1:
        _worker_init(pid)
        results = map(_run_one, enumerate(tasks))
        pool = None
    else:
        from concurrent.futures import ProcessPoolExecutor
        import multiprocessing as mp
        pool = ProcessPoolExecutor(max_workers=min(args.jobs, len(tasks)), mp_context=mp.get_context("fork"),
                                   initializer=_worker_init, initargs=(pid,))
        chunk = max(1, min(32, len(tasks) // (args.jobs * 8)))
        results = pool.map(_run_one, enumerate(tasks), chunksize=chunk)
    try:
        for idx, rep, err, dt in results:
            merged.merge(rep)
            if err:
                harness_errors.append(f"task {idx} {json.dumps(tasks[idx])[:200]}: {err}")
            if dt > 60:
                slow.append((round(dt, 1), idx))
    except Exception as e:  # BrokenProcessPool etc.
        harness_errors.append(f"worker pool failed: {type(e).__name__}: {e}")
    finally:
        if pool is not None:
            pool.shutdown(wait=False, cancel_futures=True)

    try:
        guard_failures = list(driver.finish(args.tier, merged) or [])
    except Exception:
        guard_failures = ["finish() raised: " + traceback.format_exc()]

    # ---- classify violations
    known = _load_findings(pid)
    known_fp = {}
    for e in known:
        if e.get("status") == "known":
            f = e["fingerprint"]
            known_fp[(pid, f["subcheck"], f["callee"], f["kind"], f["input_class"])] = e
    by_fp = {}
    for v in merged.violations:
        by_fp.setdefault(fingerprint(pid, v), []).append(v)
    new_fps = [fp for fp in by_fp if fp not in known_fp]
    seen_known = [fp for fp in by_fp if fp in known_fp]

    for fp in seen_known:
        e = known_fp[fp]
        print(f"KNOWN-FINDING: property={pid} {e.get('what', fp_str(fp))} [{merged.fp_counts.get(tuple(fp[1:]), len(by_fp[fp]))} occurrence(s)]")
    for fp, e in known_fp.items():
        if fp not in by_fp and args.tier in e.get("tiers", ["quick", "thorough"]) and not args.only:
            print(f"STALE-FINDING: property={pid} not observed in this run: {fp_str(fp)}")

    confirmed = 0
    PRINT_CAP = int(os.environ.get("VERIF_CONFIRM_CAP", "25"))   # seeded-change evaluation confirms fewer fingerprints
    rpdir = os.path.join(os.environ.get("VERIF_REPLAY_DIR") or os.path.join(VERIF, "replay"), pid)
    os.makedirs(rpdir, exist_ok=True)
    for fp in new_fps[:PRINT_CAP]:
        v = by_fp[fp][0]
        path = os.path.join(rpdir, fp_file(fp) + ".json")
        with open(path, "w") as f:
            json.dump({"property": pid, "fingerprint": list(fp), "task": jsonable(tasks[v["task_index"]]),
                       "detail": v["detail"], "occurrences": merged.fp_counts.get(tuple(fp[1:]), len(by_fp[fp])), "tier": args.tier,
                       "seed": SEED}, f, indent=1, default=repr)
        ok = True
        if not args.no_confirm:
            for _ in range(2):
                r = subprocess.run([sys.executable, "-B", "-m", "mc.runner", pid, "--replay", path],
                                   capture_output=True, text=True, cwd=VERIF)
                if r.returncode != 1:
                    ok = False
                    harness_errors.append(f"non-reproducible violation {fp_str(fp)}: replay exit {r.returncode}\n"
                                          + r.stdout[-500:] + r.stderr[-500:])
                    break
        if ok:
            confirmed += 1
            print(f"VIOLATION property={pid} replay={path}")
            print(f"  fingerprint: {fp_str(fp)}")
            print(f"  occurrences: {merged.fp_counts.get(tuple(fp[1:]), len(by_fp[fp]))}  detail: {json.dumps(v['detail'], default=repr)[:600]}")
    if len(new_fps) > PRINT_CAP:
        print(f"  ... and {len(new_fps) - PRINT_CAP} more distinct fingerprints (not confirmed individually)")
        confirmed += len(new_fps) - PRINT_CAP

    wall = time.time() - t0
    # ---- evidence
    cov = {
        "states": merged.states,
        "transitions": merged.transitions,
        "traces_validated_against_impl": merged.traces,
        "evaluations": merged.evaluations,
        "distinct_nontrivial": len(merged.distinct),
        "rule": getattr(driver, "RULE", ""),
        "samples": merged.samples[:4] or [jsonable(tasks[0])] if tasks else [],
        "exhaustive": not bool(getattr(driver, "CAPPED", False)) and not harness_errors,
        "tasks": len(tasks),
        "counters": dict(sorted(merged.counters.items())),
        "coverage_flags": sorted(merged.flags),
        "distinct_outcomes_per_event_kind": {k: len(v) for k, v in sorted(merged.outcomes.items())},
        "bounds": getattr(driver, "BOUNDS", {}).get(args.tier, ""),
        "known_findings_observed": [fp_str(fp) for fp in seen_known],
        "new_violation_fingerprints": [fp_str(fp) for fp in new_fps],
        "python_hash_seed": os.environ.get("PYTHONHASHSEED"),
        "explanation": getattr(driver, "LEVEL_TEXT", ""),
    }
    ev = {
        "property_id": pid, "tier": args.tier, "seed": SEED, "level": "model_checking",
        "coverage": cov,
        "assumptions": list(getattr(driver, "ASSUMPTIONS", [])),
        "wall_s": round(wall, 2),
        "violations": len(new_fps),
    }
    evdir = os.environ.get("VERIF_EVIDENCE_DIR") or os.path.join(VERIF, "evidence")   # seeded-change runs write elsewhere
    os.makedirs(evdir, exist_ok=True)
    evpath = os.path.join(evdir, pid + ".json")
    with open(evpath, "w") as f:
        json.dump(ev, f, indent=1, default=repr)
    bad = _validate_evidence(evpath)
    if bad:
        harness_errors.append("evidence does not validate: " + bad)

    print(f"[{pid}] states={merged.states} transitions={merged.transitions} traces={merged.traces} "
          f"evaluations={merged.evaluations} distinct={len(merged.distinct)} "
          f"known={len(seen_known)} new={len(new_fps)} wall={wall:.1f}s")
    if slow:
        print(f"[{pid}] slow tasks (s, index): {sorted(slow, reverse=True)[:5]}")
    for g in guard_failures:
        print(f"HARNESS-ERROR: vacuity guard: {g}")
    for h in harness_errors:
        print(f"HARNESS-ERROR: {h}")
    if new_fps and confirmed:
        return 1
    if guard_failures or harness_errors:
        return 2
    return 0


def _replay(driver, pid, path):
    from .core import Report, fingerprint, fp_str
    with open(path) as f:
        data = json.load(f)
    want = tuple(data["fingerprint"])
    _worker_init(pid)
    rep = Report()
    rep.stop_on = tuple(want[1:])
    signal.alarm(TASK_TIMEOUT)
    if isinstance(data["task"], dict) and data["task"].get("_stale_blackboard"):
        from . import families
        families.STALE[0] = True
        rep.class_suffix = ":stale_attribute_blackboard"
    if isinstance(data["task"], dict) and data["task"].get("_warm_blackboard"):
        from . import families
        families.WARM[0] = True
        rep.class_suffix = ":warm_attribute_blackboard"
    if isinstance(data["task"], dict) and data["task"].get("_dupflag"):
        import mouette
        mouette.config.display_duplicate_attribute_warning = True
        rep.class_suffix = ":duplicate_attribute_flag"
    try:
        driver.run_task(_detuple(data["task"]), rep)
    except BaseException as e:
        from .core import WatchdogTimeout, ReplayHit
        if isinstance(e, WatchdogTimeout):
            try:
                rep.violation(f"{pid}.task_terminates", "task", "hang", "task-watchdog", {})
            except ReplayHit:
                pass
        elif isinstance(e, ReplayHit):
            pass
        else:
            raise
    finally:
        signal.alarm(0)
    hits = [v for v in rep.violations if fingerprint(pid, v) == want]
    if hits:
        print(f"REPRODUCED property={pid} {fp_str(want)}")
        print(json.dumps(hits[0]["detail"], indent=1, default=repr)[:4000])
        return 1
    print(f"NOT-REPRODUCED property={pid} {fp_str(want)} (other violations: {len(rep.violations)})")
    return 0


def _detuple(x):
    """Tasks are written as JSON (tuples become lists); drivers must accept lists."""
    return x


if __name__ == "__main__":
    sys.exit(main())
