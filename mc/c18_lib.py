"""Independent geometry / operator oracle for C18 (surface frame fields).

Everything here is computed from the raw point and face lists with plain numpy: half-edge table, border,
Euler characteristic, corner cotangents, and the two connection Laplacians (on faces / on vertices) in
dense form.  Nothing from mouette is imported.  The only library data the oracles accept are the ones the
property statement names as given: the local bases / edge angles of the library's connection and the set
of feature edges.
"""
from __future__ import annotations
import cmath, itertools, math
import numpy as np


class Geo:
    """Array/incidence-list view of an oriented triangle complex with coordinates."""

    def __init__(self, pts, faces):
        self.P = np.array([[float(c) for c in (list(p) + [0.0])[:3]] for p in pts], dtype=float)
        self.F = [tuple(int(v) for v in f) for f in faces]
        self.n = len(pts)
        self.he = {}                       # directed edge -> index of the face on its left
        for t, f in enumerate(self.F):
            assert len(f) == 3
            for i in range(3):
                k = (f[i], f[(i + 1) % 3])
                assert k not in self.he, "non-manifold / inconsistently oriented input"
                self.he[k] = t
        self.E = sorted({(min(a, b), max(a, b)) for (a, b) in self.he})
        self.border_edges = {e for e in self.E if not (e in self.he and (e[1], e[0]) in self.he)}
        self.border_vertices = {v for e in self.border_edges for v in e}
        used = {v for f in self.F for v in f}
        self.chi = len(used) - len(self.E) + len(self.F)
        self.closed = not self.border_edges
        self.N = np.zeros((len(self.F), 3))
        for t, (a, b, c) in enumerate(self.F):
            nrm = np.cross(self.P[b] - self.P[a], self.P[c] - self.P[a])
            self.N[t] = nrm / np.linalg.norm(nrm)

    # ---- elementary geometry
    def cot_at(self, t, i):
        """cotangent of the corner of face t at its i-th vertex"""
        f = self.F[t]
        a, b, c = self.P[f[i]], self.P[f[(i + 1) % 3]], self.P[f[(i + 2) % 3]]
        u, v = b - a, c - a
        return float(np.dot(u, v) / np.linalg.norm(np.cross(u, v)))

    def cot_opposite(self, t, a, b):
        """cotangent of the corner of face t opposite to its edge {a,b}"""
        f = self.F[t]
        i = [k for k in range(3) if f[k] not in (a, b)][0]
        return self.cot_at(t, i)

    def min_angle_deg(self):
        best = 180.0
        for t in range(len(self.F)):
            for i in range(3):
                best = min(best, math.degrees(math.atan2(1.0, self.cot_at(t, i)) % math.pi))
        return best

    def faces_of_edge(self, a, b):
        """(face left of a->b, face left of b->a), None where absent"""
        return self.he.get((a, b)), self.he.get((b, a))

    def edge_faces_list(self, e):
        return [t for t in self.faces_of_edge(*e) if t is not None]

    def dihedral_dots(self):
        out = {}
        for (a, b) in self.E:
            t1, t2 = self.faces_of_edge(a, b)
            if t1 is not None and t2 is not None:
                out[(a, b)] = float(np.dot(self.N[t1], self.N[t2]))
        return out


def edge_angle(E, X, Y):
    return math.atan2(float(np.dot(E, Y)), float(np.dot(E, X)))


def basis_defect(geo: Geo, t, X, Y):
    """How far (X,Y) is from a direct orthonormal basis of the plane of face t (0 = perfect)."""
    X, Y = np.asarray(X, float), np.asarray(Y, float)
    return max(abs(np.dot(X, X) - 1), abs(np.dot(Y, Y) - 1), abs(np.dot(X, Y)),
               float(np.linalg.norm(np.cross(X, Y) - geo.N[t])))


def face_connection_laplacian(geo: Geo, bases, order, cotan):
    """Dense connection Laplacian on faces, assembled from the definition: sum over interior edges of
    w_e |x_T1 - r_12 x_T2|^2, r_12 = exp(i*order*(angle of e in T1's basis - angle of e in T2's basis)),
    w_e = 1/(cot a + cot b) (dual of the cotangent weight) or 1. Returns (L, smallest |cot a + cot b|)."""
    nf = len(geo.F)
    L = np.zeros((nf, nf), dtype=complex)
    worst = math.inf
    for (a, b) in geo.E:
        t1, t2 = geo.faces_of_edge(a, b)
        if t1 is None or t2 is None:
            continue
        Ev = geo.P[b] - geo.P[a]
        a1 = edge_angle(Ev, *bases[t1])
        a2 = edge_angle(Ev, *bases[t2])
        r = cmath.exp(1j * order * (a1 - a2))
        if cotan:
            s = geo.cot_opposite(t1, a, b) + geo.cot_opposite(t2, a, b)
            worst = min(worst, abs(s))
            w = 1.0 / s if abs(s) > 1e-12 else 0.0
        else:
            w = 1.0
        # gradient row g: g[t1] = 1, g[t2] = -r ; L += w * g^H g
        L[t1, t1] += w
        L[t2, t2] += w
        L[t1, t2] += -w * r
        L[t2, t1] += -w * r.conjugate()
    return L, worst


def vertex_connection_laplacian(geo: Geo, transport, order, cotan):
    """Dense connection Laplacian on vertices: (Lx)_i = sum_j w_ij (x_i - r_ij x_j) with
    r_ij = exp(i*order*(a_ij - a_ji - pi)) where a_ij = angle of edge i->j in the chart of i (`transport(i,j)`),
    w_ij = (cot a + cot b)/2 or 1."""
    n = geo.n
    L = np.zeros((n, n), dtype=complex)
    for (i, j) in geo.E:
        w = 0.0
        if cotan:
            for t in geo.edge_faces_list((i, j)):
                w += 0.5 * geo.cot_opposite(t, i, j)
        else:
            w = 1.0
        r = cmath.exp(1j * order * (transport(i, j) - transport(j, i) - math.pi))
        L[i, i] += w
        L[j, j] += w
        L[i, j] += -w * r
        L[j, i] += -w * r.conjugate()
    return L


def harmonic_extension(L, free, fixed, xB):
    """Solve L_II x = -L_IB xB densely. Returns (x, cond(L_II))."""
    LII = L[np.ix_(free, free)]
    LIB = L[np.ix_(free, fixed)]
    cond = float(np.linalg.cond(LII))
    if not np.isfinite(cond) or cond > 1e12:
        return None, cond
    # singular without being ill-conditioned: the whole free block vanishes against the operator (cotangent weights of a
    # non-Delaunay lattice triangulation that cancel exactly leave entries of 1e-16)
    if float(np.linalg.svd(LII, compute_uv=False)[-1]) < 1e-8 * float(np.abs(L).max()):
        return None, math.inf
    x = np.linalg.solve(LII, -LIB @ np.asarray(xB, dtype=complex))
    return x, cond


def angle_err(z1, z2, order):
    """difference of the directions represented by z1 and z2 (representation = direction**order), in radians"""
    return abs(cmath.phase(z1 * z2.conjugate())) / order


# ------------------------------------------------------------------------------------------ inputs
def orient2d(a, b, c):
    return (b[0] - a[0]) * (c[1] - a[1]) - (b[1] - a[1]) * (c[0] - a[0])


def start_triangulation(points, nhull):
    """fan of the convex hull (first nhull points, ccw), interior points inserted by 1->3 splits"""
    faces = [(0, i, i + 1) for i in range(1, nhull - 1)]
    for p in range(nhull, len(points)):
        for i, t in enumerate(faces):
            a, b, c = (points[v] for v in t)
            P = points[p]
            if orient2d(a, b, P) > 0 and orient2d(b, c, P) > 0 and orient2d(c, a, P) > 0:
                faces[i:i + 1] = [(t[0], t[1], p), (t[1], t[2], p), (t[2], t[0], p)]
                break
        else:
            raise ValueError("point %d is not strictly inside a triangle" % p)
    return faces


def general_position(points, nhull):
    n = len(points)
    if any(orient2d(*(points[v] for v in t)) == 0 for t in itertools.combinations(range(n), 3)):
        return False
    return all(orient2d(points[i], points[(i + 1) % nhull], points[(i + 2) % nhull]) > 0 for i in range(nhull))


# planar point sets: (points, size of the convex hull listed first, counter-clockwise)
POINT_SETS = {
    "t3+1": ([(0, 0), (8, 0), (3, 7), (4, 2)], 3),
    "q4": ([(0, 0), (6, 0), (7, 5), (1, 6)], 4),
    "q4+1": ([(0, 0), (6, 0), (7, 5), (1, 6), (3, 2)], 4),
    "t3+2": ([(0, 0), (9, 0), (3, 8), (3, 2), (5, 3)], 3),
    "p5": ([(0, 0), (6, -1), (9, 4), (4, 8), (-1, 5)], 5),
    "p5+1": ([(0, 0), (6, -1), (9, 4), (4, 8), (-1, 5), (4, 3)], 5),
    "q4+2": ([(0, 0), (8, 0), (9, 7), (1, 8), (3, 2), (6, 5)], 4),
    "h6": ([(0, 0), (5, -2), (10, 1), (11, 6), (5, 9), (-1, 5)], 6),
    "h6+1": ([(0, 0), (5, -2), (10, 1), (11, 6), (5, 9), (-1, 5), (6, 4)], 6),
    "p5+2": ([(0, 0), (6, -1), (9, 4), (4, 8), (-1, 5), (3, 2), (5, 5)], 5),
    "h7": ([(0, 0), (5, -2), (10, 1), (12, 6), (8, 10), (2, 10), (-2, 5)], 7),
    "h6+2": ([(0, 0), (5, -2), (10, 1), (11, 6), (5, 9), (-1, 5), (3, 3), (7, 5)], 6),
    "h8": ([(0, 0), (4, -2), (9, -1), (12, 3), (11, 8), (6, 11), (1, 9), (-2, 4)], 8),
}
LIFT = 16    # z = (x^2 + y^2) / LIFT


def lift(points2d):
    return [(float(x), float(y), (x * x + y * y) / LIFT) for x, y in points2d]


def flat(points2d):
    return [(float(x), float(y), 0.0) for x, y in points2d]


# ------------------------------------------------------------------------------------------ planar lattice polygons
# Simple polygons with integer vertices whose border corners have turning angles of exactly 45, 90 or 135
# degrees (and -90 at the reflex corner of the L), optionally with interior lattice points.  Layout as in
# POINT_SETS: (points, number of boundary points listed first, counter-clockwise); the remaining points are
# strictly interior.  No three points are collinear (exact predicate `lattice_general_position`), so every
# triangulation is non-degenerate and the flip graph explored by families.tri_enum is the full set.
LATTICE_SETS = {
    "trap": ([(0, 0), (4, 0), (8, 4), (0, 4)], 4),                          # turning 90, 45, 135, 90
    "trap+1": ([(0, 0), (4, 0), (8, 4), (0, 4), (3, 2)], 4),
    "rect+1": ([(0, 0), (6, 0), (6, 4), (0, 4), (2, 1)], 4),                # 90 x 4, asymmetric interior point
    "rtri+1": ([(0, 0), (6, 0), (0, 6), (1, 2)], 3),                        # 90, 135, 135
    "para+1": ([(0, 0), (4, 0), (6, 2), (2, 2), (2, 1)], 4),                # 135, 45, 135, 45
    "house": ([(0, 0), (4, 0), (4, 4), (2, 6), (0, 4)], 5),                 # 90, 90, 45, 90, 45
    "house+1": ([(0, 0), (4, 0), (4, 4), (2, 6), (0, 4), (1, 2)], 5),
    "ell": ([(0, 0), (7, 0), (7, 3), (3, 3), (3, 5), (0, 5)], 6),           # 90 x 5, one reflex corner (-90)
    "ell+1": ([(0, 0), (7, 0), (7, 3), (3, 3), (3, 5), (0, 5), (1, 4)], 6),
    "hex": ([(0, 0), (4, 0), (6, 2), (6, 6), (2, 6), (0, 4)], 6),           # 90, 45, 45, 90, 45, 45
    "hex+1": ([(0, 0), (4, 0), (6, 2), (6, 6), (2, 6), (0, 4), (3, 2)], 6),
}


def _in_closed_triangle(p, a, b, c):
    return orient2d(a, b, p) >= 0 and orient2d(b, c, p) >= 0 and orient2d(c, a, p) >= 0


def polygon_start_triangulation(points, nb):
    """ear clipping of the simple polygon points[:nb] (ccw, exact integer predicates), interior points
    inserted by 1->3 splits"""
    idx = list(range(nb))
    faces = []
    while len(idx) > 3:
        for k in range(len(idx)):
            a, b, c = idx[k - 1], idx[k], idx[(k + 1) % len(idx)]
            if orient2d(points[a], points[b], points[c]) <= 0:
                continue
            if any(_in_closed_triangle(points[q], points[a], points[b], points[c]) for q in idx if q not in (a, b, c)):
                continue
            faces.append((a, b, c))
            idx.pop(k)
            break
        else:
            raise ValueError("no ear: not a simple counter-clockwise polygon")
    faces.append(tuple(idx))
    for p in range(nb, len(points)):
        for i, t in enumerate(faces):
            a, b, c = (points[v] for v in t)
            P = points[p]
            if orient2d(a, b, P) > 0 and orient2d(b, c, P) > 0 and orient2d(c, a, P) > 0:
                faces[i:i + 1] = [(t[0], t[1], p), (t[1], t[2], p), (t[2], t[0], p)]
                break
        else:
            raise ValueError("point %d is not strictly inside a triangle" % p)
    return faces


def lattice_general_position(points, nb):
    """integer coordinates, no three points collinear, the boundary is a counter-clockwise simple polygon whose
    ear-clipping triangulation has exactly the polygon's area (exact)"""
    if not all(isinstance(c, int) for p in points for c in p):
        return False
    n = len(points)
    if any(orient2d(*(points[v] for v in t)) == 0 for t in itertools.combinations(range(n), 3)):
        return False
    shoelace = sum(points[i][0] * points[(i + 1) % nb][1] - points[(i + 1) % nb][0] * points[i][1] for i in range(nb))
    try:
        tri = polygon_start_triangulation(points, nb)
    except ValueError:
        return False
    areas = [orient2d(*(points[v] for v in t)) for t in tri]
    return shoelace > 0 and all(a > 0 for a in areas) and sum(areas) == shoelace


def gauss_pow(re, im, k):
    """(re + i im)**k in exact integer arithmetic"""
    a, b = 1, 0
    for _ in range(k):
        a, b = a * re - b * im, a * im + b * re
    return a, b


def turning(e_in, e_out):
    """Gaussian integer e_out * conj(e_in): its argument is the turning angle between the two edge vectors"""
    return (e_out[0] * e_in[0] + e_out[1] * e_in[1], e_out[1] * e_in[0] - e_out[0] * e_in[1])


def turning_class(re, im):
    """exact class of a turning angle given as a Gaussian integer: multiples of 45 degrees are named, the rest is 'other'"""
    if im == 0:
        return "0" if re > 0 else "180"
    s = "" if im > 0 else "-"
    if re == 0:
        return s + "90"
    if re == abs(im):
        return s + "45"
    if -re == abs(im):
        return s + "135"
    return "other"


def opposed(re, im, order):
    """True iff order * (turning angle) = 180 degrees mod 360, exactly: the order-th powers of the two unit edge
    directions are opposite"""
    a, b = gauss_pow(re, im, order)
    return b == 0 and a < 0


def integer_planar(pts):
    """[(x, y)] as Python ints if every point has integer x, y and z = 0 (exact predicates apply), else None"""
    out = []
    for p in pts:
        q = [float(c) for c in (list(p) + [0.0])[:3]]
        if q[2] != 0.0 or not (q[0].is_integer() and q[1].is_integer()):
            return None
        out.append((int(q[0]), int(q[1])))
    return out


# ------------------------------------------------------------------------------------------ commensurable planar polygons
# Planar polygons (z = 0) whose border angles are exact multiples of pi/m, given in LATTICE coordinates: a point is an
# integer pair (a, b) meaning a + b*w with w = exp(i*pi/m) for m = 2 (Gaussian integers, w = i) and m = 3 (Eisenstein
# integers, w = exp(i*pi/3)), so orientation predicates and the angle predicate below are integer arithmetic; for m = 5
# (no planar lattice) the border is a closed turtle path of unit steps in the directions k*pi/5 (zonogon: closed exactly
# in exact arithmetic, to round-off in floating point), the corner angles are integer arithmetic on the direction
# indices, and the interior points are in general position (margin asserted).  Layout: (m, border ccw, interior).
# A vertex-based field of order n snaps the chart of a border vertex to the nearest multiple of 2*pi/n: where the border
# angle IS a positive multiple of 2*pi/n nothing is snapped and the connection of the planar domain is flat.
COMM_SETS = {
    # m = 2: rectangle / L / rectangle with mid-side vertices (90, 180, 270 degrees: order 4; 180 alone: order 2)
    "c2:rect+1": (2, [(0, 0), (6, 0), (6, 4), (0, 4)], [(2, 1)]),
    "c2:rect+2": (2, [(0, 0), (6, 0), (6, 4), (0, 4)], [(2, 1), (4, 3)]),
    "c2:ell+1": (2, [(0, 0), (7, 0), (7, 3), (3, 3), (3, 5), (0, 5)], [(1, 4)]),
    "c2:rectm+1": (2, [(0, 0), (3, 0), (6, 0), (6, 4), (2, 4), (0, 4)], [(2, 1)]),
    # m = 3 (Eisenstein coordinates): hexagon (120 x 6: orders 3, 6), rhombus and trapezoid (60 / 120: order 6),
    # equilateral triangle with mid-side vertices (60, 180: order 6)
    "c3:hex+1": (3, [(2, 0), (0, 2), (-2, 2), (-2, 0), (0, -2), (2, -2)], [(0, 1)]),
    "c3:hex+2": (3, [(3, 0), (0, 3), (-3, 3), (-3, 0), (0, -3), (3, -3)], [(1, 1), (-2, 0)]),
    "c3:rhomb+1": (3, [(0, 0), (4, 0), (4, 3), (0, 3)], [(2, 1)]),
    "c3:trap+1": (3, [(0, 0), (5, 0), (3, 2), (0, 2)], [(2, 1)]),
    "c3:trim+1": (3, [(0, 0), (2, 0), (4, 0), (2, 2), (0, 4), (0, 2)], [(1, 1)]),
    # m = 5 (turtle: (direction index k -> unit step exp(i*k*pi/5), number of unit steps), one border vertex per entry):
    # hexagon with the angles 144, 144, 72, 144, 144, 72 degrees (multiples of 72: order 5)
    "c5:zono+2": (5, [(0, 2), (1, 2), (2, 2), (5, 2), (6, 2), (7, 2)], [(0.9, 1.3), (1.7, 2.6)]),
}


def _lat_mul(m, x, y):
    """product in Z[w], w = exp(i*pi/m): m = 2: w^2 = -1, m = 3: w^2 = w - 1"""
    a, b = x
    c, d = y
    if m == 2:
        return (a * c - b * d, a * d + b * c)
    return (a * c - b * d, a * d + b * c + b * d)


def _lat_conj(m, x):
    a, b = x
    return (a, -b) if m == 2 else (a + b, -b)


def comm_points(name):
    """-> (points as floats (x, y), points for the orientation predicates (integers for m = 2, 3), number of border points)"""
    m, border, interior = COMM_SETS[name]
    if m in (2, 3):
        lat = list(border) + list(interior)
        wx, wy = (0.0, 1.0) if m == 2 else (0.5, math.sqrt(3.0) / 2.0)
        return [(a + b * wx, b * wy) for a, b in lat], lat, len(border)
    x, y, pts = 0.0, 0.0, []
    for k, steps in border:
        pts.append((x, y))
        x += steps * math.cos(k * math.pi / m)
        y += steps * math.sin(k * math.pi / m)
    assert abs(x) < 1e-12 and abs(y) < 1e-12, "turtle path is not closed"
    pts += [tuple(map(float, p)) for p in interior]
    for t in itertools.combinations(range(len(pts)), 3):
        assert abs(orient2d(*(pts[v] for v in t))) > 1e-6, ("not in general position", name, t)
    return pts, pts, len(border)


def comm_border_angle_is_multiple(name, v, order):
    """EXACT: the interior angle of the polygon at its border vertex v is a positive multiple of 2*pi/order"""
    m, border, _ = COMM_SETS[name]
    nb = len(border)
    if m in (2, 3):
        p, q, r = border[(v - 1) % nb], border[v], border[(v + 1) % nb]
        e_in, e_out = (q[0] - p[0], q[1] - p[1]), (r[0] - q[0], r[1] - q[1])
        z = _lat_mul(m, e_out, _lat_conj(m, e_in))          # argument = turning angle
        zc = _lat_conj(m, z)
        x = (-zc[0], -zc[1])                                  # argument = pi - turning = interior angle
        acc = (1, 0)
        for _ in range(order):
            acc = _lat_mul(m, acc, x)
        return acc[1] == 0 and acc[0] > 0
    dk = (border[v][0] - border[(v - 1) % nb][0]) % (2 * m)
    if dk >= m:
        dk -= 2 * m                                           # turning angle = dk * pi/m in (-pi, pi)
    return ((m - dk) * order) % (2 * m) == 0                  # interior angle (m - dk) * pi/m is a multiple of 2*pi/order


def comm_start_triangulation(name):
    pts, opts, nb = comm_points(name)
    tri = polygon_start_triangulation(opts[:nb], nb)
    for p in range(nb, len(opts)):
        P = opts[p]
        for i, t in enumerate(tri):
            o = [orient2d(opts[t[k]], opts[t[(k + 1) % 3]], P) for k in range(3)]
            if min(o) > 0:                                   # strictly inside: 1 -> 3
                tri[i:i + 1] = [(t[0], t[1], p), (t[1], t[2], p), (t[2], t[0], p)]
                break
            if min(o) == 0 and sorted(o)[1] > 0:             # on the open edge t[k] t[k+1]: split the two faces of that edge
                k = o.index(0)
                a, b, c = t[k], t[(k + 1) % 3], t[(k + 2) % 3]
                j, t2 = [(j, u) for j, u in enumerate(tri) if j != i and a in u and b in u][0]
                d = [v for v in t2 if v not in (a, b)][0]
                tri = [u for h, u in enumerate(tri) if h not in (i, j)] + [(a, p, c), (p, b, c), (b, p, d), (p, a, d)]
                break
        else:
            raise ValueError("point %d is not inside the polygon" % p)
    area2 = sum(opts[i][0] * opts[(i + 1) % nb][1] - opts[(i + 1) % nb][0] * opts[i][1] for i in range(nb))
    areas = [orient2d(*(opts[v] for v in t)) for t in tri]
    assert all(a > 0 for a in areas) and abs(sum(areas) - area2) <= 1e-9 * abs(area2), name
    return tri


def gaussian_border_angle_is_multiple(ipts, prv, v, nxt, order):
    """the same exact predicate for planar integer points (Gaussian integers): inputs of the other planar families"""
    e_in = (ipts[v][0] - ipts[prv][0], ipts[v][1] - ipts[prv][1])
    e_out = (ipts[nxt][0] - ipts[v][0], ipts[nxt][1] - ipts[v][1])
    z = _lat_mul(2, e_out, _lat_conj(2, e_in))
    x = (-z[0], z[1])                                         # -conj(z)
    acc = (1, 0)
    for _ in range(order):
        acc = _lat_mul(2, acc, x)
    return acc[1] == 0 and acc[0] > 0
