"""C15 helpers: input families for the feature detector and an exact (fractions.Fraction) reference for
"which edges are features", written from the property statement. No mouette import here.

Reference, per undirected edge of the face list:
  * border      = exactly one of its two directed versions occurs in a face;
  * angle band  = position of the angle between the two adjacent face normals relative to 60 deg
                  (cos 0.5) and acos(0.8) (~36.87 deg), decided by *exact* rational comparisons of
                  (N1.N2)^2 against c^2 |N1|^2 |N2|^2 on the exact values of the float coordinates; N = area
                  vector of the (planar) face, so it does not depend on which corner a face is listed from;
  * an angle within MARGIN rad of a threshold is 'near..' = excluded from the comparison (rule 6).
"""
from __future__ import annotations
import math
from fractions import Fraction as Fr
from . import families as F

MARGIN = 1e-3
TH60 = math.acos(0.5)
TH37 = math.acos(0.8)
_C = {
    "60lo": Fr(math.cos(TH60 + MARGIN)), "60hi": Fr(math.cos(TH60 - MARGIN)),
    "37lo": Fr(math.cos(TH37 + MARGIN)), "37hi": Fr(math.cos(TH37 - MARGIN)),
}


def _sub(a, b): return (a[0] - b[0], a[1] - b[1], a[2] - b[2])
def _dot(a, b): return a[0] * b[0] + a[1] * b[1] + a[2] * b[2]
def _cross(a, b): return (a[1] * b[2] - a[2] * b[1], a[2] * b[0] - a[0] * b[2], a[0] * b[1] - a[1] * b[0])


def _cos_cmp(d, q, x):
    """sign of d/sqrt(q) - x for rational x > 0, q > 0 (exact)."""
    if d <= 0:
        return -1
    lhs, rhs = d * d, x * x * q
    return (lhs > rhs) - (lhs < rhs)


def band_of(d, q):
    """'>60' | 'near60' | '37-60' | 'near37' | '<37' for cos = d/sqrt(q)."""
    if _cos_cmp(d, q, _C["60lo"]) < 0:
        return ">60"
    if _cos_cmp(d, q, _C["60hi"]) <= 0:
        return "near60"
    if _cos_cmp(d, q, _C["37lo"]) < 0:
        return "37-60"
    if _cos_cmp(d, q, _C["37hi"]) <= 0:
        return "near37"
    return "<37"


def face_geometry(P, f):
    """(area vector N, shape) with shape in 'tri' | 'convex' | 'nonconvex' | 'nonplanar' | 'degenerate'."""
    k = len(f)
    o = P[f[0]]
    N = (Fr(0), Fr(0), Fr(0))
    for i in range(1, k - 1):
        c = _cross(_sub(P[f[i]], o), _sub(P[f[i + 1]], o))
        N = (N[0] + c[0], N[1] + c[1], N[2] + c[2])
    if _dot(N, N) == 0:
        return N, "degenerate"
    if k == 3:
        return N, "tri"
    shape = "convex"
    for i in range(k):
        a, b, c = P[f[i]], P[f[(i + 1) % k]], P[f[(i + 2) % k]]
        ci = _cross(_sub(b, a), _sub(c, b))
        if _dot(ci, ci) == 0:
            return N, "degenerate"
        x = _cross(ci, N)
        if _dot(x, x) != 0:
            return N, "nonplanar"
        if _dot(ci, N) < 0:
            shape = "nonconvex"
    return N, shape


class FeatureOracle:
    """Everything the statement needs about one (points, faces) input."""

    def __init__(self, pts, faces):
        self.n = len(pts)
        self.faces = [tuple(f) for f in faces]
        P = [tuple(Fr(x) for x in p) for p in pts]
        self.shapes, normals = [], []
        for f in self.faces:
            N, s = face_geometry(P, f)
            normals.append(N); self.shapes.append(s)
        self.usable = all(s in ("tri", "convex", "nonconvex") for s in self.shapes)
        he = {}
        for i, f in enumerate(self.faces):
            for a, b in F.directed_edges(f):
                he[(a, b)] = i
        self.edges = sorted(F.undirected_edges(self.faces))
        self.border = {}
        self.band = {}
        self.nonconvex = {}
        for (a, b) in self.edges:
            f1, f2 = he.get((a, b)), he.get((b, a))
            if f1 is None or f2 is None:
                self.border[(a, b)] = True
                self.band[(a, b)] = "border"
                self.nonconvex[(a, b)] = False
                continue
            self.border[(a, b)] = False
            self.nonconvex[(a, b)] = self.shapes[f1] == "nonconvex" or self.shapes[f2] == "nonconvex"
            if not self.usable:
                self.band[(a, b)] = "?"
                continue
            N1, N2 = normals[f1], normals[f2]
            self.band[(a, b)] = band_of(_dot(N1, N2), _dot(N1, N1) * _dot(N2, N2))
        # angle sums (float; only used with a 1e-6 guard band around rounding ties)
        self.angle_sum = [0.0] * self.n
        self.reflex_vertex = [False] * self.n
        fp = [tuple(float(x) for x in p) for p in pts]
        for fi, f in enumerate(self.faces):
            k = len(f)
            for i in range(k):
                pv, pa, pb = fp[f[i]], fp[f[i - 1]], fp[f[(i + 1) % k]]
                u, w = _sub(pa, pv), _sub(pb, pv)
                c = _dot(u, w) / math.sqrt(_dot(u, u) * _dot(w, w))
                self.angle_sum[f[i]] += math.acos(max(-1.0, min(1.0, c)))
            if self.shapes[fi] == "nonconvex":
                for v in f:
                    self.reflex_vertex[v] = True      # interior angle is ambiguous (reflex) somewhere in this face

    def expected(self, e, declared, only_border):
        """True / False / None (= not decided: within the guard band of the threshold that matters)."""
        if self.border[e]:
            return True
        if only_border:
            return False
        b = self.band[e]
        if b == "?":
            return None
        if b == ">60":
            return True
        if b == "near60":
            return True if declared else None
        if b == "37-60":
            return bool(declared)
        if b == "near37":
            return None if declared else False
        return False


# ------------------------------------------------------------------------------------------ angle grids
def offsets(count, lo=1.2e-3, hi=0.4):
    """`count` offsets, geometrically spaced from lo to hi (radians)."""
    r = (hi / lo) ** (1.0 / (count - 1))
    return [lo * r ** i for i in range(count)]


def angle_grid(per_side):
    """per_side values on each side of each of the two thresholds + a few far values."""
    g = []
    for th in (TH60, TH37):
        for d in offsets(per_side):
            g += [th - d, th + d]
    g += [0.0, 0.15, 0.5 * (TH37 + TH60), math.pi / 2, 2.0, 2.6, 3.0]
    g += [TH60 - 4e-4, TH60 + 4e-4, TH37 - 4e-4, TH37 + 4e-4]      # inside the guard band: must be filtered, not compared
    return sorted(set(g))


# ------------------------------------------------------------------------------------------ families
def hinge(theta, shape=0, flip=False):
    """Two triangles sharing edge (0,1); the angle between their normals is |theta| (up to rounding of the
    coordinates; the oracle classifies the rounded coordinates exactly)."""
    c, s = math.cos(theta), math.sin(theta)
    if shape == 0:
        # generic corner angles (no rounding ties of the corner orders); normals (0,0,1) and (0,s,c)
        pts = [(0, 0, 0), (1, 0, 0), (0.3, 1.1, 0), (0.4, -0.9 * c, 0.9 * s)]
    else:
        pts = [(0, 0, 0), (2, 0, 0), (3, 2, 0), (-2, -3 * c, 3 * s)]
    faces = [(0, 1, 2), (1, 0, 3)]
    if flip:
        faces = [(1, 0, 2), (0, 1, 3)]
    return [list(map(float, p)) for p in pts], [list(f) for f in faces]


def accordion(k, l, mode, thetas):
    """k x l grid whose k lines i=const are the fold lines of an accordion: panels are exactly planar
    (parallelograms), the normals of panels i-1 and i differ by |thetas[i-1]|; diagonals are flat."""
    assert len(thetas) == k - 2
    xs, zs, phi = [0.0], [0.0], 0.0
    for i in range(1, k):
        xs.append(xs[-1] + math.cos(phi)); zs.append(zs[-1] + math.sin(phi))
        if i - 1 < len(thetas):
            phi += thetas[i - 1]
    _, faces = F.grid(k, l, mode)
    pts = [[xs[i], float(j), zs[i]] for i in range(k) for j in range(l)]
    return pts, [list(f) for f in faces]


def cone(k, h, closed_bottom=None):
    """k-gon cone (apex = vertex k at height h over the unit k-gon); closed_bottom = depth of a second apex
    (bipyramid) or None (open: the k-gon is the border)."""
    pts = [[math.cos(2 * math.pi * i / k), math.sin(2 * math.pi * i / k), 0.0] for i in range(k)]
    if k == 4:
        pts = [[1.0, 0.0, 0.0], [0.0, 1.0, 0.0], [-1.0, 0.0, 0.0], [0.0, -1.0, 0.0]]
    pts.append([0.0, 0.0, float(h)])
    faces = [[i, (i + 1) % k, k] for i in range(k)]
    if closed_bottom is not None:
        pts.append([0.0, 0.0, -float(closed_bottom)])
        faces += [[(i + 1) % k, i, k + 1] for i in range(k)]
    return pts, faces


def nonconvex_flat(rot0, rot1):
    """Flat square split into a non-convex quad (reflex vertex 4) and its complement, each face listed from
    a different corner."""
    pts = [[0., 0., 0.], [4., 0., 0.], [4., 4., 0.], [0., 4., 0.], [2., 1., 0.]]
    f0, f1 = (0, 1, 4, 3), (1, 2, 3, 4)
    return pts, [list(f0[rot0:] + f0[:rot0]), list(f1[rot1:] + f1[:rot1])]


def swiss(mode):
    """5 x 8 grid with three separated interior holes: one component, four border loops."""
    pts, faces = F.grid(5, 8, "quad")
    holes = {(1, 1), (2, 3), (1, 5)}
    keep = []
    idx = 0
    for i in range(4):
        for j in range(7):
            q = faces[idx]; idx += 1
            if (i, j) in holes:
                continue
            if mode == "quad":
                keep.append(q)
            else:
                a, b, c, d = q
                keep += [(a, b, c), (a, c, d)] if (i + j) % 2 == 0 else [(a, b, d), (b, c, d)]
    return [list(map(float, p)) for p in pts], [list(f) for f in keep]


# ------------------------------------------------------------------------------------------ placements
# Where the surface sits and in which unit its lengths are given: p -> 2^j p + T_k with T_k = (2^k, -2^k, 2^(k-1)), or
# T = 0 (unit of length only). Everything the statement speaks of (border loops, angles between normals, angle sums at
# the vertices) is invariant under such a map. The coordinates are first rounded to multiples of 2^-m so that the map is
# EXACT in binary floating point (checked by an exact predicate, an inexact specimen is dropped and counted): the
# placed specimen is then congruent (similar) to the specimen at the origin bit for bit, every difference of two
# coordinates is exact, and a formula built on edge vectors loses nothing whereas one built on absolute positions loses
# log2((distance / size)^2) bits.
def quantize(pts, m):
    """every coordinate rounded to the nearest multiple of 2^-m (exact operations only)."""
    s = 2.0 ** m
    return [[round(float(x) * s) / s for x in p] for p in pts]


def far_vector(k, axis=None):
    if k is None:
        return (0, 0, 0)
    if axis is not None:
        return tuple((-(2 ** k) if i == axis else 0) for i in range(3))
    return (2 ** k, -(2 ** k), 2 ** (k - 1))


def place(pts, j, k, axis=None):
    """the points under p -> 2^j p + T_k as floats, or None if one coordinate is not exactly representable."""
    T, s = far_vector(k, axis), Fr(2) ** j
    out = []
    for p in pts:
        row = []
        for x, t in zip(p, T):
            q = Fr(x) * s + t
            f = float(q)
            if Fr(f) != q:
                return None
            row.append(f)
        out.append(row)
    return out


def place_label(j, k, axis=None):
    if k is None:
        return "unit_of_length"
    return "far_from_origin"


def chords_of(faces):
    """Interior edges joining two border vertices."""
    bh = F.border_half_edges(faces)
    bv = set(a for a, _ in bh)
    be = set((min(a, b), max(a, b)) for a, b in bh)
    return [e for e in F.undirected_edges(faces) if e not in be and e[0] in bv and e[1] in bv]
