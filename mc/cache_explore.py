"""Exploration of the lazily-built-cache transition system of one mesh object (used by C01, C03).

Events are accessor calls (each evaluated on its WHOLE argument domain) and documented resets. The
search is breadth-first over event histories, deduplicated on a state key covering every cache; it runs
to a fixed point (the reachable set is small because cache groups are few). A state is re-created by
replaying its history on a freshly built object, calling each accessor with the first argument of its
domain only - the claim that the argument does not matter for the successor state is itself checked
(the replayed state's key must be one that the full evaluation produced).
"""
from __future__ import annotations
from .core import Report, call


def tup(x):
    if isinstance(x, (list, tuple)):
        return tuple(tup(v) for v in x)
    if isinstance(x, dict):
        return ("dict",) + tuple(sorted(((tup(k), tup(v)) for k, v in x.items()), key=repr))
    if isinstance(x, (set, frozenset)):
        return ("set",) + tuple(sorted((tup(v) for v in x), key=repr))
    if hasattr(x, "item") and not isinstance(x, (int, float, bool)):
        try:
            return x.item()
        except Exception:
            return repr(x)
    return x


class Ev:
    """One accessor: argument domain (from the oracle), the call on the mesh, the judge.
    judge(oracle, args, value) -> None if fine else (mismatch_label, expected)"""
    def __init__(self, name, domain, fn, judge, callee, per_arg=False):
        self.name, self.domain, self.fn, self.judge, self.callee = name, domain, fn, judge, callee
        self.per_arg = per_arg     # the accessor caches per argument: replay it on its whole domain


def _np_args(a):
    import numpy as np
    return tuple(np.int64(x) if isinstance(x, int) and not isinstance(x, bool) else x for x in a)


def explore(pid, build, oracle, events, resets, state_key, content_key, rep: Report, input_class, base_detail,
            max_states=400, max_depth=None, domain_cap=None, numpy_args=True):
    """
    build()            -> fresh real object
    events             -> list of Ev; resets -> dict name -> fn(obj)
    state_key(obj)     -> hashable covering every cache; content_key(obj) -> bytes of the element containers
    input_class(warm)  -> string for fingerprints; base_detail -> dict copied into every violation detail
    Returns number of distinct states.
    max_depth: histories longer than this are not expanded (None = run to the fixed point). Every state
               reached is still recorded; states at the bound are only observed through the event that
               produced them.
    """
    m0 = build()
    ev_names = [e.name for e in events] + list(resets)
    evmap = {e.name: e for e in events}
    domains = {e.name: list(e.domain(oracle)) for e in events}
    if domain_cap is not None:
        # large specimens: argument domains are thinned by a fixed stride (reported: 'domain_cap')
        for k, d in domains.items():
            if len(d) > domain_cap:
                step = -(-len(d) // domain_cap)
                domains[k] = d[::step]
                rep.count("domains_thinned")

    def light(m, evn):
        if evn in resets:
            resets[evn](m); return
        d = domains[evn]
        for a in (d if evmap[evn].per_arg else d[:1]):
            call(evmap[evn].fn, m, *a)

    def rebuild(hist):
        m = build()
        for e in hist:
            light(m, e)
        return m

    k0 = state_key(m0)
    content0 = content_key(m0)
    seen = {k0: ()}
    queue = [()]
    first_obs = {}
    memo = {}
    transitions = 0
    capped = False
    frontier_only = set()
    while queue:
        hist = queue.pop(0)
        m = rebuild(hist)
        kb = state_key(m)
        if kb not in seen:
            rep.violation(pid + ".state_independent_of_argument", "connectivity", "mismatch:cache_state",
                          input_class(True), dict(base_detail, history=list(hist)))
        warm = kb != k0
        dirty = False
        for evn in ev_names:
            if dirty:
                m = rebuild(hist)
                dirty = False
            transitions += 1
            if evn in resets:
                light(m, evn)
            else:
                ev = evmap[evn]
                obs = []
                fn, judge = ev.fn, ev.judge
                doms = domains[evn]
                rep.evaluations += len(doms)
                for a in doms:
                    try:
                        val = fn(m, *a)
                    except Exception as ex:   # noqa (watchdog / replay-hit are BaseExceptions)
                        exn = type(ex).__name__
                        obs.append(("raise", exn))
                        rep.violation(f"{pid}.{evn}", ev.callee, "raises:" + exn, input_class(warm),
                                      dict(base_detail, history=list(hist), args=list(a), msg=str(ex)))
                        if not hist:
                            rep.outcome(evn, "raise:" + exn)
                        continue
                    g = tup(val)
                    obs.append(g)
                    mk = (evn, a, g)
                    if mk in memo:
                        verdict = memo[mk]
                    else:
                        verdict = memo[mk] = judge(oracle, a, val)
                        rep.outcome(evn, g if not isinstance(g, tuple) or len(g) < 4 else len(g))
                    if verdict is not None:
                        rep.violation(f"{pid}.{evn}", ev.callee, "mismatch:" + verdict[0], input_class(warm),
                                      dict(base_detail, history=list(hist), args=list(a), got=g, want=verdict[1]))
                obs = tuple(obs)
                if numpy_args and len(hist) <= 1:
                    # argument-form deviation: the same queries with numpy integers instead of Python ints (in the
                    # fresh state and in every state one event away): the answers must be the same
                    for a, want_obs in zip(doms, obs):
                        if not a or not all(isinstance(x, int) for x in a):
                            continue
                        rep.evaluations += 1
                        try:
                            g2 = tup(fn(m, *_np_args(a)))
                        except Exception as ex:   # noqa
                            g2 = ("raise", type(ex).__name__)
                        if g2 != want_obs:
                            rep.violation(f"{pid}.{evn}.numpy_integer_arguments", ev.callee, "mismatch:answer_depends_on_int_type",
                                          input_class(warm), dict(base_detail, history=list(hist), args=list(a), got=g2, want=want_obs))
                            break
                if evn in first_obs:
                    if first_obs[evn][0] != obs:
                        rep.violation(pid + ".same_answer_in_every_state", ev.callee, "mismatch:order_dependent", input_class(warm),
                                      dict(base_detail, history=list(hist), first_history=list(first_obs[evn][1])))
                else:
                    first_obs[evn] = (obs, hist)
            k = state_key(m)
            if k != kb:
                dirty = True
            if k not in seen:
                seen[k] = hist + (evn,)
                if len(seen) > max_states:
                    capped = True
                elif max_depth is not None and len(hist) + 1 >= max_depth:
                    rep.flag("depth_bound_reached")      # state evaluated as a successor but not expanded
                    frontier_only.add(k)
                else:
                    queue.append(hist + (evn,))
                if content_key(m) != content0:
                    rep.violation(pid + ".queries_do_not_edit_the_mesh", evmap[evn].callee if evn in evmap else evn,
                                  "side_effect:containers", input_class(True), dict(base_detail, history=list(hist) + [evn]))
    rep.states += len(seen)
    rep.transitions += transitions
    rep.traces += transitions
    if capped:
        rep.count("state_cap_hit")
    return seen
