"""C02 helpers, round 5: three more dimensions of the construction family.

* FILE FORMS    - the file entry point is fed, besides the plain text of mc/c02_lib.py, every syntactic form that the
                  reader of the format handles on purpose: the declared dimension of a medit file (``Dimension 2``:
                  vertex lines ``x y ref``), reference (label) columns with values that are not coordinates, keyword and
                  count on one line (medit, OFF), the optional weight of an OBJ vertex and comment lines, the leading count
                  line of an xyz file.  The expectation is the normal form of the declared data (2-D points padded by 0).
* SWITCH FLIPS  - a built mesh is built again while the completion switches have another value than at the first
                  construction (every ordered pair of settings that differ in a switch the input reads, then every third
                  setting).  The expectation of each stage is the normal form - under the switches of that stage - of
                  the containers the previous stage left, the hard-edge clause being judged against the edges the caller
                  declared at the very beginning.
* EDITS         - a built mesh is edited through every public route that runs the construction again (an empty
                  Surface/VolumeSubdivision block, a block with one operation on every element it applies to, split_edge
                  on every edge, RawMeshData(mesh) + the documented clear() of the corner containers + one appended vertex
                  and element + construction), once and twice on the same object, and the clauses of the statement that
                  are determined by the containers themselves are evaluated on every intermediate mesh; a final
                  construction from the edited mesh must change nothing.

mouette is only imported inside functions.
"""
from __future__ import annotations
from mc import c02_lib as L

# ------------------------------------------------------------------------------------------------ file forms
FILE_FORMS = {"mesh": ["refs", "dim2", "inline"], "obj": ["w"], "off": ["inline"], "xyz": ["count"]}
FORM_ENTRIES = ["file:%s+%s" % (fmt, form) for fmt in ("mesh", "obj", "off", "xyz") for form in FILE_FORMS[fmt]]
_num = L._num


def vref(i):
    """reference (label) of vertex i: never 0, never a coordinate of the point tables, pairwise different"""
    return 7 + i


def eref(i):
    return 3 + i


def write_medit_form(form, V, E, F, C):
    dim2 = form == "dim2"
    inline = form == "inline"
    out = ["MeshVersionFormatted 2"]
    out += ["Dimension 2"] if dim2 else (["Dimension 3"] if inline else ["Dimension", "3"])
    out += ["Vertices %d" % len(V)] if inline else ["Vertices", str(len(V))]
    for i, p in enumerate(V):
        co = p[:2] if dim2 else p
        out.append(" ".join(_num(c) for c in co) + " %d" % (1 if inline else vref(i)))

    def block(name, rows):
        if rows:
            out.extend(["%s %d" % (name, len(rows))] if inline else [name, str(len(rows))])
            for i, r in enumerate(rows):
                out.append(" ".join(str(v + 1) for v in r) + " %d" % (1 if inline else eref(i)))
    block("Edges", E)
    block("Triangles", [f for f in F if len(f) == 3])
    block("Quadrilaterals", [f for f in F if len(f) == 4])
    block("Tetrahedra", [c for c in C if len(c) == 4])
    block("Hexahedra", [c for c in C if len(c) == 8])
    out.append("End")
    return "\n".join(out) + "\n"


def write_obj_form(form, V, E, F, C):
    out = ["# written by the C02 harness", "o specimen"]
    out += ["v " + " ".join(_num(c) for c in p) + " 1.0" for p in V]          # x y z w: the weight is not a coordinate
    out += ["# %d lines" % len(E)]
    out += [f"l {a + 1} {b + 1}" for a, b in E]
    out += ["f " + " ".join(str(v + 1) for v in f) for f in F]
    return "\n".join(out) + "\n"


def write_off_form(form, V, E, F, C):
    out = ["# a comment before the header", f"OFF {len(V)} {len(F)} 0  # counts on the keyword line"]
    out += [" ".join(_num(c) for c in p) for p in V]
    out += ["# faces"]
    out += [f"{len(f)} " + " ".join(str(v) for v in f) for f in F]
    return "\n".join(out) + "\n"


def write_xyz_form(form, V, E, F, C):
    return "%d\n" % len(V) + "".join(" ".join(_num(c) for c in p) + "\n" for p in V)


FORM_WRITERS = {"mesh": write_medit_form, "obj": write_obj_form, "off": write_off_form, "xyz": write_xyz_form}


def split_entry(entry):
    """'file:mesh+dim2' -> ('mesh', 'dim2'); 'file:mesh' -> ('mesh', None)"""
    body = entry[5:]
    if "+" in body:
        fmt, form = body.split("+", 1)
        return fmt, form
    return body, None


def form_applies(fmt, form, E, F, C):
    if not L.format_can_declare(fmt, E, F, C):
        return False
    if form == "dim2":
        return not C                      # a planar file has no cells
    return True


# ------------------------------------------------------------------------------------------------ switch flips
SETTINGS = [(True, True), (True, False), (False, True), (False, False)]


def reads(F, C):
    """which of the two switches (edges from faces, faces from cells) the construction of this input reads"""
    return (bool(F) or bool(C), bool(C))


def distinct_settings(F, C):
    rE, rF = reads(F, C)
    out = []
    for cE, cF in SETTINGS:
        if (not rE and not cE) or (not rF and not cF):
            continue
        out.append((cE, cF))
    return out


def stage_reference(o, cE, cF):
    return L.reference(len(o["V"]), o["V"], o["E"] or [], o["F"] or [], o["C"] or [], cE, cF)


def hard_keys(o):
    """the edges of a built mesh that count as declared by the caller for the next construction from it: the flagged
    ones where a hard_edges attribute exists, every edge otherwise (nothing was completed from faces so far)"""
    E = o["E"] or []
    h = o["attrs"].get("edges.hard_edges")
    if h is None:
        return [(min(e), max(e)) for e in E]
    return [(min(E[i]), max(E[i])) for i, v in enumerate(h["vals"]) if (v is True or v == 1) and i < len(E)]


def stage_devs(o_prev, o_now, cE, cF, hard_class):
    """Clauses of the statement for a mesh built (under cE, cF) from the containers of an already built one."""
    ref = stage_reference(o_prev, cE, cF)
    decl0 = hard_keys(o_prev)
    inp = {"E": o_prev["E"] or [], "attr": "none", "prefill": "absent", "hard_may": decl0,
           "hard_must": decl0, "hard_class": hard_class}
    devs = L.compare(o_now, ref, inp)
    # user attributes stay with their elements (the elements of the previous stage are a prefix of the new containers)
    for an in sorted(o_prev["attrs"]):
        if an == "edges.hard_edges":
            continue
        a0, a1 = o_prev["attrs"][an], o_now["attrs"].get(an)
        if a1 is None:
            devs.append(("C02.rebuild.attr:" + an, "mismatch:attribute_lost", hard_class, {"attribute": an}))
        elif a1["vals"][:len(a0["vals"])] != a0["vals"]:
            devs.append(("C02.rebuild.attr:" + an, "mismatch:changed_by_rebuild", hard_class,
                         {"attribute": an, "got": a1["vals"], "want_prefix": a0["vals"]}))
    return devs


# ------------------------------------------------------------------------------------------------ edits
NEW_POINT = [5.0, 7.0, 11.0]
SURFACE_GLOBAL = ["triangulate", "loop_subdivision", "subdivide_triangles_6", "subdivide_triangles_3quads"]
SURFACE_LOCAL = ["triangulate_face", "split_face_as_fan"]
VOLUME_LOCAL_CELL = ["split_cell_as_fan"]
VOLUME_LOCAL_FACE = ["split_tet_from_face_center"]


def edit_steps(m):
    """every edit step that applies to the mesh as it is now: [route, operation, argument]"""
    cls = type(m).__name__
    S = []
    if cls == "PolyLine":
        S += [["split_edge", "split_edge", e] for e in range(len(m.edges))]
        S += [["raw", "edge", r] for r in ("inst", "ctor")]
    elif cls == "SurfaceMesh":
        S += [["block", "noop", None]]
        S += [["block", op, None] for op in SURFACE_GLOBAL]
        S += [["block", op, f] for op in SURFACE_LOCAL for f in range(len(m.faces))]
        S += [["raw", k, r] for k in ("edge", "face", "edge+face") for r in ("inst", "ctor")]
    elif cls == "VolumeMesh":
        S += [["block", "noop", None]]
        S += [["block", op, c] for op in VOLUME_LOCAL_CELL for c in range(len(m.cells))]
        S += [["block", op, f] for op in VOLUME_LOCAL_FACE for f in range(len(m.faces))]
        S += [["raw", k, r] for k in ("edge", "face", "cell", "edge+face+cell") for r in ("inst", "ctor")]
    else:
        S += [["raw", "edge", "inst"]]
    return S


def apply_step(M, m, step):
    """-> (mesh after the step, expectation kind, data for the expectation)"""
    from mouette.mesh.mesh import _instanciate_raw_mesh_data
    route, op, arg = step
    if route == "split_edge":
        return M.mesh.split_edge(m, arg), "self", None
    if route == "block":
        ctx = M.mesh.SurfaceSubdivision if type(m).__name__ == "SurfaceMesh" else M.mesh.VolumeSubdivision
        with ctx(m) as s:
            if op != "noop":
                getattr(s, op)(*([] if arg is None else [arg]))
        return s.mesh, ("identity" if op == "noop" else "self"), None
    # raw: re-wrap, the documented resets of the derived containers, one more vertex and element(s), construct
    raw = M.mesh.RawMeshData(m)
    raw.face_corners.clear()
    raw.cell_corners.clear()
    raw.cell_faces.clear()
    n = len(raw.vertices)
    raw.vertices.append(list(NEW_POINT))
    added = {"E": [], "F": [], "C": []}
    kinds = op.split("+")
    if "edge" in kinds and n >= 1:
        raw.edges.append([n, 0])                       # declared high index first
        added["E"].append([n, 0])
    if "face" in kinds and n >= 2:
        raw.faces.append([0, 1, n])
        added["F"].append([0, 1, n])
    if "cell" in kinds and n >= 3:
        raw.cells.append([0, 1, 2, n])
        added["C"].append([0, 1, 2, n])
    if arg == "ctor":
        cls = "VolumeMesh" if (added["C"] or len(raw.cells)) else ("SurfaceMesh" if (added["F"] or len(raw.faces)) else
                                                                  ("PolyLine" if (added["E"] or len(raw.edges)) else "PointCloud"))
        return getattr(M.mesh, cls)(raw), "appended", added
    return _instanciate_raw_mesh_data(raw), "appended", added


def self_devs(o, cE, cF, hard_class):
    """the clauses that the containers of a mesh determine by themselves: 3-D Vec vertices; edges valid, low index
    first, once, every side of every face (completion on); every face of every cell (completion on); exact corner
    records; class.  Hard-edge flags and the fate of earlier edges belong to the editing operation (C13)."""
    ref = stage_reference(o, cE, cF)
    inp = {"E": o["E"] or [], "attr": "none", "prefill": "absent", "skip_hard": True, "hard_class": hard_class}
    return L.compare(o, ref, inp)


def appended_devs(o_prev, o_now, added, cE, cF, hard_class):
    decl0 = hard_keys(o_prev)
    V = o_prev["V"] + [list(NEW_POINT)]
    E = (o_prev["E"] or []) + added["E"]
    F = (o_prev["F"] or []) + added["F"]
    C = (o_prev["C"] or []) + added["C"]
    ref = L.reference(len(V), V, E, F, C, cE, cF)
    new_keys = [(min(e), max(e)) for e in added["E"]]
    inp = {"E": E, "attr": "none", "prefill": "absent", "hard_may": list(decl0) + new_keys, "hard_must": decl0, "hard_class": hard_class}
    return L.compare(o_now, ref, inp)
