"""Call histories on the DOMAIN OBJECTS of the samplers (C19): reference models and model-guided enumeration.

Nothing here imports mouette.  A "world" is a small population of domain objects (boxes; meshes; a centre) with
  * the events a user can make through the documented API (derive a second object from the first one, enlarge / move an
    object through the library's own mutators, sample, overwrite what a call handed back), and
  * a reference model with VALUE semantics: every object has a value of its own; a mutator changes the object it is
    called on and nothing else; sampling and deriving change nothing.
The driver (props/c19.py) replays every event sequence up to a depth on FRESH real objects in lockstep with the model
and judges every sampling answer against the domain the model holds for the sampled object.

States of the models are immutable tuples, events are JSON-like tuples, the enumeration is breadth first (shortest
histories first, so the first counterexample of a fingerprint is a shortest one).
"""
from __future__ import annotations
from fractions import Fraction as Fr


def enumerate_histories(init, events_of, step, depth):
    """All event sequences of length 1..depth that the model allows, shortest first: yields (events, final state)."""
    level = [((), init)]
    for _ in range(depth):
        nxt = []
        for evs, st in level:
            for ev in events_of(st, evs):
                st2 = step(st, ev)
                if st2 is None:
                    continue
                nxt.append((evs + (ev,), st2))
                yield evs + (ev,), st2
        level = nxt


# ------------------------------------------------------------------------------------------------ boxes
# state: tuple of boxes, box = (lo tuple, hi tuple, padded flag); box 0 is the one first requested
BOX_CAP = 3
PAD_FLOAT = 2.0
PAD_VEC = (0.5, 1.0, 2.0, 0.25)
PAD_NEG = -1.0


def box_init(lo, hi):
    return ((tuple(lo), tuple(hi), False),)


def box_events(st, evs, has_args=True, algebra=True):
    k = len(st)
    out = []
    if k < BOX_CAP:
        out += [("corners_of", i) for i in range(k)]
        if has_args:
            out.append(("same_args",))
        if algebra:
            for i in range(k):
                for j in range(i, k):
                    out += [("union", i, j), ("inter", i, j)]
    for i in range(k):
        out += [("pad", i, "float"), ("pad", i, "vec"), ("pad", i, "neg")]
    if not evs or evs[-1] != ("sweep",):
        out.append(("sweep",))
    return out


def box_pad_amount(ev, dim):
    """the padding asked for by a pad event, per axis"""
    if ev[2] == "float":
        return [PAD_FLOAT] * dim
    if ev[2] == "neg":
        return [PAD_NEG] * dim
    return list(PAD_VEC[:dim])


def box_step(st, ev, orig):
    """orig = (lo, hi) first requested (what the caller's corner objects hold)"""
    kind = ev[0]
    if kind == "sweep":
        return st
    if kind == "corners_of":
        lo, hi, _ = st[ev[1]]
        return st + ((lo, hi, False),)
    if kind == "same_args":
        return st + ((tuple(orig[0]), tuple(orig[1]), False),)
    if kind in ("union", "inter"):
        a, b = st[ev[1]], st[ev[2]]
        if kind == "union":
            lo = tuple(min(x, y) for x, y in zip(a[0], b[0]))
            hi = tuple(max(x, y) for x, y in zip(a[1], b[1]))
        else:
            lo = tuple(max(x, y) for x, y in zip(a[0], b[0]))
            hi = tuple(min(x, y) for x, y in zip(a[1], b[1]))
        return st + ((lo, hi, False),)
    if kind == "pad":
        i = ev[1]
        lo, hi, _ = st[i]
        amount = [max(x, 0.0) for x in box_pad_amount(ev, len(lo))]          # documented: negative values do nothing
        new = (tuple(x - a for x, a in zip(lo, amount)), tuple(x + a for x, a in zip(hi, amount)), True)
        return st[:i] + (new,) + st[i + 1:]
    raise ValueError(ev)


def box_nonempty(box):
    return all(l < h for l, h in zip(box[0], box[1]))


# ------------------------------------------------------------------------------------------------ meshes
# state: (meshes, last) with meshes = tuple of vertex tuples (integer coordinates; index 0 = the mesh first built, index 1 = the
# copy, absent until made) and last = index of the mesh whose sampling answer is the most recent result (or None)
TRANSLATION = (3, -5, 7)
VERTEX_MOVE = (1, 2, -4)
MOVED_VERTEX = 1


def mesh_init(coords):
    return ((tuple(tuple(p) for p in coords),), None)


def mesh_events(st, evs, copies=((False, False), (True, True))):
    meshes, last = st
    out = []
    for i in range(len(meshes)):
        out += [("sample", i, False), ("sample", i, True)]
    if len(meshes) == 1:
        out += [("copy", a, c) for a, c in copies]
    for i in range(len(meshes)):
        out += [("translate", i), ("assign_vertex", i), ("edit_vertex_in_place", i)]
    if last is not None and evs and evs[-1][0] == "sample":
        out.append(("overwrite_result",))
    return out


def mesh_step(st, ev, valid):
    """valid(vertices) -> bool: the geometry is still inside the statement (no zero-length edge / zero-area face)"""
    meshes, last = st
    kind = ev[0]
    if kind == "sample":
        return (meshes, ev[1])
    if kind == "overwrite_result":
        return (meshes, None)
    if kind == "copy":
        return (meshes + (meshes[0],), last)
    i = ev[1]
    V = meshes[i]
    if kind == "translate":
        V2 = tuple(tuple(x + t for x, t in zip(p, TRANSLATION)) for p in V)
    else:
        V2 = tuple((tuple(x + t for x, t in zip(p, VERTEX_MOVE)) if k == MOVED_VERTEX else p) for k, p in enumerate(V))
    if not valid(V2):
        return None
    return (meshes[:i] + (V2,) + meshes[i + 1:], last)


# ------------------------------------------------------------------------------------------------ sphere / ball
# state: number of calls made (the centre and the radii never change: there is no mutator); events carry everything
def round_events(st, evs, n_radii=2):
    out = []
    for which in ("sphere", "ball"):
        for r in range(n_radii):
            for pc in (False, True):
                out.append((which, r, pc))
    if evs and evs[-1][0] in ("sphere", "ball"):
        out.append(("overwrite_result",))
    return out


def round_step(st, ev):
    return st + 1


def selftest():
    bad = []
    st = box_init([0, 0], [1, 1])
    st = box_step(st, ("corners_of", 0), ([0, 0], [1, 1]))
    st = box_step(st, ("pad", 1, "float"), ([0, 0], [1, 1]))
    if st != (((0, 0), (1, 1), False), ((-2.0, -2.0), (3.0, 3.0), True)):
        bad.append("box model: pad changes the box it is called on only")
    st2 = box_step(st, ("inter", 0, 1), None)
    if st2[2][:2] != ((0, 0), (1, 1)) or box_step(st, ("union", 0, 1), None)[2][:2] != ((-2.0, -2.0), (3.0, 3.0)):
        bad.append("box model: algebra")
    if box_step(st, ("pad", 0, "neg"), None)[0][:2] != ((0.0, 0.0), (1.0, 1.0)):
        bad.append("box model: negative padding does nothing")
    n1 = sum(1 for _ in enumerate_histories(box_init([0], [1]), box_events, lambda s, e: box_step(s, e, ([0], [1])), 1))
    n2 = sum(1 for _ in enumerate_histories(box_init([0], [1]), box_events, lambda s, e: box_step(s, e, ([0], [1])), 2))
    if n1 != 8 or n2 <= 8 * 8:
        bad.append(f"box histories: {n1} of depth 1, {n2} up to depth 2")
    ms = mesh_init([(0, 0, 0), (1, 1, 1), (2, 4, 8)])
    ms = mesh_step(ms, ("copy", False, False), lambda V: True)
    ms = mesh_step(ms, ("translate", 1), lambda V: True)
    if ms[0][0] != ((0, 0, 0), (1, 1, 1), (2, 4, 8)) or ms[0][1][0] != TRANSLATION:
        bad.append("mesh model: a transform moves the mesh it is called on only")
    if mesh_step(ms, ("assign_vertex", 0), lambda V: False) is not None:
        bad.append("mesh model: invalid geometry must end the history")
    return bad
