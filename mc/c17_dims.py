"""Helpers of props/c17.py for the dimensions added in round 5 (self-contained: nothing here imports the driver).

 * needle specimens (`comb`): staggered columns stretched by an exact power of two along one axis, in every axis
   arrangement - triangles with one angle of about 2^-e and two angles just below 90 degrees, so that all cotangent
   weights stay positive whatever the stretch (decided by the exact predicate of the driver, not assumed);
 * numbering specimens (`ring_wheel`): K-ring wheels with the border numbered first / last / scrambled, large enough for
   border ids that exceed the size of the hash table of a Python set (mesh.boundary_vertices is then NOT in increasing order);
 * the alphabet of read-only public queries a caller may make on the mesh between reading mesh.boundary_vertices,
   constructing the embedding object and running it (`QUERIES`);
 * user attributes whose names collide with names the library uses internally (`LIBRARY_NAMES` x `CONTAINERS` x `ATTRIBUTE_FORMS`
   x `INSTALL_TIMINGS`).

mouette is only imported inside functions."""
from __future__ import annotations
import math


def _orient2d(a, b, c):
    return (b[0] - a[0]) * (c[1] - a[1]) - (b[1] - a[1]) * (c[0] - a[0])


# ================================================================================================ needle specimens
# column abscissae / row heights are cumulated from these gaps: generic integers (no powers of two, no common pattern), because a
# coordinate k * 2^e with k a power of two makes cos / sin of the needle angle accidentally exact in binary floating point
COMB_COL_GAPS = (3, 7, 5, 11, 9, 13)
COMB_ROW_GAPS = (18, 12, 30, 22, 14)
COMB_STAGGER = 7           # odd columns are shifted by this much (< every row gap): the apex of every needle projects inside its base
COMB_SIZES = ((3, 3), (4, 3), (3, 4), (5, 4), (4, 5))       # (columns, rows): interior vertices (columns - 2) * (rows - 2)
COMB_ARRANGEMENTS = tuple((swap, cyc) for swap in (False, True) for cyc in (0, 1, 2))


def comb(ncol, nrow, e, swap=False, cyc=0):
    """(integer points (x, y, z), faces): columns i = 0..ncol-1 at abscissa c_i * 2^e, each with nrow points whose heights are staggered from one
    column to the next; the strip between two columns is a zigzag of needles whose short side lies in a column.
    swap: the long direction is the second in-plane axis instead of the first (orientation kept by mirroring the faces);
    cyc: the plane is the (x, y), (y, z) or (z, x) coordinate plane."""
    assert e >= 0 and 2 <= ncol <= len(COMB_COL_GAPS) + 1 and 2 <= nrow <= len(COMB_ROW_GAPS) + 1
    cols = [sum(COMB_COL_GAPS[:i]) for i in range(ncol)]
    rows = [sum(COMB_ROW_GAPS[:j]) for j in range(nrow)]
    idx, p2 = {}, []
    for i in range(ncol):
        for j in range(nrow):
            idx[(i, j)] = len(p2)
            p2.append((cols[i] << e, rows[j] + (COMB_STAGGER if i % 2 else 0) + (i * 7 + j * 3) % 2))
    faces = []
    for i in range(ncol - 1):
        for j in range(nrow - 1):
            a, b, c, d = idx[(i, j)], idx[(i, j + 1)], idx[(i + 1, j)], idx[(i + 1, j + 1)]
            faces += [(a, c, b), (c, d, b)] if i % 2 == 0 else [(a, c, d), (a, d, b)]
    assert all(_orient2d(p2[a], p2[b], p2[c]) > 0 for a, b, c in faces)
    if swap:
        p2 = [(y, x) for x, y in p2]
        faces = [(a, c, b) for a, b, c in faces]
    p3 = [(x, y, 0) for x, y in p2]
    for _ in range(cyc):
        p3 = [(z, x, y) for x, y, z in p3]
    return p3, faces


# ================================================================================================ numbering specimens
RING_NUMBERINGS = ("border_first", "border_last", "scrambled")
RING_RADIUS = 1 << 16


def ring_wheel(n, rings, numbering):
    """(integer points, faces): `rings` concentric rings of n vertices around a centre; ring 0 is the border.
    border_first: ring 0 gets the ids 0..n-1, the centre the largest; border_last: the centre is 0, the border gets the n largest
    ids; scrambled: v -> (m * v + 1) mod N with m coprime to N (border ids spread over the whole range)."""
    assert n >= 3 and rings >= 1
    N = n * rings + 1
    pts = []
    for r in range(rings):
        rad = RING_RADIUS * (rings - r) // rings
        pts += [(round(rad * math.cos(2 * math.pi * i / n + 0.3)), round(rad * math.sin(2 * math.pi * i / n + 0.3)), 0) for i in range(n)]
    pts.append((1, 2, 0))
    faces = []
    for r in range(rings - 1):
        o, q = r * n, (r + 1) * n
        for k in range(n):
            k1 = (k + 1) % n
            faces += [(q + k, o + k, o + k1), (q + k, o + k1, q + k1)]
    o = (rings - 1) * n
    faces += [(N - 1, o + k, o + (k + 1) % n) for k in range(n)]
    assert all(_orient2d(pts[a], pts[b], pts[c]) > 0 for a, b, c in faces)
    if numbering == "border_first":
        perm = list(range(N))
    elif numbering == "border_last":
        perm = [N - n + v for v in range(n)] + [N - n - 1 - (v - n) for v in range(n, N)]      # border keeps its direction, rest reversed
    elif numbering == "scrambled":
        m = next(m for m in (7, 11, 13, 17, 19, 23, 5, 3) if math.gcd(m, N) == 1 and m % N != 1)
        perm = [(v * m + 1) % N for v in range(N)]
    else:
        raise KeyError(numbering)
    assert sorted(perm) == list(range(N))
    q = [None] * N
    for v in range(N):
        q[perm[v]] = pts[v]
    return q, [(perm[a], perm[b], perm[c]) for a, b, c in faces]


# ================================================================================================ read-only queries
def _q_boundary_vertices(m): return list(m.boundary_vertices)
def _q_interior_vertices(m): return list(m.interior_vertices)
def _q_boundary_edges(m): return list(m.boundary_edges)
def _q_interior_edges(m): return list(m.interior_edges)
def _q_is_vertex_on_border(m): return [bool(m.is_vertex_on_border(v)) for v in m.id_vertices]
def _q_is_edge_on_border(m): return [bool(m.is_edge_on_border(*m.edges[e])) for e in m.id_edges]


def _q_border_cycle(m):
    from mouette.processing import border
    return border.extract_border_cycle(m)


def _q_border_cycle_from_last(m):
    from mouette.processing import border
    return border.extract_border_cycle(m, m.boundary_vertices[-1])


def _q_border_cycle_all(m):
    from mouette.processing import border
    return border.extract_border_cycle_all(m)


def _q_boundary_of_surface(m):
    from mouette.processing import border
    return border.extract_boundary_of_surface(m)


def _q_euler(m):
    import mouette as M
    return M.attributes.euler_characteristic(m)


def _q_connectivity(m):
    C = m.connectivity
    out = []
    for v in m.id_vertices:
        out.append((list(C.vertex_to_vertices(v)), list(C.vertex_to_faces(v)), list(C.vertex_to_corners(v))))
    for f in m.id_faces:
        out.append((list(C.face_to_vertices(f)), list(C.face_to_edges(f)), list(C.face_to_corners(f)), list(C.face_to_faces(f))))
    return out


def _q_mesh_type(m): return (m.is_triangular(), m.is_quad())


def _q_laplacian_uniform(m):
    import mouette as M
    return M.operators.laplacian(m, cotan=False)


def _q_laplacian_cotan(m):
    import mouette as M
    return M.operators.laplacian(m, cotan=True)


def _q_copy(m):
    import mouette as M
    return M.mesh.copy(m)


def _q_clear_boundary_data(m): m.clear_boundary_data()
def _q_clear_connectivity(m): m.connectivity.clear()


# (name, the caller must read mesh.boundary_vertices again afterwards [documented reset], function of the mesh; result discarded)
QUERIES = (
    ("boundary_vertices", False, _q_boundary_vertices),
    ("interior_vertices", False, _q_interior_vertices),
    ("boundary_edges", False, _q_boundary_edges),
    ("interior_edges", False, _q_interior_edges),
    ("is_vertex_on_border", False, _q_is_vertex_on_border),
    ("is_edge_on_border", False, _q_is_edge_on_border),
    ("extract_border_cycle", False, _q_border_cycle),
    ("extract_border_cycle_from_last", False, _q_border_cycle_from_last),
    ("extract_border_cycle_all", False, _q_border_cycle_all),
    ("extract_boundary_of_surface", False, _q_boundary_of_surface),
    ("euler_characteristic", False, _q_euler),
    ("connectivity", False, _q_connectivity),
    ("is_triangular", False, _q_mesh_type),
    ("laplacian_uniform", False, _q_laplacian_uniform),
    ("laplacian_cotan", False, _q_laplacian_cotan),
    ("copy", False, _q_copy),
    ("clear_boundary_data", True, _q_clear_boundary_data),
    ("connectivity.clear", True, _q_clear_connectivity),
)
QUERY_NAMES = tuple(q[0] for q in QUERIES)
QUERY_RESETS = frozenset(q[0] for q in QUERIES if q[1])
QUERY_FN = {q[0]: q[2] for q in QUERIES}
QUERY_POSITIONS = ("after_reading_boundary_vertices", "between_constructor_and_run")


# ================================================================================================ colliding user attributes
CONTAINERS = ("vertices", "edges", "faces", "face_corners")
# names that the library attaches to a surface mesh somewhere on the way of an embedding, of the border bookkeeping, of the operators
# and of the persistent quantities of mouette.attributes (string literals of create_ / get_ / has_attribute calls of the unchanged tree,
# pinned here; never read from the library at run time)
LIBRARY_NAMES = ("border", "uv_coords", "cotan", "angles", "area", "normals", "component", "degree", "length", "selection", "hard_edges", "id")
# documented caches: a persistent quantity of mouette.attributes stored under its default name on its own container is documented to be
# re-used, so a user attribute of that name holding other numbers legitimately changes a cotangent-weight run (not judged; the valid-values
# case is the warm attribute blackboard)
DOCUMENTED_CACHES = frozenset({("face_corners", "cotan"), ("face_corners", "angles")})
ATTRIBUTE_FORMS = ("bool_sparse_on_odd_ids", "bool_dense_all_true", "float2_dense", "int_sparse_default5_every_third", "float_sparse_explicit_zeros")
INSTALL_TIMINGS = ("before_first_border_query", "after_border_query", "after_border_query_then_clear_boundary_data")


def install_user_attribute(m, container, name, form):
    """What a user does: create an attribute of her own on one element container and fill it. Returns the number of entries written."""
    import mouette as M
    cont = getattr(m, container)
    n = len(cont)
    if form == "bool_sparse_on_odd_ids":
        a = cont.create_attribute(name, bool)
        ids = [i for i in range(n) if i % 2 == 1]
        for i in ids:
            a[i] = True
    elif form == "bool_dense_all_true":
        a = cont.create_attribute(name, bool, dense=True)
        ids = list(range(n))
        for i in ids:
            a[i] = True
    elif form == "float2_dense":
        a = cont.create_attribute(name, float, 2, dense=True)
        ids = list(range(n))
        for i in ids:
            a[i] = M.Vec(13.5 + i, -7.25 * i)
    elif form == "int_sparse_default5_every_third":
        a = cont.create_attribute(name, int, default_value=5)
        ids = [i for i in range(n) if i % 3 == 0]
        for i in ids:
            a[i] = 7
    elif form == "float_sparse_explicit_zeros":
        a = cont.create_attribute(name, float)
        ids = list(range(n))
        for i in ids:
            a[i] = 0.0
    else:
        raise KeyError(form)
    return len(ids)


def install_with_timing(m, container, name, form, timing):
    if timing == "before_first_border_query":
        return install_user_attribute(m, container, name, form)
    list(m.boundary_vertices); list(m.interior_vertices)
    k = install_user_attribute(m, container, name, form)
    if timing == "after_border_query_then_clear_boundary_data":
        m.clear_boundary_data()
    elif timing != "after_border_query":
        raise KeyError(timing)
    return k
