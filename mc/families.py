"""Finite input families (DESIGN.md section 3): deterministic backtracking enumerators, no randomness.

SURF(n, arities, fmax) all labelled oriented manifold polygon complexes on exactly n vertices
TET(n)                 all labelled conforming tetrahedral complexes on exactly n vertices
GRAPH(n)               all labelled simple graphs on n vertices
TRI(k, interior)       all triangulations of a planar point set, by BFS over the flip graph
plus topology helpers written independently of mouette (used by oracles).
"""
from __future__ import annotations
import itertools, functools
from fractions import Fraction
from collections import deque


# ------------------------------------------------------------------------------------------ topology
def rot_min(face):
    """Rotate a cyclic sequence so that its smallest entry comes first (orientation preserved)."""
    i = face.index(min(face))
    return tuple(face[i:]) + tuple(face[:i])


def directed_edges(face):
    n = len(face)
    return [(face[i], face[(i + 1) % n]) for i in range(n)]


def vertex_links_ok(faces, n, require_all_used=True):
    """Every vertex's faces form exactly one open or closed fan (given directed-edge uniqueness)."""
    nxt = [dict() for _ in range(n)]   # per vertex: n(f) -> p(f)
    cnt = [0] * n
    for f in faces:
        k = len(f)
        for i in range(k):
            v, p, q = f[i], f[i - 1], f[(i + 1) % k]
            nxt[v][q] = p
            cnt[v] += 1
    for v in range(n):
        if cnt[v] == 0:
            if require_all_used:
                return False
            continue
        arcs = nxt[v]
        starts = [a for a in arcs if a not in set(arcs.values())]
        if len(starts) > 1:
            return False
        a = starts[0] if starts else next(iter(arcs))
        seen = 0
        cur = a
        while cur in arcs and seen < cnt[v]:
            cur = arcs[cur]; seen += 1
            if cur == a:
                break
        if seen != cnt[v]:
            return False
    return True


def is_oriented_manifold(faces, n, require_all_used=True):
    """Independent checker: directed edges unique, no two faces on one vertex set, no repeated vertex in a
    face, indices in range, vertex links single fans."""
    de = set()
    vs = set()
    for f in faces:
        if len(set(f)) != len(f) or len(f) < 3:
            return False
        if any((not isinstance(v, int)) or v < 0 or v >= n for v in f):
            return False
        key = frozenset(f)
        if key in vs:
            return False
        vs.add(key)
        for e in directed_edges(f):
            if e in de:
                return False
            de.add(e)
    return vertex_links_ok(faces, n, require_all_used)


def undirected_edges(faces):
    s = set()
    for f in faces:
        for a, b in directed_edges(f):
            s.add((a, b) if a < b else (b, a))
    return s


def border_half_edges(faces):
    de = set()
    for f in faces:
        de.update(directed_edges(f))
    return [(a, b) for (a, b) in de if (b, a) not in de]


def border_loops(faces):
    """List of border loops, each a list of vertices following the border half-edges (face orientation)."""
    bh = border_half_edges(faces)
    nxt = {}
    for a, b in bh:
        nxt.setdefault(a, []).append(b)
    # manifold => one outgoing border half-edge per border vertex
    loops, seen = [], set()
    for a, b in sorted(bh):
        if a in seen:
            continue
        loop = [a]; seen.add(a)
        cur = nxt[a][0]
        while cur != a:
            loop.append(cur); seen.add(cur)
            cur = nxt[cur][0]
        loops.append(loop)
    return loops


def components(n_or_vertices, adjacency_pairs):
    """Connected components (as sorted lists) of an undirected graph."""
    verts = list(range(n_or_vertices)) if isinstance(n_or_vertices, int) else list(n_or_vertices)
    adj = {v: set() for v in verts}
    for a, b in adjacency_pairs:
        adj[a].add(b); adj[b].add(a)
    seen, comps = set(), []
    for v in verts:
        if v in seen:
            continue
        comp, dq = [], deque([v]); seen.add(v)
        while dq:
            x = dq.popleft(); comp.append(x)
            for y in adj[x]:
                if y not in seen:
                    seen.add(y); dq.append(y)
        comps.append(sorted(comp))
    return comps


def euler_characteristic(faces, n_used=None):
    used = set(v for f in faces for v in f)
    return (len(used) if n_used is None else n_used) - len(undirected_edges(faces)) + len(faces)


def surface_signature(faces, n):
    """(chi, #border loops, #components, arities) of a face list."""
    comps = components(sorted(set(v for f in faces for v in f)), undirected_edges(faces))
    return dict(chi=euler_characteristic(faces), loops=len(border_loops(faces)), comps=len(comps),
                arities=tuple(sorted(set(len(f) for f in faces))), closed=not border_half_edges(faces))


# ------------------------------------------------------------------------------------------ SURF
@functools.lru_cache(maxsize=None)
def surf_enum(n, arities=(3,), fmax=None):
    """All labelled oriented manifold complexes on exactly n vertices (every vertex used). Faces are
    tuples starting at their smallest vertex; the face list is sorted."""
    cands = []
    for k in arities:
        for sub in itertools.combinations(range(n), k):
            first, rest = sub[0], sub[1:]
            for perm in itertools.permutations(rest):
                cands.append((first,) + perm)
    cands.sort()
    cand_edges = [directed_edges(f) for f in cands]
    cand_set = [frozenset(f) for f in cands]
    out = []
    used_de, used_sets, chosen = set(), set(), []

    def rec(start):
        if chosen:
            if is_used_all() and vertex_links_ok(chosen, n):
                out.append(tuple(chosen))
        if fmax is not None and len(chosen) >= fmax:
            return
        for i in range(start, len(cands)):
            if cand_set[i] in used_sets:
                continue
            es = cand_edges[i]
            if any(e in used_de for e in es):
                continue
            used_de.update(es); used_sets.add(cand_set[i]); chosen.append(cands[i])
            rec(i + 1)
            chosen.pop(); used_sets.discard(cand_set[i]); used_de.difference_update(es)

    def is_used_all():
        u = set()
        for f in chosen:
            u.update(f)
        return len(u) == n

    rec(0)
    return tuple(out)


def relabel(faces, perm):
    """perm[old] = new; faces re-rotated to start at their smallest vertex and the list sorted."""
    return tuple(sorted(rot_min(tuple(perm[v] for v in f)) for f in faces))


def canonical_class(faces, n):
    """Canonical representative under all n! relabelings (orientation preserved)."""
    best = None
    for perm in itertools.permutations(range(n)):
        r = relabel(faces, perm)
        if best is None or r < best:
            best = r
    return best


def surf_classes(n, arities=(3,), fmax=None):
    """One representative (the canonical one) per isomorphism class, sorted."""
    seen = set()
    for faces in surf_enum(n, arities, fmax):
        # cheap invariant pre-filter is unnecessary at these sizes
        seen.add(canonical_class(faces, n))
    return sorted(seen)


def transposition_relabelings(faces, n):
    """The complex under every single transposition of vertex labels (<=1 deviation from identity)."""
    out = []
    for a in range(n):
        for b in range(a + 1, n):
            perm = list(range(n)); perm[a], perm[b] = perm[b], perm[a]
            out.append(relabel(faces, perm))
    return out


def face_listing_deviations(faces, max_dev):
    """Deviations from the canonical listing: rotate the start vertex of one face, or swap two adjacent
    faces in the list; up to max_dev of them composed. Yields (tag, faces)."""
    faces = tuple(tuple(f) for f in faces)
    level = {faces: ()}
    yield (), faces
    cur = [faces]
    for d in range(max_dev):
        nxt = []
        for fl in cur:
            for i, f in enumerate(fl):
                for r in range(1, len(f)):
                    g = fl[:i] + (f[r:] + f[:r],) + fl[i + 1:]
                    if g not in level:
                        level[g] = level[fl] + (("rot", i, r),); nxt.append(g); yield level[g], g
            for i in range(len(fl) - 1):
                g = fl[:i] + (fl[i + 1], fl[i]) + fl[i + 2:]
                if g not in level:
                    level[g] = level[fl] + (("swap", i),); nxt.append(g); yield level[g], g
        cur = nxt


# ------------------------------------------------------------------------------------------ TET
def tet_faces_sorted(c):
    return [tuple(sorted(c[:i] + c[i + 1:])) for i in range(4)]


@functools.lru_cache(maxsize=None)
def tet_enum(n):
    """All labelled conforming tetrahedral complexes on exactly n vertices: every triangle in <= 2 cells,
    border triangles form a closed edge-manifold surface (every border edge in exactly two border
    triangles), cells face-connected through... (connectivity is NOT required), every vertex used.
    Cells are sorted 4-tuples, the list is sorted."""
    cands = list(itertools.combinations(range(n), 4))
    cand_faces = [tet_faces_sorted(c) for c in cands]
    out = []
    chosen, fcount = [], {}

    def ok_final():
        used = set(v for c in chosen for v in c)
        if len(used) != n:
            return False
        border = [f for f, k in fcount.items() if k == 1]
        ecount = {}
        for f in border:
            for e in itertools.combinations(f, 2):
                ecount[e] = ecount.get(e, 0) + 1
        if any(k != 2 for k in ecount.values()):
            return False
        # border vertex links must be single cycles (no pinched vertex)
        for v in used:
            link = [tuple(x for x in f if x != v) for f in border if v in f]
            if not link:
                continue
            if len(components(sorted(set(a for e in link for a in e)), link)) != 1:
                return False
        # vertex star must be face-connected (no two cell clusters touching only at a vertex/edge)
        for v in used:
            cells_v = [i for i, c in enumerate(chosen) if v in c]
            pairs = []
            for a, b in itertools.combinations(cells_v, 2):
                if len(set(chosen[a]) & set(chosen[b])) == 3:
                    pairs.append((a, b))
            if len(components(cells_v, pairs)) != 1:
                return False
        for e in set(e for c in chosen for e in itertools.combinations(c, 2)):
            cells_e = [i for i, c in enumerate(chosen) if e[0] in c and e[1] in c]
            pairs = [(a, b) for a, b in itertools.combinations(cells_e, 2)
                     if len(set(chosen[a]) & set(chosen[b])) == 3]
            if len(components(cells_e, pairs)) != 1:
                return False
        return True

    def rec(start):
        if chosen and ok_final():
            out.append(tuple(chosen))
        for i in range(start, len(cands)):
            fs = cand_faces[i]
            if any(fcount.get(f, 0) >= 2 for f in fs):
                continue
            for f in fs:
                fcount[f] = fcount.get(f, 0) + 1
            chosen.append(cands[i])
            rec(i + 1)
            chosen.pop()
            for f in fs:
                fcount[f] -= 1
                if fcount[f] == 0:
                    del fcount[f]

    rec(0)
    return tuple(out)


def relabel_cells(cells, perm):
    return tuple(sorted(tuple(sorted(perm[v] for v in c)) for c in cells))


def tet_classes(n):
    seen = set()
    for cells in tet_enum(n):
        best = None
        for perm in itertools.permutations(range(n)):
            r = relabel_cells(cells, perm)
            if best is None or r < best:
                best = r
        seen.add(best)
    return sorted(seen)


def moment_curve(n, start=0):
    """Integer points (t, t^2, t^3): any four are affinely independent."""
    return [(t, t * t, t * t * t) for t in range(start, start + n)]


def det3(a, b, c):
    return (a[0] * (b[1] * c[2] - b[2] * c[1]) - a[1] * (b[0] * c[2] - b[2] * c[0])
            + a[2] * (b[0] * c[1] - b[1] * c[0]))


def sub(a, b):
    return tuple(x - y for x, y in zip(a, b))


def tet_volume6(p0, p1, p2, p3):
    """6 x signed volume, library convention det(p0-p3, p1-p3, p2-p3)."""
    return det3(sub(p0, p3), sub(p1, p3), sub(p2, p3))


def orient_cells_positive(cells, pts):
    """Reorder each cell (swap last two) so that det(p0-p3,p1-p3,p2-p3) > 0."""
    out = []
    for c in cells:
        c = tuple(c)
        if tet_volume6(*(pts[v] for v in c)) < 0:
            c = (c[0], c[1], c[3], c[2])
        out.append(c)
    return out


# ------------------------------------------------------------------------------------------ GRAPH
def graph_enum(n):
    """All labelled simple graphs on n vertices as sorted edge tuples (2^(n(n-1)/2) of them)."""
    pairs = list(itertools.combinations(range(n), 2))
    for mask in range(1 << len(pairs)):
        yield tuple(p for i, p in enumerate(pairs) if mask >> i & 1)


# ------------------------------------------------------------------------------------------ TRI
def orient2d(a, b, c):
    return (b[0] - a[0]) * (c[1] - a[1]) - (b[1] - a[1]) * (c[0] - a[0])


def tri_enum(points, start_faces):
    """All triangulations of the planar point set reachable from start_faces by edge flips (the flip graph
    of a planar point set is connected). A triangulation is a frozenset of ccw triangles (rot_min)."""
    def norm(t):
        t = rot_min(t)
        if orient2d(points[t[0]], points[t[1]], points[t[2]]) < 0:
            t = (t[0], t[2], t[1])
        return t
    s0 = frozenset(norm(tuple(t)) for t in start_faces)
    seen = {s0}
    dq = deque([s0])
    while dq:
        T = dq.popleft()
        he = {}
        for t in T:
            for i in range(3):
                he[(t[i], t[(i + 1) % 3])] = t
        for (a, b), t1 in he.items():
            if a > b or (b, a) not in he:
                continue
            t2 = he[(b, a)]
            c = [v for v in t1 if v not in (a, b)][0]
            d = [v for v in t2 if v not in (a, b)][0]
            # quad a, d, b, c (ccw: t1 = a b c, t2 = b a d); flip allowed iff strictly convex
            pa, pb, pc, pd = points[a], points[b], points[c], points[d]
            if orient2d(pc, pd, pb) * orient2d(pc, pd, pa) < 0 and orient2d(pa, pb, pc) * orient2d(pa, pb, pd) < 0:
                n1, n2 = norm((c, d, b)), norm((d, c, a))
                if orient2d(*(points[v] for v in n1)) <= 0 or orient2d(*(points[v] for v in n2)) <= 0:
                    continue
                T2 = frozenset((T - {t1, t2}) | {n1, n2})
                if T2 not in seen:
                    seen.add(T2); dq.append(T2)
    return sorted(tuple(sorted(T)) for T in seen)


def convex_polygon_points(k):
    """k integer points in strictly convex position (on a parabola-like closed curve)."""
    # points on the integer 'circle-ish' convex curve: upper parabola and lower parabola
    pts = []
    half = (k + 1) // 2
    for i in range(half):
        pts.append((2 * i, -(i * (half - 1 - i))))            # lower chain, convex downward
    for i in range(k - half):
        j = k - half - 1 - i
        pts.append((2 * j + 1, (j + 1) * (k - half - j) + 1))  # upper chain, right to left
    return pts


def fan_triangulation(k):
    return [(0, i, i + 1) for i in range(1, k - 1)]


# ------------------------------------------------------------------------------------------ mesh building
# "Stale attribute blackboard" mode (set by the runner for tasks carrying "_stale_blackboard"): the builders first
# build the mesh on an affinely distorted copy of the requested geometry, request every persistent quantity of
# mouette.attributes on it (what an earlier stage of a user's pipeline leaves behind), and only then move the
# vertices to the requested positions through the public container API. Everything a check then asks must describe
# the CURRENT geometry; code that silently reuses an attribute computed earlier gives itself away.
STALE = [False]
# "Warm attribute blackboard" mode (tasks carrying "_warm_blackboard"): every persistent quantity of mouette.attributes
# is requested on the mesh - on its final geometry, so every cached value is correct - before the check starts.
# An answer must not depend on which (valid) attributes happen to be cached.
WARM = [False]


def _p3(p):
    return (float(p[0]), float(p[1]), float(p[2]) if len(p) > 2 else 0.)


def _distort(p):
    x, y, z = _p3(p)
    return (2 * x + y + 1, 3 * y - z, z + 0.5 * x + 2)     # invertible affine map (det 5.5): keeps elements non-degenerate


def request_all_persistent_attributes(mesh):
    """Calls every function of mouette.attributes that accepts the mesh alone (default arguments = persistent)."""
    import mouette as M, warnings
    made = 0
    for name in sorted(dir(M.attributes)):
        if name.startswith("_") or name.startswith(("interpolate", "average", "scatter", "generate")):
            continue
        fn = getattr(M.attributes, name)
        if not callable(fn) or isinstance(fn, type):
            continue
        try:
            with warnings.catch_warnings():
                warnings.simplefilter("ignore")
                fn(mesh)
            made += 1
        except Exception:   # noqa: not applicable to this mesh type / needs more arguments
            pass
    return made


def _finish(mesh, points):
    if WARM[0]:
        request_all_persistent_attributes(mesh)
    if STALE[0]:
        import mouette as M
        request_all_persistent_attributes(mesh)
        for i, p in enumerate(points):
            mesh.vertices[i] = M.Vec(*_p3(p))
    return mesh


def build_surface(points, faces, container=list, edges=None):
    import mouette as M
    raw = M.mesh.RawMeshData()
    raw.vertices += [M.Vec(*(_distort(p) if STALE[0] else _p3(p))) for p in points]
    if edges:
        raw.edges += [container(e) for e in edges]
    raw.faces += [container(f) for f in faces]
    return _finish(M.mesh.SurfaceMesh(raw), points)


def build_volume(points, cells, container=list):
    import mouette as M
    raw = M.mesh.RawMeshData()
    raw.vertices += [M.Vec(*(_distort(p) if STALE[0] else _p3(p))) for p in points]
    raw.cells += [container(c) for c in cells]
    return _finish(M.mesh.VolumeMesh(raw), points)


def build_polyline(points, edges, container=list):
    import mouette as M
    raw = M.mesh.RawMeshData()
    raw.vertices += [M.Vec(*(_distort(p) if STALE[0] else _p3(p))) for p in points]
    raw.edges += [container(e) for e in edges]
    return _finish(M.mesh.PolyLine(raw), points)


def sphere_lattice_points(n):
    """n distinct integer points in general position-ish (no three collinear among the first 8), used as
    a 'lattice' geometry with many ties in squared lengths."""
    base = [(0, 0, 0), (2, 0, 0), (0, 2, 0), (0, 0, 2), (2, 2, 1), (1, 2, 2), (2, 1, 2), (-1, 1, 1), (1, -1, 1)]
    return base[:n]


# ------------------------------------------------------------------------------------------ class data
@functools.lru_cache(maxsize=None)
def _class_data():
    import json, os
    with open(os.path.join(os.path.dirname(os.path.abspath(__file__)), "data", "classes.json")) as f:
        return json.load(f)


def surf6_classes():
    return [tuple(tuple(f) for f in fl) for fl in _class_data()["surf6_tri_classes"]]


def tet6_classes():
    return [tuple(tuple(c) for c in cl) for cl in _class_data()["tet6_classes"]]


# ------------------------------------------------------------------------------------------ ZOO
def grid(k, l, mode="tri", z=None):
    """k x l vertices on the integer lattice. mode: 'tri' (diagonal /), 'tri2' (diagonal \\), 'quad',
    'mixed' (alternating). Faces are counter-clockwise seen from +z. z(i,j) optional height."""
    pts = [(i, j, (z(i, j) if z else 0)) for i in range(k) for j in range(l)]
    vid = lambda i, j: i * l + j
    faces = []
    for i in range(k - 1):
        for j in range(l - 1):
            a, b, c, d = vid(i, j), vid(i + 1, j), vid(i + 1, j + 1), vid(i, j + 1)
            m = mode
            if mode == "mixed":
                m = ("quad", "tri", "tri2")[(i + 2 * j) % 3]
            if m == "quad":
                faces.append((a, b, c, d))
            elif m == "tri":
                faces += [(a, b, c), (a, c, d)]
            else:
                faces += [(a, b, d), (b, c, d)]
    return pts, faces


def compact(points, faces):
    """Drop unused vertices, renumber."""
    used = sorted(set(v for f in faces for v in f))
    m = {v: i for i, v in enumerate(used)}
    return [points[v] for v in used], [tuple(m[v] for v in f) for f in faces]


def holey_grids(k, l, mode="tri", max_removed=None):
    """Every subset of faces removed from the k x l grid that leaves an oriented manifold (after dropping
    unused vertices). Yields (removed_mask, points, faces)."""
    pts, faces = grid(k, l, mode)
    nf = len(faces)
    for mask in range(1, 1 << nf):
        if max_removed is not None and bin(mask).count("1") > max_removed:
            continue
        keep = [f for i, f in enumerate(faces) if not mask >> i & 1]
        if not keep:
            continue
        p2, f2 = compact(pts, keep)
        if is_oriented_manifold(f2, len(p2)):
            yield mask, p2, f2


def prism_annulus(n, anti=False):
    """Open cylinder side: 2n vertices, quads (prism) or triangles (antiprism)."""
    import math
    from fractions import Fraction
    # integer-ish coordinates on a polygon: use a fixed table of convex polygon points for exactness
    poly = convex_polygon_points(n)
    pts = [(x, y, 0) for x, y in poly] + [(x, y, 3) for x, y in poly]
    # convex_polygon_points is ccw? ensure orientation outward does not matter for topology
    faces = []
    for i in range(n):
        j = (i + 1) % n
        if anti:
            faces += [(i, j, n + i), (j, n + j, n + i)]
        else:
            faces.append((i, j, n + j, n + i))
    return pts, faces


def torus_grid(k, l, mode="tri"):
    """k x l periodic grid (closed, genus 1); integer-ish coordinates via a (non-embedded-safe) table:
    coordinates are floats on a standard torus, topology exact."""
    import math
    pts = []
    for i in range(k):
        for j in range(l):
            u, v = 2 * math.pi * i / k, 2 * math.pi * j / l
            pts.append(((3 + math.cos(v)) * math.cos(u), (3 + math.cos(v)) * math.sin(u), math.sin(v)))
    vid = lambda i, j: (i % k) * l + (j % l)
    faces = []
    for i in range(k):
        for j in range(l):
            a, b, c, d = vid(i, j), vid(i + 1, j), vid(i + 1, j + 1), vid(i, j + 1)
            if mode == "quad":
                faces.append((a, b, c, d))
            else:
                faces += [(a, b, c), (a, c, d)]
    return pts, faces


def csaszar_torus():
    """7-vertex Moebius-Csaszar torus (closed, genus 1, every pair of vertices joined)."""
    faces = [(i % 7, (i + 1) % 7, (i + 3) % 7) for i in range(7)] + [(i % 7, (i + 3) % 7, (i + 2) % 7) for i in range(7)]
    pts = moment_curve(7)
    return pts, faces


def octahedron():
    pts = [(1, 0, 0), (-1, 0, 0), (0, 1, 0), (0, -1, 0), (0, 0, 1), (0, 0, -1)]
    faces = [(0, 2, 4), (2, 1, 4), (1, 3, 4), (3, 0, 4), (2, 0, 5), (1, 2, 5), (3, 1, 5), (0, 3, 5)]
    return pts, faces


def tetrahedron_surface():
    pts = [(0, 0, 0), (2, 0, 0), (0, 2, 0), (0, 0, 2)]
    faces = [(0, 2, 1), (0, 1, 3), (1, 2, 3), (0, 3, 2)]
    return pts, faces


def cube_quads():
    pts = [(x, y, z) for x in (0, 1) for y in (0, 1) for z in (0, 1)]
    v = lambda x, y, z: 4 * x + 2 * y + z
    faces = [(v(0, 0, 0), v(0, 0, 1), v(0, 1, 1), v(0, 1, 0)), (v(1, 0, 0), v(1, 1, 0), v(1, 1, 1), v(1, 0, 1)),
             (v(0, 0, 0), v(1, 0, 0), v(1, 0, 1), v(0, 0, 1)), (v(0, 1, 0), v(0, 1, 1), v(1, 1, 1), v(1, 1, 0)),
             (v(0, 0, 0), v(0, 1, 0), v(1, 1, 0), v(1, 0, 0)), (v(0, 0, 1), v(1, 0, 1), v(1, 1, 1), v(0, 1, 1))]
    return pts, faces


def icosahedron():
    import math
    p = (1 + 5 ** 0.5) / 2
    pts = [(-1, p, 0), (1, p, 0), (-1, -p, 0), (1, -p, 0), (0, -1, p), (0, 1, p), (0, -1, -p), (0, 1, -p),
           (p, 0, -1), (p, 0, 1), (-p, 0, -1), (-p, 0, 1)]
    faces = [(0, 11, 5), (0, 5, 1), (0, 1, 7), (0, 7, 10), (0, 10, 11), (1, 5, 9), (5, 11, 4), (11, 10, 2),
             (10, 7, 6), (7, 1, 8), (3, 9, 4), (3, 4, 2), (3, 2, 6), (3, 6, 8), (3, 8, 9), (4, 9, 5), (2, 4, 11),
             (6, 2, 10), (8, 6, 7), (9, 8, 1)]
    return pts, faces


def dodecahedron():
    """Dual of the icosahedron: 20 vertices, 12 pentagons (planar faces)."""
    ip, ifc = icosahedron()
    cent = [tuple(sum(ip[v][k] for v in f) / 3 for k in range(3)) for f in ifc]
    faces = []
    for v in range(12):
        # faces of the icosahedron around v in rotational order
        inc = [i for i, f in enumerate(ifc) if v in f]
        nxt = {}
        for i in inc:
            f = ifc[i]; k = f.index(v)
            nxt[f[(k + 1) % 3]] = (f[(k + 2) % 3], i)   # edge (v,n) -> face -> p
        start = ifc[inc[0]][(ifc[inc[0]].index(v) + 1) % 3]
        ring, cur = [], start
        for _ in range(5):
            p, i = nxt[cur]; ring.append(i); cur = p
        faces.append(tuple(ring))
    return cent, faces


def cube_grid_tets(k):
    """k x k x k cubes on the integer lattice, each cut into 6 tetrahedra around its main diagonal (Kuhn / Freudenthal
    triangulation: conforming across cubes). Returns (points, cells); cells are positively oriented for
    det(p0-p3, p1-p3, p2-p3) > 0. 6 k^3 cells, (k+1)^3 vertices, embedded."""
    import itertools
    n = k + 1
    vid = lambda x, y, z: (x * n + y) * n + z
    pts = [(x, y, z) for x in range(n) for y in range(n) for z in range(n)]
    cells = []
    for x in range(k):
        for y in range(k):
            for z in range(k):
                for perm in itertools.permutations(range(3)):
                    p = [x, y, z]
                    chain = [tuple(p)]
                    for ax in perm:
                        p[ax] += 1
                        chain.append(tuple(p))
                    c = tuple(vid(*q) for q in chain)
                    if tet_volume6(*(pts[v] for v in c)) < 0:
                        c = (c[0], c[1], c[3], c[2])
                    cells.append(c)
    return pts, cells


def cylinder_quads(k, l):
    """Open cylinder: k quads around, l rings of vertices (k*(l-1) quads, two border loops), integer-ish coordinates."""
    import math
    pts = [(round(100 * math.cos(2 * math.pi * i / k)), round(100 * math.sin(2 * math.pi * i / k)), 10 * j) for j in range(l) for i in range(k)]
    vid = lambda i, j: j * k + (i % k)
    faces = [(vid(i, j), vid(i + 1, j), vid(i + 1, j + 1), vid(i, j + 1)) for j in range(l - 1) for i in range(k)]
    return pts, faces


def fan_split_tet(n_splits, border_last=True):
    """One tetrahedron whose cells are repeatedly fan-split at their barycentre (the split cell is chosen by a fixed
    rule): 4 border vertices, n_splits interior vertices, 1 + 3 n_splits cells, embedded, exact rational coordinates.
    With border_last the interior vertices are numbered first, so the border vertices carry the largest ids."""
    from fractions import Fraction as Fr
    pts = [(Fr(0), Fr(0), Fr(0)), (Fr(64), Fr(0), Fr(0)), (Fr(0), Fr(64), Fr(0)), (Fr(0), Fr(0), Fr(64))]
    cells = [(0, 1, 2, 3)]
    for i in range(n_splits):
        c = (i * 7) % len(cells)
        a, b, cc, d = cells[c]
        bary = tuple(sum(pts[v][k] for v in (a, b, cc, d)) / 4 for k in range(3))
        nb = len(pts); pts.append(bary)
        cells[c] = (nb, b, cc, d)
        cells += [(a, nb, cc, d), (a, b, nb, d), (a, b, cc, nb)]
    if border_last:
        n = len(pts)
        perm = {0: n - 4, 1: n - 3, 2: n - 2, 3: n - 1}
        perm.update({v: v - 4 for v in range(4, n)})
        newpts = [None] * n
        for v, w in perm.items():
            newpts[w] = pts[v]
        pts = newpts
        cells = [tuple(perm[v] for v in c) for c in cells]
    cells = [c if tet_volume6(*(pts[v] for v in c)) > 0 else (c[0], c[1], c[3], c[2]) for c in cells]
    return pts, cells


# ---------------------------------------------------------------------------------- interleaved disjoint unions
def interleaved_union(parts):
    """Disjoint union of several complexes whose vertices AND elements are numbered round-robin across the parts
    (vertex j of every part comes before vertex j+1 of any part, same for the elements), so that the connected
    components are interleaved in index order instead of stored block after block.
    parts: list of (points, elements). Returns (points, elements, component label of every element)."""
    vmap, order = {}, []
    for j in range(max(len(p) for p, _ in parts)):
        for i, (p, _) in enumerate(parts):
            if j < len(p):
                vmap[(i, j)] = len(order)
                order.append(p[j])
    elems, labels = [], []
    for j in range(max(len(e) for _, e in parts)):
        for i, (_, e) in enumerate(parts):
            if j < len(e):
                elems.append(tuple(vmap[(i, v)] for v in e[j]))
                labels.append(i)
    return order, elems, labels


def _shift(points, dx):
    return [(p[0] + dx, p[1], p[2]) for p in points]


def tet_chain(k):
    """k tetrahedra (i, i+1, i+2, i+3) on the moment curve: consecutive cells share a triangle."""
    return [tuple(p) for p in moment_curve(k + 3)], [(i, i + 1, i + 2, i + 3) for i in range(k)]


def interleaved_specimens(kind):
    """Named multi-component specimens with interleaved numbering. kind 'sf' -> surfaces (strips of the integer grid),
    'vol' -> chains of tetrahedra, 'pl' -> paths. Each: (tag, points, elements)."""
    out = []
    if kind == "sf":
        menus = {"2strips:tri": [grid(2, 3, "tri"), grid(2, 3, "tri2")],
                 "3strips:tri:unequal": [grid(2, 2, "tri"), grid(2, 4, "tri"), grid(2, 3, "tri2")],
                 "strip+quads": [grid(2, 3, "tri"), grid(2, 3, "quad")],
                 "3strips:mixed": [grid(2, 3, "quad"), grid(3, 2, "tri"), grid(2, 2, "quad")]}
    elif kind == "vol":
        menus = {"2chains:3+3": [tet_chain(3), tet_chain(3)],
                 "3chains:3+3+2": [tet_chain(3), tet_chain(3), tet_chain(2)],
                 "3chains:1+2+4": [tet_chain(1), tet_chain(2), tet_chain(4)]}
    else:
        path = lambda k: ([(i, 0, 0) for i in range(k)], [(i, i + 1) for i in range(k - 1)])
        menus = {"2paths:3+3": [path(3), path(3)], "3paths:2+4+3": [path(2), path(4), path(3)]}
    for tag, parts in menus.items():
        parts = [(_shift(p, 20 * i), e) for i, (p, e) in enumerate(parts)]
        pts, el, _ = interleaved_union(parts)
        out.append(("interleaved:" + tag, pts, el))
    return out
