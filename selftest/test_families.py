"""Pins the enumerators: counts against closed forms / brute force, and the independent manifold checker."""
import sys, os, itertools
sys.path.insert(0, os.path.dirname(os.path.dirname(os.path.abspath(__file__))))
from mc import families as F

def brute_surf(n):
    # brute force over all subsets of oriented triangles (n <= 4)
    cands = sorted(set(F.rot_min(p) for s in itertools.combinations(range(n), 3) for p in itertools.permutations(s)))
    out = 0
    for mask in range(1, 1 << len(cands)):
        fl = [c for i, c in enumerate(cands) if mask >> i & 1]
        if F.is_oriented_manifold(fl, n): out += 1
    return out

assert len(F.surf_enum(3)) == 2
assert len(F.surf_enum(4)) == 22 == brute_surf(4)
assert len(F.surf_enum(5)) == 410
assert len(F.surf_enum(4, (3, 4))) == 64
for fl in F.surf_enum(5): assert F.is_oriented_manifold(fl, 5)
assert [len(F.tet_enum(n)) for n in (4, 5)] == [1, 26]
cat = [1, 2, 5, 14, 42]
for k, c in zip(range(3, 8), cat):
    assert len(F.tri_enum(F.convex_polygon_points(k), F.fan_triangulation(k))) == c, k
    P = F.convex_polygon_points(k)
    for i in range(k):   # strictly convex, counter-clockwise or clockwise consistently
        assert F.orient2d(P[i], P[(i + 1) % k], P[(i + 2) % k]) * F.orient2d(P[0], P[1], P[2]) > 0
assert sum(1 for _ in F.graph_enum(4)) == 64
assert len(F.surf6_classes()) == 28 and len(F.tet6_classes()) == 16
assert len(set(F.canonical_class(f, 5) for f in F.surf_enum(5))) == 5
for name in ("octahedron", "icosahedron", "tetrahedron_surface", "cube_quads", "dodecahedron", "csaszar_torus"):
    p, f = getattr(F, name)()
    assert F.is_oriented_manifold(f, len(p)), name
    sig = F.surface_signature(f, len(p))
    assert sig["chi"] == (0 if name == "csaszar_torus" else 2) and sig["closed"], (name, sig)
p, f = F.torus_grid(3, 4); assert F.is_oriented_manifold(f, len(p)) and F.surface_signature(f, len(p))["chi"] == 0
p, f = F.grid(3, 4, "mixed"); assert F.is_oriented_manifold(f, len(p)) and F.surface_signature(f, len(p))["chi"] == 1
p, f = F.prism_annulus(5, True); s = F.surface_signature(f, len(p)); assert s["chi"] == 0 and s["loops"] == 2
assert sum(1 for _ in F.holey_grids(3, 3, "quad")) > 5
print("families ok")
