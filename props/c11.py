"""C11 - k-d tree: construction always terminates, leaves partition the input, kNN / radius queries exact.

Shape S2 x S3 (DESIGN.md 4/C11).  Every multiset of points over a small geometric lattice is built with
every leaf size and strategy by the REAL constructor.  The constructor's only source of randomness,
`np.random.choice` reached through the module-global `np` of mouette/spatial/kdtree.py, is an environment
seam owned by the harness (the global is rebound to a delegating proxy): every answer is enumerated
(stateless depth-first search over answer scripts, each script executed on a fresh constructor call), so
the random build is explored as a transition system.

Termination is decided structurally, never by waiting: a subclass hook around `KDTree._split_points`
records every split as a transition  (leaf index set, axis) --pivot--> (less, more)  and aborts the
constructor as soon as a leaf is asked to split again on an axis on which the very same index set was
already split without progress (a repeated build state).  From the complete transition relation the
least fixed point "this leaf state has a terminating continuation" is computed; a reachable state without
one is reported as `hang` (for the deterministic pivots that is exactly: the constructor loops forever).

Queries are compared with a brute-force oracle on exact integer arithmetic (coordinates doubled, so
4*squared distances are integers).

Argument forms and ownership (subchecks C11.forms.* and C11.build.owns_points): the answers are a function of
the point VALUES given at build time and of the VALUE of the query position.  The forms families hand every
point set to the real constructor as float64 / float32 / int64 array (C, Fortran, strided view, read-only view)
and as list of tuples / lists / Vec (int or float elements), ask every query also as Vec / ndarray / list /
tuple with float or int elements (fractional positions on integer-typed points included), compare the
caller's containers with their snapshots, then let the caller edit his container in place (re-centre,
overwrite rows, sort columns) and ask all trees again: same brute-force table.  A wrong behaviour is classified
by the set of forms it shows on relative to the forms tried (all / one attribute value / container kinds).

Unit of length (subchecks C11.unit.<clause>): the lattice only holds small non-negative integers, values an index or a
count could be mistaken for and on which absolute tolerances are invisible.  The @unit families hand the constructor
2^e * (x + offset) for every lattice coordinate x (UNITS: strictly inside (0,1), all negative thousands, both signs
around 1e-9, all >= 1024), positions and radii scaled alike; powers of two scale every distance exactly, so the
brute-force integer tables stay the oracle, and the termination clause (every pivot answer of the seam) is evaluated
on the scaled coordinates as well.  np.random.choice(n) with an int population is answered as numpy documents it
(np.arange(n)).  Geometry far from the origin belongs to the same deviation: FAR_UNITS translate the lattice by 2^30 / -2^44 /
(+2^36, -2^36, 0) per axis before scaling, i.e. by at least 2^25 times its extent (class lattice_far_from_origin[_on_some_axes]),
with coordinates, coordinate differences and pivots still exact doubles (verified on rationals for every array handed over).

Ownership of the answers (subchecks C11.results.kept_answer / later_call / callers_edit, C11.forms.kept_answer): an answer is
the answer to ITS call.  Every object returned during the enumeration of a tree is kept and compared with a copy of its content
after all later calls on that tree; on a call alphabet of 12 calls per tree every ordered pair (c1, c2) is run as the history
c1, caller's edit of the returned object (none / clear / append foreign indices / reverse and overwrite), c2, c1 again, the second
and third answer judged by brute force.

Scalar argument forms (subcheck C11.forms.scalar): k as numpy integers of four widths, the radius as Python int, numpy float64 /
float32 / int64 / int32 wherever the carrier holds the value exactly (0 as an integer included).

Call forms and documented defaults (subchecks C11.call.strategy_spelling, C11.call.keyword_forms, C11.defaults.omitted,
C11.defaults.signature): every strategy name lower-case / Capitalised / UPPER (the constructor validates
strategy.lower()), the constructor and both queries written with keywords in several orders, and every optional
argument omitted - one at a time and all together - against the value pinned in DOCUMENTED (copied from the docstrings:
max_leaf_size 10, strategy 'fast', k 1, which 'l2'), on inputs where the default matters (9..12 and 23 points around the
leaf size 10; 51 points, where 'fast' stops coinciding with 'balanced').  The expectation of a written form is the set
of distinct trees, over all seam answers, of the positional lower-case reference form, resp. the brute-force table.
"""
from __future__ import annotations
import itertools, math, random as _pyrandom
from fractions import Fraction
from math import comb

ID = "C11"
TECHNIQUE = ("bounded-exhaustive input family x exhaustive enumeration of the pivot seam (stateless DFS over answer "
             "scripts on the real constructor), structural cycle detection for termination, brute-force exact oracle")
RULE = ("every multiset of <= nmax points over the lattice L^d (all sizes, duplicates included), each in the listed "
        "row orders, x leaf size 1..3 x strategy balanced/fast/random x every answer of np.random.choice (one pivot "
        "value per distinct coordinate for 'random'; identity and reversed full-sample permutation, at most one "
        "deviation per build, for 'fast'; all 51 leave-one-out samples at 51 points); a build is cut only where a "
        "leaf state (index set, axis) repeats. Distinct trees of one point array are queried once: every query "
        "point of Q^d (lattice values, midpoints, one step outside), every k in 1..n+1, radii {0,1/2,1,sqrt2,8,inf}. "
        "A distinct non-trivial case = (point array, tree) with at least one internal node. Argument forms: every "
        "multiset of the forms families is handed to the constructor in every listed form (ndarray float64 C / Fortran "
        "/ strided view / read-only view, float32, int64, lists of int or float tuples, of lists, of Vec), leaf size "
        "1..2 x strategy x every pivot answer; its distinct trees with an internal node are queried (every query point, "
        "k in 1..n+1, all radii; the first tree of the float64 / int64 / int-tuple forms in the 8 query forms Vec / "
        "ndarray / list / tuple x float / int, int-typed only for positions without fractional part), the argument "
        "containers are compared with their snapshot, then the caller edits his container in place (re-centre, "
        "overwrite rows, sort columns) and all trees are asked again against the same brute-force table. Unit of length: "
        "the @unit families are built and asked on 2^e*(x+offset) instead of the lattice values x (quick: one unit per "
        "point set, rotating; thorough: every unit), all clauses incl. termination over every pivot answer. Call forms: "
        "every point set of the call families x leaf size x strategy is built with the name Capitalised and UPPER, in the "
        "keyword forms (quick: one per point set, rotating), and with strategy omitted; the queries of its first tree "
        "with an internal node are written with keywords and with k omitted; inputs of 9..12, 23 and 51 points are "
        "built with max_leaf_size (and strategy) omitted; written signatures are compared with the pinned table. "
        "Far from the origin: the units of FAR_UNITS translate the lattice by >= 2^25 times its extent (all axes / some axes, "
        "both directions) and take part in the @unit families like every other unit (quick: one near and one far unit per "
        "point set, both rotating; thorough: every unit on every point set). Result ownership: every object returned by "
        "query / query_radius during the enumeration of a tree is kept and compared with its copy after all later calls; on "
        "the first tree(s) with an internal node of every queried point array (and of the 51-point and default inputs) every "
        "ordered pair of the 12 calls {position on a stored point, middle position of the alphabet} x {k=1,n,n+1; r=0,8,inf} "
        "is run as history c1 / caller's edit of the answer / c2 / c1 (quick: one of the 4 edits per pair, rotating with "
        "i+j; thorough: all 4). Scalar forms: on the first tree of the three core build forms every k in 4 numpy integer "
        "types and every radius in 5 further carriers that hold it exactly")
ASSUMPTIONS = [
    "numpy itself is trusted (np.median is permutation invariant, np.extract keeps order); only kdtree.py's np global is proxied",
    "coordinates are restricted to the listed lattices (floats that are exact small integers; half-integers for queries), "
    "so the library's float distances are exact up to one correctly-rounded sqrt and are compared exactly through 4*d^2 integers",
    "point-set sizes, dimensions (1,2,3), leaf sizes 1..3 and query alphabets are bounded as in coverage.bounds; "
    "row orders are limited to sorted (+ reversed where listed), not all n! orders",
    "termination hook relies on KDTree._split_points being the only place where a leaf is split (a vacuity guard "
    "checks the hook fired and a numpy-access counter on the proxy is an independent backstop)",
    "'fast' above 50 points is only exercised at exactly 51 points (51 leave-one-out root samples), never 52+",
    "argument forms: containers and element types that numpy converts to an (N,d) array and positions that numpy "
    "subtracts from a row are treated as legal input (the unchanged library answers all of them); float32 is used for "
    "stored points only (lattice values are exact in float32), never for query positions; quick: one caller edit per "
    "(point set, form), kinds rotating so that every (form, edit) pair occurs; query forms other than Vec(float64) only "
    "on the first distinct tree (in key order) of the three core build forms",
    "unit of length: scales are exact powers of two and offsets integers, so scaled coordinates, differences, squares and "
    "their sums are exact doubles and the library's distances are the unscaled ones times the scale (checked: the scaled "
    "array equals the element-wise products); quick rotates the units over the point sets instead of crossing them",
    "strategy names are case-insensitive because the constructor validates strategy.lower() (behaviour of the unchanged "
    "tree, not the docstring); only the spellings lower / Capitalised / UPPER are tried",
    "far from the origin: offsets are +-2^30..2^44 with scales 2^0..2^-20, chosen so that every coordinate, every sum and "
    "difference of two coordinates of one axis and every half-step query position is an exact double (checked with Fractions "
    "on every array; a unit that fails the check is a harness error); squared coordinates are NOT exact there, which is the "
    "point: only quantities computed from coordinate differences are promised to be exact",
    "result ownership: 'returns exactly ...' is read as: the returned object holds the answer of its call for as long as the "
    "caller keeps it, and the caller may do with it what he likes; identity of returned objects is not judged, only content. "
    "Histories are bounded to 3 calls with one edit; a call that is wrong on its own takes no part in them",
    "scalar forms: numpy integer / floating scalars and Python ints are treated as legal k / r (the unchanged library answers "
    "all of them); carriers that cannot hold the value exactly (float32 for sqrt 2) are skipped, bool is not tried",
    "documented defaults (max_leaf_size=10, strategy='fast', k=1, which='l2') and the parameter order are pinned in "
    "DOCUMENTED from the docstrings of the unchanged tree; below 51 points 'fast' samples every point and builds the trees "
    "of 'balanced', so an omitted strategy is told from 'balanced' only on the 51-point line",
]
BOUNDS = {
    "quick": "leaf sizes 1..3; k=1..n+1; radii {0,1/2,1,sqrt2,8,inf}. d=1: L={0,1,2,8,20}, n<=5, balanced/fast/random (all "
             "pivots), 11 query points; d=2: L={0,1,8}, n<=3, all strategies, 49 query points; L={0,1,2,8,20}, n<=3, all "
             "strategies, build clauses only; d=3: L={0,8}, n<=2 all strategies, n=3 balanced/fast, queries on "
             "{-1,0,4,8}^3; fast@51 distinct points on a line, leaf 3, 51 leave-one-out root samples; argument forms / "
             "ownership: d=1 L={0,1,8} n=1..3 (7 query points), d=2 L={0,1,8} n=1..2 (16 query points of "
             "{-1/2,0,9/2,8}^2), 10 build forms, leaf 1..2, all strategies and pivots, 8 query forms, 1 of 3 caller edits "
             "per container; unit of length (3 units 2^-5*(x+1), 2^10*(x-21), 2^-30*(x-3), one per point set): d=1 "
             "L={0,1,2,8,20} n=2..4 all strategies full queries, d=2 L={0,1,8} n=2 (25 query points) and n=3 build clauses, "
             "d=3 L={0,8} n=2 leaf 1 (27 query points); call forms: d=1 L={0,1,2,8,20} n=2..3 and d=2 L={0,8} n=2..3, leaf "
             "1..2, 3 strategies x 2 spellings, 1 of 4 keyword forms per point set, strategy omitted (2 forms), query "
             "forms on 1 tree per point set; defaults: lines of 9,10,11,12 points, 4x3 grid, 2 values x 6, 11 copies + 1 "
             "(all strategies), line of 23 (balanced/fast), line of 51 leaf 3 and default leaf (fast); 5 signatures; "
             "result ownership: all returned objects of every queried tree kept; pair histories (144 pairs x 1 edit) on 1 tree "
             "per queried point array, all 4 edits on the 51-point and default inputs; scalar forms: 4 k types, 5 radius "
             "carriers on the first tree of 3 build forms per forms point set",
    "thorough": "leaf sizes 1..3; k=1..n+1; radii {0,1/2,1,sqrt2,8,inf}. d=1: L={0,1,2,8,20}, n<=6, all strategies, sorted and "
                "reversed rows; d=2: L={0,1,8}: n<=3 all strategies sorted+reversed rows and int dtype, n=4 all strategies, "
                "n=5 balanced/fast with 25 query points (lattice+midpoints); L={0,1,2,8}: n<=2 all strategies, n=3 "
                "balanced/fast; L={0,1,2,8,20}: n<=2 all strategies with 121 query points; build clauses only on "
                "L={0,1,2,8,20}: n<=3 all strategies, n=4 balanced/fast, n=5 balanced; d=3: L={0,8}: n<=3 all strategies "
                "125 query points, n=4 balanced/fast 64 query points; build clauses only on L={0,1,8}: n<=3 all strategies, "
                "n=4 balanced/fast; fast@51 points: line, 7x8 grid, 3 geometric clusters x leaf 1..3, 51 leave-one-out "
                "root samples (leaf 3: plus <=1 reversed-sample deviation below 51 points); argument forms / ownership: "
                "d=1 L={0,1,2,8,20} n=1..3 all strategies, n=4 balanced/fast (11 query points), d=2 L={0,1,8} n=1..2 (25 "
                "query points) and n=3 balanced/fast (16 query points), d=3 L={0,8} n=1..2 (27 query points of "
                "{-1/2,7/2,8}^3), 16 build forms, leaf 1..2, 8 query forms, each of the 3 caller edits on a fresh container; "
                "unit of length (7 units, 3 of them far from the origin, every unit on every point set): d=1 L={0,1,2,8,20} n=2..5, d=2 L={0,1,8} n=2..3, "
                "L={0,1,2,8,20} n=3 build clauses, d=3 L={0,8} n=2..3; call forms: d=1 L={0,1,2,8,20} n=2..4 leaf 1..3, d=2 "
                "L={0,1,8} n=2..3, d=3 L={0,8} n=2..3, every keyword form on every point set; defaults: additionally line of "
                "13, grids of 11, 14, 35, 2 values x 23, and the 51-point grid and clusters; result ownership: pair histories "
                "(144 pairs x 4 edits) on 3 trees per queried point array; scalar forms as quick on the thorough forms families",
}

L5 = [0, 1, 2, 8, 20]
L4 = [0, 1, 2, 8]
L3 = [0, 1, 8]
L2 = [0, 8]
ALL = ["balanced", "fast", "random"]
RADII4 = [("0", 0), ("1/2", 1), ("1", 4), ("sqrt2", 8), ("8", 256), ("inf", None)]   # label, 4*r^2
PATH_CAP = 60000
LEVEL_TEXT = ("Bounded model checking of the real KDTree: the input family and every answer of the random-pivot seam are "
              "enumerated exhaustively inside the stated bounds; termination is decided on the explored transition "
              "relation of pending leaves (repeated state = cycle), queries by an exact brute-force oracle. Nothing is "
              "sampled; numpy's and Python's global RNG states are verified untouched by every task.")


def _fam(name, d, lat, nmin, nmax, q="full", strategies=ALL, orders=("sorted",), dtype="float", batch=8,
         qalpha=None, leafs=(1, 2, 3), units=None, all_units=False):
    f = dict(fam=name, d=d, lat=lat, nmin=nmin, nmax=nmax, q=q, strategies=list(strategies),
             orders=list(orders), dtype=dtype, batch=batch, qalpha=qalpha, leafs=list(leafs))
    if units:      # unit-of-length deviation: the family is built and asked in these units only (see UNITS)
        f.update(units=list(units), all_units=all_units)
    return f


BF = ["balanced", "fast"]


def _families(tier):
    """The small 1-D family first (so that the first counterexample of a fingerprint is a minimal one), then the heavy
    families, light ones last (the pool hands out tasks in order, so the tail stays light)."""
    if tier == "quick":
        UQ = UNITS_OF_TIER["quick"]
        return [
            _fam("1d-L5", 1, L5, 0, 5, batch=12),
            _fam("3d-L2", 3, L2, 3, 3, strategies=BF, batch=6, qalpha=[-2, 0, 8, 16]),
            _fam("3d-L2", 3, L2, 0, 2, batch=6, qalpha=[-2, 0, 8, 16]),
            _fam("1d-L5@unit", 1, L5, 2, 4, batch=12, units=UQ),
            _fam("2d-L3@unit", 2, L3, 2, 2, batch=9, units=UQ, qalpha=[-2, 0, 1, 9, 16]),
            _fam("2d-L3@unit-build", 2, L3, 3, 3, q="none", batch=42, units=UQ),
            _fam("3d-L2@unit", 3, L2, 2, 2, batch=12, units=UQ, leafs=(1,), qalpha=[-2, 8, 16]),
            _fam("2d-L3", 2, L3, 0, 3, batch=6),
            _fam("2d-L5-build", 2, L5, 0, 3, q="none", batch=150),
        ]
    both = ("sorted", "reversed")
    UT = UNITS_OF_TIER["thorough"]
    return [
        _fam("1d-L5", 1, L5, 0, 6, orders=both, batch=6),
        _fam("1d-L5@unit", 1, L5, 2, 5, batch=4, units=UT, all_units=True),
        _fam("2d-L3@unit", 2, L3, 2, 3, batch=3, units=UT, all_units=True),
        _fam("2d-L5@unit-build", 2, L5, 3, 3, q="none", batch=60, units=UT, all_units=True),
        _fam("3d-L2@unit", 3, L2, 2, 3, batch=3, units=UT, all_units=True, qalpha=[-2, 0, 8, 16]),
        _fam("2d-L3", 2, L3, 5, 5, strategies=BF, qalpha=[0, 1, 2, 9, 16], batch=6),
        _fam("2d-L3", 2, L3, 4, 4, batch=4),
        _fam("2d-L4", 2, L4, 3, 3, strategies=BF, batch=6),
        _fam("3d-L2", 3, L2, 4, 4, strategies=BF, qalpha=[-2, 0, 8, 16], batch=4),
        _fam("3d-L3-build", 3, L3, 4, 4, q="none", strategies=BF, batch=400),
        _fam("2d-L5-build", 2, L5, 5, 5, q="none", strategies=["balanced"], batch=1500),
        _fam("2d-L5-build", 2, L5, 4, 4, q="none", strategies=BF, batch=400),
        _fam("3d-L2", 3, L2, 0, 3, batch=3),
        _fam("2d-L5", 2, L5, 0, 2, batch=4),
        _fam("2d-L3", 2, L3, 0, 3, orders=both, batch=4),
        _fam("2d-L3-int", 2, L3, 1, 3, dtype="int", batch=6),
        _fam("2d-L4", 2, L4, 0, 2, batch=4),
        _fam("3d-L3-build", 3, L3, 0, 3, q="none", batch=150),
        _fam("2d-L5-build", 2, L5, 0, 3, q="none", batch=150),
    ]


def _fast51(tier):
    fams = ["line51"] if tier == "quick" else ["line51", "grid51", "cluster51"]
    leafs = [3] if tier == "quick" else [1, 2, 3]
    # reversed-sample deviations below 51 points only with leaf size 3 (~17 splits per build): 51 x (1 + splits) builds
    return [dict(fam="fast51", which=w, leaf=l, symdev=(tier != "quick" and l == 3), omit=(l == 3)) for w in fams for l in leafs]


HIST = {"quick": [1, False], "thorough": [3, True]}    # result histories: trees per point array, every edit on every pair?


def n_multisets(m, n):
    return comb(m + n - 1, n) if (m or not n) else 0


def tasks(tier):
    out = []
    for i, f in enumerate(_families(tier)):
        if i == 1:
            out += _fast51(tier)
        m = len(f["lat"]) ** f["d"]
        for n in range(f["nmin"], f["nmax"] + 1):
            total = n_multisets(m, n)
            b = f["batch"]
            for start in range(0, total, b):
                t = dict(f)
                t.pop("nmin"); t.pop("nmax"); t.pop("batch")
                t.update(n=n, start=start, stop=min(total, start + b), hist=HIST[tier])
                out.append(t)
        if i == 1:
            out += _forms_tasks(tier)
            out += _call_tasks(tier)
    return out


def _forms_tasks(tier):
    out = []
    for f in _form_families(tier):
        m = len(f["lat"]) ** f["d"]
        for n in range(f["nmin"], f["nmax"] + 1):
            total = n_multisets(m, n)
            b = f["batch"]
            for start in range(0, total, b):
                t = dict(f)
                for key in ("nmin", "nmax", "batch", "q", "orders", "dtype"):
                    t.pop(key)
                t["leafs"] = [1, 2]
                t.update(kind="forms", n=n, start=start, stop=min(total, start + b), bforms=BFORMS[tier],
                         all_edits=(tier != "quick"))
                out.append(t)
    return out


# ------------------------------------------------------------------------------------------------
# environment seam and structural termination hook
class _Abort(BaseException):
    """Private: raised from inside the hooks to leave the real constructor (BaseException so that no
    `except Exception` in the code under test can swallow it)."""


class _Cycle(_Abort):
    pass


class _Cap(_Abort):
    pass


class SeamError(Exception):
    """The harness does not own the randomness (=> harness error, never a pass)."""


class _Ctl:
    """Per-constructor-call controller: answer script, branch widths, recorded transitions."""

    def __init__(self, script, n, d, symdev=True):
        self.script = script
        self.calls = []          # (width, symmetric?, answer index)
        self.trans = []          # (idx tuple, axis, pivot, less tuple, more tuple)
        self.stutter = {}        # idx tuple -> set of axes already split without progress
        self.nsplits = 0
        self.ticks = 0
        self.split_cap = 50 * max(n, 1) * d + 50
        self.tick_cap = 40 * self.split_cap + 2000
        self.symdev = symdev
        self.cycle_at = None

    # -- np.random.choice -----------------------------------------------------------------------
    def choice(self, a, size=None, replace=True, p=None):
        import numpy as np
        a = np.asarray(a)
        if a.ndim == 0 and np.issubdtype(a.dtype, np.integer):
            a = np.arange(int(a))        # numpy's contract: an int population n stands for np.arange(n)
        if a.ndim != 1 or p is not None:
            raise SeamError(f"unsupported np.random.choice call: a.shape={a.shape} p={p is not None}")
        m = 1 if size is None else int(size)
        if m == 1:
            vals = sorted(set(a.tolist()))
            cands = [np.array([v], dtype=a.dtype) for v in vals]
            sym = False
        elif not replace and m == a.size:
            cands = [a.copy()] + ([a[::-1].copy()] if (self.symdev and a.size > 1) else [])
            sym = True
        elif not replace and m == a.size - 1:
            seen, cands = set(), []
            for j, v in enumerate(a.tolist()):
                if v not in seen:
                    seen.add(v)
                    cands.append(np.delete(a, j))
            sym = False
        else:
            raise SeamError(f"np.random.choice(size={size}, replace={replace}) on {a.size} values is not enumerated")
        j = len(self.calls)
        ans = self.script[j] if j < len(self.script) else 0
        if ans >= len(cands):
            raise SeamError("answer script does not fit the replayed execution (non-determinism)")
        self.calls.append((len(cands), sym, ans))
        out = cands[ans]
        return out if size is not None else out[0]

    def tick(self):
        self.ticks += 1
        if self.ticks > self.tick_cap:
            raise _Cap("numpy-access cap")


_CUR = [None]     # current controller (None outside constructor calls)


class _RandomProxy:
    def choice(self, *a, **k):
        if _CUR[0] is None:
            raise SeamError("np.random.choice called outside a controlled constructor call")
        return _CUR[0].choice(*a, **k)

    def __getattr__(self, name):
        raise SeamError(f"kdtree.py reached np.random.{name}: this draw is not owned by the harness")


class _NpProxy:
    def __init__(self, real):
        self.__dict__["_real"] = real
        self.__dict__["random"] = _RandomProxy()

    def __getattr__(self, name):
        c = _CUR[0]
        if c is not None:
            c.tick()
        return getattr(self._real, name)


_PROBE = {}


def _probe_class():
    """Subclass of the real KDTree whose _split_points records transitions and detects repeated states."""
    if "cls" in _PROBE:
        return _PROBE["cls"]
    from mouette.spatial.kdtree import KDTree

    class Probe(KDTree):
        def _split_points(self, pt_idx, axis):
            c = _CUR[0]
            if c is None:
                return super()._split_points(pt_idx, axis)
            key = tuple(int(i) for i in pt_idx)
            ax = int(axis)
            st = c.stutter.get(key)
            if st is not None and ax in st:
                c.cycle_at = (key, ax)
                raise _Cycle()
            c.nsplits += 1
            if c.nsplits > c.split_cap:
                raise _Cap("split cap")
            res = super()._split_points(pt_idx, axis)
            pivot, less, more = res
            l = tuple(int(i) for i in less)
            m = tuple(int(i) for i in more)
            c.trans.append((key, ax, float(pivot), l, m))
            if len(l) == len(key) or len(m) == len(key):
                c.stutter.setdefault(key, set()).add(ax)
            return res

    _PROBE["cls"] = Probe
    return Probe


class _Seam:
    """Context manager: rebinds kdtree.py's module global `np` to the proxy, restores it afterwards, and
    proves ownership: numpy's and Python's global RNG states must be untouched by everything in between."""

    def __enter__(self):
        import numpy as np
        import mouette.spatial.kdtree as kd
        self.kd = kd
        self.saved = kd.np
        if isinstance(self.saved, _NpProxy):
            raise SeamError("seam already installed")
        kd.np = _NpProxy(self.saved)
        self.s_np = np.random.get_state()
        self.s_py = _pyrandom.getstate()
        return self

    def __exit__(self, et, ev, tb):
        import numpy as np
        self.kd.np = self.saved
        _CUR[0] = None
        if et is None or issubclass(et, Exception):
            s = np.random.get_state()
            same = (s[0] == self.s_np[0] and (s[1] == self.s_np[1]).all() and tuple(s[2:]) == tuple(self.s_np[2:])
                    and _pyrandom.getstate() == self.s_py)
            if not same:
                raise SeamError("global RNG state changed during the task: a random draw escaped the seam")
        return False


def _build(arr, leaf, strat, script, symdev=True, shape=None, call=None):
    """One execution of the real constructor under an answer script.
    Returns (status, tree_or_info, ctl); status in ok / cycle / cap / raises.
    `arr` is handed to the constructor as is (any argument form); `shape` = (n, d) when it is not an array.
    `call` (optional) = function(cls) -> tree making the constructor call in another call form (keywords, omitted
    arguments); the default form is cls(arr, leaf, strat), everything positional."""
    Probe = _probe_class()
    n, d = shape if shape is not None else arr.shape
    ctl = _Ctl(script, n, d, symdev)
    _CUR[0] = ctl
    try:
        tree = Probe(arr, leaf, strat) if call is None else call(Probe)
        return "ok", tree, ctl
    except _Cycle:
        return "cycle", ctl.cycle_at, ctl
    except _Cap as e:
        return "cap", str(e), ctl
    except SeamError:
        raise
    except Exception as e:  # the statement promises that building finishes
        return "raises", (type(e).__name__, str(e)[:200]), ctl
    finally:
        _CUR[0] = None


def _explore(arr, leaf, strat, symdev=True, shape=None, call=None, path_cap=None):
    """All executions of the constructor over every seam answer (stateless DFS).
    Returns dict(trees=[(tree, path)], trans={(key,axis): {pivot: (less, more)}}, statuses=Counter-like dict,
    paths=int, splits=int, seam_calls=int, capped=bool, raises=[...], caps=[...])."""
    res = dict(trees=[], trans={}, statuses={}, paths=0, splits=0, seam_calls=0, capped=False, raises=[], caps=[],
               ticks=0, widths=set())
    stack = [()]
    while stack:
        script = stack.pop()
        status, val, ctl = _build(arr, leaf, strat, script, symdev, shape, call)
        res["paths"] += 1
        res["splits"] += ctl.nsplits
        res["ticks"] += ctl.ticks
        res["seam_calls"] += len(ctl.calls)
        res["statuses"][status] = res["statuses"].get(status, 0) + 1
        path = tuple(c[2] for c in ctl.calls)
        # the axis on which each child is split next is OBSERVED (first later split request of that index set),
        # never assumed; None = the child was never asked to split on this path
        later = [(t[0], t[1]) for t in ctl.trans] + ([ctl.cycle_at] if ctl.cycle_at else [])
        for t, (key, ax, piv, l, m) in enumerate(ctl.trans):
            al = next((a for (k2, a) in later[t + 1:] if k2 == l), None)
            am = next((a for (k2, a) in later[t + 1:] if k2 == m), None)
            outs = res["trans"].setdefault((key, ax), {})
            old = outs.get(piv)
            if old is not None:
                al = old[1] if al is None else al
                am = old[3] if am is None else am
            outs[piv] = (l, al, m, am)
        if status == "ok":
            res["trees"].append((val, (list(path), [t[2] for t in ctl.trans])))
        elif status == "raises":
            res["raises"].append((val, path))
        elif status == "cap":
            res["caps"].append((val, path))
        # siblings: every not-yet-scripted call position, every non-default answer
        deviated = any(sym and a != 0 for (_, sym, a) in ctl.calls[:len(script)])
        for j in range(len(script), len(ctl.calls)):
            w, sym, a = ctl.calls[j]
            res["widths"].add(w)
            if not (sym and deviated):
                for b in range(1, w):
                    stack.append(path[:j] + (b,))
            if sym and a != 0:
                deviated = True
        if res["paths"] >= PATH_CAP:
            res["capped"] = True
            break
        if path_cap is not None and res["paths"] >= path_cap and stack:
            res["cut"] = True        # a call form that should repeat a reference exploration runs far more builds than that
            break
    return res


def _non_terminating_states(trans, leaf, d):
    """Least fixed point over the recorded AND-OR graph: a leaf state (idx, axis) can terminate iff it is small
    enough or SOME pivot answer leads to two children that can both terminate.  Returns the sorted list of
    recorded states that cannot."""
    memo = {}
    onstack = set()

    def ok(key, ax):
        if len(key) <= leaf or ax is None:
            return True           # small enough / never asked to split on any explored path (then some other
                                  # pending leaf was stuck first and is the one reported)
        s = (key, ax)
        if s in memo:
            return memo[s]
        if s in onstack:
            return False          # only reachable again through no-progress splits: contributes nothing (lfp)
        outs = trans.get(s)
        if outs is None:
            return True           # never requested by the real code: nothing to say
        onstack.add(s)
        good = False
        for piv in sorted(outs):
            l, al, m, am = outs[piv]
            if ok(l, al) and ok(m, am):
                good = True
                break
        onstack.discard(s)
        # a False obtained while an ancestor is on the stack may be provisional; cache only definite answers
        if good or not onstack:
            memo[s] = good
        return good

    bad = [s for s in sorted(trans, key=lambda s: (len(s[0]), s)) if not ok(*s)]
    return bad


# ------------------------------------------------------------------------------------------------
def _tree_key(tree):
    from mouette.spatial.kdtree import KDTree
    out = [str(tree.points.dtype)]
    for nd in tree.nodes:
        bb = (tuple(float(x) for x in nd.bb.mini), tuple(float(x) for x in nd.bb.maxi)) if nd.bb is not None else None
        if isinstance(nd, KDTree.Leaf):
            out.append(("L", nd.id, nd.split_axis, nd.parent, tuple(int(i) for i in nd.points), bb))
        else:
            out.append(("N", nd.id, nd.split_axis, nd.parent, float(nd.split_value), nd.left, nd.right, bb))
    return tuple(out)


def _tree_shape(tree):
    from mouette.spatial.kdtree import KDTree
    leaves = [nd for nd in tree.nodes if isinstance(nd, KDTree.Leaf)]
    return leaves, len(tree.nodes) - len(leaves)


def _max_multiplicity(pts):
    c = {}
    for p in pts:
        c[p] = c.get(p, 0) + 1
    return max(c.values()) if c else 0


def _pivot_class(strat):
    return "pivot=random" if strat == "random" else "pivot=median"


def _qalphabet(lat):
    """Doubled query coordinates per axis: lattice values, midpoints of consecutive values, one step outside."""
    s = sorted(lat)
    q = {2 * v for v in s} | {a + b for a, b in zip(s, s[1:])} | {2 * (s[0] - 1), 2 * (s[-1] + 1)}
    return sorted(q)


def _check_partition(rep, tree, n, icls, detail, unit=None):
    """'every input point is stored in exactly one leaf'."""
    leaves, _ = _tree_shape(tree)
    got = sorted(int(i) for lf in leaves for i in lf.points)
    rep.evaluations += 1
    if got != list(range(n)):
        miss = sorted(set(range(n)) - set(got))
        dup = sorted({i for i in got if got.count(i) > 1})
        kind = "mismatch:point_lost" if miss else ("mismatch:point_in_two_leaves" if dup else "mismatch:foreign_index")
        _viol(rep, _sub(unit, "C11.build.partition"), "KDTree.__init__", kind, _ucls(unit, "any_point_set"),
                      dict(detail, leaf_contents=[[int(i) for i in lf.points] for lf in leaves]))


def _check_queries(rep, tree, pts2, qpoints2, tdetail, ks=None, unit=None):
    """kNN and radius queries of one tree against brute force on exact integers (all coordinates doubled, so
    d4 = 4 * squared distance is an integer).  Statement clauses, one subcheck each:
      C11.knn.answers      query answers instead of raising
      C11.knn.indices      what comes back are distinct indices of input points
      C11.knn.count        exactly min(k, n) of them
      C11.knn.k_smallest   their distances are the k smallest distances (as a multiset: ties may pick either point)
      C11.knn.order        listed in non-decreasing distance
      C11.radius.answers / C11.radius.exact_ball   exactly the points with distance <= r, each once, any order
    Under a unit of length (`unit` = (name, class, scale, offset): the tree was built on scale*(x+offset), scale an exact
    power of two) the positions and radii are scaled alike; distances, being scaled exactly, compare as the integers do.
    The subchecks are then named C11.unit.<clause> and the class carries the unit."""
    import numpy as np
    from mouette.geometry import Vec
    n = len(pts2)
    sc, off = _unit_map(unit, pts2, qpoints2)
    keep = _Keep()
    for q2 in qpoints2:
        q = [sc * (c / 2 + o) for c, o in zip(q2, off)]
        qv = Vec(np.array(q, dtype=float))
        d4 = [sum((a - b) ** 2 for a, b in zip(p, q2)) for p in pts2]
        sd4 = sorted(d4)
        if len(set(sd4)) < len(sd4):
            rep.flag("knn:tied_distances")
        for k in (ks or range(1, n + 2)):
            try:
                res = tree.query(qv, k)
            except Exception as e:
                _viol(rep, _sub(unit, "C11.knn.answers"), "KDTree.query", "raises:" + type(e).__name__, _ucls(unit, KCLS),
                      dict(tdetail, query=q, k=k, msg=str(e)[:200]))
                rep.outcome("knn", "raises")
                continue
            rep.transitions += 1
            rep.evaluations += 1
            keep.add("KDTree.query", (q, "k", k), res)
            want = sd4[:k]
            try:
                idx = [int(i) for i in res]
            except Exception:
                idx = None
            bad = got = None
            if idx is not None and all(0 <= i < n for i in idx):
                got = [d4[i] for i in idx]
            if got is None:
                bad = ("C11.knn.indices", "mismatch:not_an_index")
            elif len(idx) != len(want):
                bad = ("C11.knn.count", "mismatch:count")
            elif len(set(idx)) != len(idx):
                bad = ("C11.knn.indices", "mismatch:repeated_index")
            elif sorted(got) != want:
                bad = ("C11.knn.k_smallest", "mismatch:distances")
            elif got != want:
                bad = ("C11.knn.order", "mismatch:not_non_decreasing")
            rep.outcome("knn", "len=%s" % (len(idx) if idx is not None else "?"))
            if bad:
                _viol(rep, _sub(unit, bad[0]), "KDTree.query", bad[1], _ucls(unit, KCLS),
                      dict(tdetail, query=q, k=k, got=idx if idx is not None else repr(res),
                           got_sq_distances=[g / 4 for g in got] if got is not None else None,
                           want_sq_distances=[w / 4 for w in want]))
        for label, r4 in RADII4:
            r = math.inf if r4 is None else sc * math.sqrt(r4 / 4)
            try:
                res = tree.query_radius(qv, r)
            except Exception as e:
                _viol(rep, _sub(unit, "C11.radius.answers"), "KDTree.query_radius", "raises:" + type(e).__name__,
                      _ucls(unit, "r=" + label), dict(tdetail, query=q, r=label, msg=str(e)[:200]))
                rep.outcome("radius", "raises")
                continue
            rep.transitions += 1
            rep.evaluations += 1
            keep.add("KDTree.query_radius", (q, "r", label), res)
            want = [i for i in range(n) if r4 is None or d4[i] <= r4]
            try:
                got = sorted(int(i) for i in res)
            except Exception:
                got = None
            rep.outcome("radius", "len=%s" % (len(got) if got is not None else "?"))
            if want and len(want) < n:
                rep.flag("radius:proper_subset")
            if got != want:
                if got is None:
                    kind = "mismatch:not_an_index"
                elif set(want) - set(got):
                    kind = "mismatch:point_in_ball_missing"
                elif set(got) - set(want):
                    kind = "mismatch:point_outside_ball_returned"
                else:
                    kind = "mismatch:repeated_index"
                on_sphere = r4 is not None and r4 in d4
                _viol(rep, _sub(unit, "C11.radius.exact_ball"), "KDTree.query_radius", kind,
                      _ucls(unit, "point_on_sphere" if on_sphere else "no_point_on_sphere"),
                      dict(tdetail, query=q, r=label if not unit else "%s x %s" % (label, unit[0].split(",")[0]), radius_given=r,
                           got=got if got is not None else repr(res), want=want))
    keep.verify(rep, unit, tdetail)


def _unit_map(unit, pts2, qpoints2):
    """(scale, offsets per axis) of a unit of length; (1, zeros) without one."""
    if unit:
        return unit[2], unit[3]
    d = len(pts2[0]) if pts2 else (len(qpoints2[0]) if qpoints2 else 0)
    return 1.0, [0] * d


# ---- the answers belong to the caller: histories on the returned objects
# "the k-nearest query returns ...", "the radius query returns ...": what was returned is the answer to ITS call and stays it
# whatever is asked later, and what the caller does with an answer has no influence on later answers.
#  (a) _Keep: every object returned during the enumeration of one tree (all positions x all k x all radii, in enumeration
#      order, kNN and radius calls interleaved) is kept with a copy of its content and compared once all calls were made.
#  (b) _check_result_histories: on a call alphabet A of one tree (2 positions x k in {1, n, n+1} + radii {0, 8, inf}) every
#      ordered pair (c1, c2) of A x A is run as the history  a1 = c1(); caller's edit of a1; a2 = c2(); a3 = c1()  with the
#      edits of RESULT_EDITS (keep: a1 untouched and compared with its copy afterwards); a2 and a3 are judged by brute force.
RESULT_EDITS = ["keep", "clear", "append_foreign", "reverse_overwrite"]
RESULT_RADII = ("0", "8", "inf")


def _ints(res):
    try:
        return [int(i) for i in res]
    except Exception:
        return None


class _Keep:
    def __init__(self):
        self.items = []

    def add(self, callee, label, res):
        snap = _ints(res)
        if snap is not None:
            self.items.append((callee, label, res, snap))

    def verify(self, rep, unit, tdetail, sub="C11.results.kept_answer"):
        times = {}
        for it in self.items:
            times[id(it[2])] = times.get(id(it[2]), 0) + 1
        seen = set()
        for callee, label, res, snap in self.items:
            rep.evaluations += 1
            now = _ints(res)
            if now != snap and callee not in seen:
                seen.add(callee)
                shared = times[id(res)] > 1
                _viol(rep, _sub(unit, sub), callee, "side_effect:earlier_answer_changed_by_later_call",
                      _ucls(unit, "one_object_returned_by_several_calls" if shared else "distinct_result_objects"),
                      dict(tdetail, call=list(label), answer_when_returned=snap, same_object_after_the_later_calls=now if now is not None else repr(res),
                           later_calls="all positions x k x radii of the enumeration on this tree object, in order"))
        rep.count("results_kept", len(self.items))
        if len(self.items) > 1:
            rep.flag("results:kept_verified")


def _edit_result(res, edit, n):
    """The caller works on the answer he was given.  True when the object was really changed."""
    import numpy as np
    foreign = n + 7
    try:
        if isinstance(res, list):
            before = list(res)
            if edit == "clear":
                res.clear()
            elif edit == "append_foreign":
                res.append(foreign)
                res.insert(0, -1)
            elif edit == "reverse_overwrite":
                res.reverse()
                for i in range(len(res)):
                    res[i] = foreign + i
            return res != before
        if isinstance(res, np.ndarray) and res.size:
            res[...] = -1 if edit == "clear" else foreign
            return True
    except Exception:
        return False
    return False


def _check_result_histories(rep, tree, pts2, qpoints2, tdetail, unit=None, all_edits=False):
    import numpy as np
    from mouette.geometry import Vec
    n = len(pts2)
    if not qpoints2:
        return
    sc, off = _unit_map(unit, pts2, qpoints2)
    stored = set(pts2)
    on = next((i for i, q2 in enumerate(qpoints2) if tuple(q2) in stored), 0)
    calls = []          # (kind, callee, label, call, judge)
    for qi in sorted({on, len(qpoints2) // 2}):
        q2 = qpoints2[qi]
        q = [sc * (c / 2 + o) for c, o in zip(q2, off)]
        qv = Vec(np.array(q, dtype=float))
        d4 = [sum((a - b) ** 2 for a, b in zip(p, q2)) for p in pts2]
        sd4 = sorted(d4)
        for k in sorted({1, max(n, 1), n + 1}):
            calls.append(("knn", "KDTree.query", dict(query=q, k=k), (lambda qv=qv, k=k: tree.query(qv, k)),
                          (lambda res, d4=d4, sd4=sd4, k=k: _judge_knn(res, d4, sd4, k, n))))
        for label, r4 in RADII4:
            if label in RESULT_RADII:
                r = math.inf if r4 is None else sc * math.sqrt(r4 / 4)
                calls.append(("radius", "KDTree.query_radius", dict(query=q, r=label, radius_given=r), (lambda qv=qv, r=r: tree.query_radius(qv, r)),
                              (lambda res, d4=d4, r4=r4: _judge_radius(res, d4, r4, n))))

    def run(c):
        try:
            res = c[3]()
        except Exception as e:
            return None, ("answers", "raises:" + type(e).__name__, dict(msg=str(e)[:200]))
        return res, c[4](res)

    fails, tried = {}, set()
    rep.count("results_history_trees")
    # a call that is answered wrongly on its own is the business of the query clauses: it takes no part in the histories
    solo_bad = set()
    for i, c in enumerate(calls):
        rep.transitions += 1
        if run(c)[1]:
            solo_bad.add(i)
            rep.count("results_first_answer_wrong")
    for i, c1 in enumerate(calls):
        for j, c2 in enumerate(calls):
            if i in solo_bad or j in solo_bad:
                continue
            for edit in (RESULT_EDITS if all_edits else [RESULT_EDITS[(i + j) % len(RESULT_EDITS)]]):
                a1, bad = run(c1)
                rep.transitions += 3
                rep.evaluations += 3
                rep.traces += 1
                if bad:
                    rep.count("results_first_answer_wrong")        # reported by the query clauses
                    continue
                snap = _ints(a1)
                applied = edit != "keep" and _edit_result(a1, edit, n)
                if edit != "keep":
                    rep.count("results_edit:%s:%s" % (edit, "applied" if applied else "nothing_to_change"))
                tried.add((c1[0], edit))
                rep.flag("results:pair:%s>%s" % (c1[0], c2[0]))
                a2, bad2 = run(c2)
                a3, bad3 = run(c1)
                hist = dict(tdetail, first_call=c1[2], first_answer=snap, caller_then=edit, second_call=c2[2], third_call=c1[2])
                for which, c, a, b in (("second", c2, a2, bad2), ("third", c1, a3, bad3)):
                    if not b:
                        continue
                    if edit == "keep":
                        key = ("C11.results.later_call", c[1], b[1])
                    else:
                        key = ("C11.results.callers_edit", c[1], "side_effect:edit_of_a_returned_answer_changes_a_later_answer"
                               if b[1].startswith("mismatch") else b[1])
                    f = fails.setdefault(key, dict(combos=set(), detail=dict(hist, wrong_call=which, wrong_as=b[1], **b[2])))
                    f["combos"].add((c1[0], edit))
                if edit == "keep" and _ints(a1) != snap:
                    shared = a2 is a1 or a3 is a1
                    key = ("C11.results.kept_answer", c1[1], "side_effect:earlier_answer_changed_by_later_call",
                           "one_object_returned_by_several_calls" if shared else "distinct_result_objects")
                    fails.setdefault(key, dict(combos=set(), detail=dict(hist, same_object_after_the_later_calls=_ints(a1))))
    for key in sorted(fails):
        f = fails[key]
        if len(key) == 4:
            cls = key[3]
        else:
            firsts = sorted({c[0] for c in f["combos"]})
            edits = sorted({c[1] for c in f["combos"]})
            t_firsts = sorted({c[0] for c in tried})
            t_edits = sorted({c[1] for c in tried if (c[1] == "keep") == (key[0] == "C11.results.later_call")})
            cls = "after=%s" % ("any_query" if firsts == t_firsts else "+".join(firsts))
            if key[0] == "C11.results.callers_edit":
                cls += ";edit=%s" % ("any" if edits == t_edits else "+".join(edits))
        _viol(rep, _sub(unit, key[0]), key[1], key[2], _ucls(unit, cls), f["detail"])


# ---- unit of length / origin deviation ("all finite point arrays": the answers are those of the same configuration
# measured in another unit from another origin).  name -> (log2 of the scale, offset): the library is given
# 2^e * (x + offset) for every lattice coordinate x (exact in binary floating point), positions and radii alike.
UNITS = {
    "2^-5,+1": (-5, 1),       # every lattice coordinate strictly inside (0, 1)
    "2^10,-21": (10, -21),    # every coordinate negative, thousands
    "2^-30,-3": (-30, -3),    # both signs, around 1e-9 (an absolute tolerance would show)
    "2^10,+1": (10, 1),       # every coordinate >= 1024
    # geometry far from the origin: the translation is >= 2^25 times the extent of the point set, so |p|^2, p.q and every
    # other quantity that is not a function of coordinate DIFFERENCES loses the digits in which the points differ, while
    # the coordinates, their differences, the squares of the differences and the pivots (means of two coordinates) stay
    # exact doubles (checked on rationals for every array handed over).  An offset list is per axis (cycled).
    "2^0,+2^30": (0, 2 ** 30),                        # integers around 1.07e9, spacing 1
    "2^-20,-2^44": (-20, -2 ** 44),                   # around -1.7e7, spacing 1e-6 (map coordinates in metres, micrometres apart)
    "2^-8,(+2^36,-2^36,0)": (-8, [2 ** 36, -2 ** 36, 0]),   # translated along some axes only, in opposite directions
}
FAR_UNITS = ["2^0,+2^30", "2^-20,-2^44", "2^-8,(+2^36,-2^36,0)"]
NEAR_UNITS = [u for u in UNITS if u not in FAR_UNITS]
UNITS_OF_TIER = {"quick": ["2^-5,+1", "2^10,-21", "2^-30,-3"] + FAR_UNITS, "thorough": list(UNITS)}
FAR_RATIO = 2 ** 20


def _unit(name, lat, d):
    """(name, coarse class computed from the image of the lattice, scale, offsets per axis)."""
    e, o = UNITS[name]
    offs = [o[a % len(o)] for a in range(d)] if isinstance(o, list) else [o] * d
    imgs = [[(x + oa) * 2.0 ** e for x in lat] for oa in offs]
    # one step outside the lattice belongs to the query alphabet: extent of what the library sees on one axis
    far = [min(abs(v) for v in im) >= FAR_RATIO * (max(im) - min(im) + 2 * 2.0 ** e) for im in imgs]
    img = [v for im in imgs for v in im]
    if all(far):
        where = "lattice_far_from_origin"
    elif any(far):
        where = "lattice_far_from_origin_on_some_axes"
    elif all(0 < v < 1 for v in img):
        where = "lattice_inside_(0,1)"
    elif all(v < 0 for v in img):
        where = "lattice<0"
    elif all(v >= 1 for v in img):
        where = "lattice>=1"
    elif any(v < 0 for v in img) and any(v > 0 for v in img):
        where = "lattice_both_signs"
    else:
        where = "lattice>=0"
    return (name, "unit=2^%d;%s" % (e, where), 2.0 ** e, offs)


def _sub(unit, name):
    return name if not unit else "C11.unit." + name[len("C11."):]


def _ucls(unit, cls):
    return cls if not unit else cls + ";" + unit[1]


# kNN findings are classified by subcheck and kind only: one pruning defect shows alike for k<n, k==n and k>n
KCLS = "k=1..n+1"
VIOL_KEEP = 2


def _viol(rep, subcheck, callee, kind, icls, detail):
    """Record a violation; per task only the first VIOL_KEEP occurrences of a fingerprint keep their detail
    (the same defect fires on thousands of inputs), the rest are counted."""
    name = "occurrences:" + " | ".join((subcheck, callee, kind, icls))
    rep.count(name)
    if rep.counters[name] <= VIOL_KEEP:
        rep.violation(subcheck, callee, kind, icls, detail)


def _run_pointset(rep, pts, d, task, qpoints2, unit=None):
    """All builds of one point array (one row order), then the queries on its distinct trees.
    `unit` (see _unit): the constructor gets scale*(x+offset) instead of the lattice values x."""
    import numpy as np
    n = len(pts)
    dtype = float if task["dtype"] == "float" else np.int64
    arr = np.array(pts, dtype=dtype).reshape(n, d)
    if unit:
        arr = (np.array(pts, dtype=float).reshape(n, d) + np.array(unit[3], dtype=float)) * unit[2]
        exact = [[Fraction(c + o) * Fraction(unit[2]) for c, o in zip(p, unit[3])] for p in pts]
        if [[Fraction(v) for v in row] for row in arr.tolist()] != exact or not np.isfinite(arr).all():
            raise SeamError("unit of length: the scaled lattice is not exact")
        # ... and so are the sums of two coordinates (median pivots) and the half-step query positions
        if any(Fraction(float(a) + float(b)) != Fraction(float(a)) + Fraction(float(b)) for col in arr.T.tolist() for a in col for b in col):
            raise SeamError("unit of length: sums of two coordinates are not exact")
    pts2 = [tuple(2 * c for c in p) for p in pts]
    mult = _max_multiplicity(pts)
    trees = {}
    for leaf in task["leafs"]:
        dupcls = "identical_points>leaf_size" if mult > leaf else "identical_points<=leaf_size"
        if mult > leaf:
            rep.flag("input:duplicates_beyond_leaf_size")
        for strat in task["strategies"]:
            ex = _explore(arr, leaf, strat, symdev=True)
            rep.traces += ex["paths"]
            rep.transitions += ex["splits"]
            rep.states += len(ex["trans"])
            rep.count("constructor_runs", ex["paths"])
            rep.count("splits_observed", ex["splits"])
            rep.count("np_proxy_accesses", ex["ticks"])
            rep.count("seam_calls:" + strat, ex["seam_calls"])
            for st, c in ex["statuses"].items():
                rep.outcome("build", st)
                rep.count("build_" + st, c)
            for w in ex["widths"]:
                rep.outcome("pivot_answers:" + strat, w)
            if ex["capped"]:
                rep.flag("capped"); rep.count("capped_explorations")
            base = dict(points=[list(p) for p in pts], dtype=task["dtype"], max_leaf_size=leaf, strategy=strat)
            icls = _ucls(unit, _pivot_class(strat) + ";" + dupcls)
            if unit:
                base.update(unit=unit[0], points_given="%r * (points + %r)" % (unit[2], unit[3]), points_given_values=arr.tolist())
                if strat == "random" and ex["splits"]:
                    rep.flag("unit:random_split:" + unit[0])
            # ---- clause: building finishes
            rep.evaluations += 1
            bad = _non_terminating_states(ex["trans"], leaf, d)
            if bad:
                key, ax = bad[0]
                _viol(rep, _sub(unit, "C11.build.terminates"), "KDTree.__init__", "hang", icls,
                              dict(base, stuck_leaf_indices=list(key), stuck_leaf_points=[list(pts[i]) for i in key],
                                   axis=ax, why="no sequence of pivot answers separates this pending leaf: the real "
                                                "constructor re-splits the same index set on the same axis (state repeated)",
                                   constructor_runs=ex["paths"], completed=ex["statuses"].get("ok", 0)))
            for val, path in ex["caps"][:1]:
                _viol(rep, _sub(unit, "C11.build.terminates"), "KDTree.__init__", "hang", icls + ";cap",
                              dict(base, why=val, pivot_script=list(path)))
            for val, path in ex["raises"][:1]:
                _viol(rep, _sub(unit, "C11.build.finishes"), "KDTree.__init__", "raises:" + val[0],
                              _ucls(unit, _pivot_class(strat)), dict(base, msg=val[1], pivot_script=list(path)))
            # ---- distinct trees
            for tree, path in ex["trees"]:
                k = _tree_key(tree)
                if k not in trees:
                    trees[k] = (tree, dict(base, seam_answer_indices=path[0], split_values_in_call_order=path[1]), icls)
    # ---- clause: leaves partition the input; queries exact
    for k in sorted(trees, key=repr):
        tree, tdetail, icls = trees[k]
        leaves, ninternal = _tree_shape(tree)
        _check_partition(rep, tree, n, icls, tdetail, unit)
        if ninternal:
            rep.case((tuple(pts), task["dtype"], k))
            rep.flag("tree:internal_node")
            if unit:
                rep.flag("unit:internal_node:" + unit[0])
                if qpoints2 is not None:
                    rep.flag("unit:queried:" + unit[0])
                    rep.flag("unit_class_queried:" + unit[1].split(";")[1])
        if ninternal >= 3:
            rep.flag("tree:three_internal_nodes")
        if any(lf.points.size == 0 for lf in leaves):
            rep.flag("tree:empty_leaf")
        if any(lf.points.size > 1 for lf in leaves) and ninternal:
            rep.flag("tree:multi_point_leaf")
        if qpoints2 is not None:
            _check_queries(rep, tree, pts2, qpoints2, tdetail, unit=unit)
    # ---- histories on the returned objects: the first trees with an internal node (in key order; any tree when there is none)
    if qpoints2 is not None and trees:
        hist_trees, hist_all = task.get("hist") or (1, False)
        order = sorted(trees, key=repr)
        order = [k for k in order if _tree_shape(trees[k][0])[1]] or order
        for k in order[:hist_trees]:
            _check_result_histories(rep, trees[k][0], pts2, qpoints2, trees[k][1], unit=unit, all_edits=hist_all)
    rep.count("distinct_trees", len(trees))
    return len(trees)


def _run_family(task, rep):
    d, lat, n = task["d"], task["lat"], task["n"]
    lattice_pts = list(itertools.product(lat, repeat=d))
    gen = itertools.combinations_with_replacement(range(len(lattice_pts)), n)
    if task["q"] == "full":
        qa = task.get("qalpha") or _qalphabet(lat)
        qpoints2 = list(itertools.product(qa, repeat=d))
    else:
        qpoints2 = None
    units = task.get("units")
    for off, combo in enumerate(itertools.islice(gen, task["start"], task["stop"])):
        pts = [lattice_pts[i] for i in combo]
        rep.count(f"multisets:{task['fam']}:n={n}")
        if units:     # quick: one unit per point set, rotating with the index of the set; thorough: every unit
            groups = [[u for u in units if u not in FAR_UNITS], [u for u in units if u in FAR_UNITS]]
            mine = units if task["all_units"] else [g[(task["start"] + off) % len(g)] for g in groups if g]
        else:
            mine = [None]
        for order in task["orders"]:
            p = pts if order == "sorted" else pts[::-1]
            if order != "sorted" and p == pts:
                continue
            for u in mine:
                _run_pointset(rep, p, d, task, qpoints2, _unit(u, lat, d) if u else None)
                if u:
                    rep.count("unit_pointsets:" + u)
        if n >= 2 and len(rep.samples) < 2 and task["start"] % 7 == 0:
            rep.sample(dict(points=[list(p) for p in pts], family=task["fam"]))


# ------------------------------------------------------------------------------------------------
def _points51(which):
    if which == "line51":
        return [(i,) for i in range(51)]
    if which == "grid51":
        return [(i % 7, i // 7) for i in range(51)]
    if which == "cluster51":      # three clusters, geometric spacing, every point distinct
        out = []
        for i in range(51):
            c = i % 3
            j = i // 3
            out.append(([0, 40, 400][c] + (j % 5) * [1, 2, 8][c], [0, 400, 40][c] + (j // 5) * [1, 2, 8][c]))
        return out
    raise ValueError(which)


def _run_fast51(task, rep):
    import numpy as np
    pts = _points51(task["which"])
    n, d = len(pts), len(pts[0])
    assert n == 51 and len(set(pts)) == 51
    leaf = task["leaf"]
    arr = np.array(pts, dtype=float).reshape(n, d)
    ex = _explore(arr, leaf, "fast", symdev=task["symdev"])
    rep.traces += ex["paths"]
    rep.transitions += ex["splits"]
    rep.states += len(ex["trans"])
    rep.count("constructor_runs", ex["paths"])
    rep.count("splits_observed", ex["splits"])
    rep.count("np_proxy_accesses", ex["ticks"])
    rep.count("seam_calls:fast51", ex["seam_calls"])
    for st, c in ex["statuses"].items():
        rep.outcome("build", st)
        rep.count("build_" + st, c)
    if 51 in ex["widths"]:
        rep.flag("fast51:51_root_samples")
    if ex["capped"]:
        rep.flag("capped"); rep.count("capped_explorations")
    base = dict(points="mc/props c11._points51(%r)" % task["which"], max_leaf_size=leaf, strategy="fast")
    icls = "pivot=median_of_50_sample;identical_points<=leaf_size"
    rep.evaluations += 1
    bad = _non_terminating_states(ex["trans"], leaf, d)
    if bad:
        key, ax = bad[0]
        _viol(rep, "C11.build.terminates", "KDTree.__init__", "hang", icls,
                      dict(base, stuck_leaf_indices=list(key), stuck_leaf_points=[list(pts[i]) for i in key], axis=ax))
    for val, path in ex["caps"][:1]:
        _viol(rep, "C11.build.terminates", "KDTree.__init__", "hang", icls + ";cap", dict(base, why=val, pivot_script=list(path)))
    for val, path in ex["raises"][:1]:
        _viol(rep, "C11.build.finishes", "KDTree.__init__", "raises:" + val[0], icls, dict(base, msg=val[1], pivot_script=list(path)))
    trees = {}
    for tree, path in ex["trees"]:
        k = _tree_key(tree)
        if k not in trees:
            trees[k] = (tree, dict(base, seam_answer_indices=path[0], split_values_in_call_order=path[1]))
    rep.count("distinct_trees", len(trees))
    rep.count("distinct_trees:fast51", len(trees))
    # ---- strategy omitted where the documented default 'fast' differs from 'balanced': above 50 points
    if task.get("omit") and not (bad or ex["caps"] or ex["raises"]):
        ref_keys = set(trees)
        bal = _explore(arr, leaf, "balanced")
        _account(rep, bal)
        if {_tree_key(t) for t, _ in bal["trees"]} != ref_keys:
            rep.flag("defaults:strategy_matters")
        fails = {}
        for form, lf, label, param in (("omit:strategy", leaf, "KDTree(points, max_leaf_size=%d)" % leaf, "strategy"),
                                       ("omit:strategy:positional", leaf, "KDTree(points, %d)" % leaf, "strategy"),
                                       ("omit:max_leaf_size+strategy", DEFAULT_LEAF, "KDTree(points)", "max_leaf_size+strategy")):
            if lf == leaf:
                want = ref_keys
            else:
                r2 = _explore(arr, lf, DEFAULT_STRATEGY, symdev=task["symdev"])
                _account(rep, r2)
                usable, want = _build_summary(r2, lf, d)
                if not usable:
                    continue
            ex2 = _explore(arr, lf, DEFAULT_STRATEGY, symdev=task["symdev"], call=_ctor_call(form, arr, lf, None),
                           path_cap=4 * ex["paths"] + 100)
            _account(rep, ex2)
            for name in param.split("+"):
                rep.count("defaults_exercised:KDTree.__init__." + name)
            rep.count("defaults_exercised_above_50_points")
            b = _compare_builds(rep, want, ex2, lf, d)
            if b:
                kind = "mismatch:default_value" if b[0].startswith("mismatch") else b[0]
                fails.setdefault((kind, param), dict(base, call=label, documented_defaults=dict(max_leaf_size=DEFAULT_LEAF, strategy=DEFAULT_STRATEGY), **b[1]))
        for (kind, param) in sorted(fails):
            _viol(rep, "C11.defaults.omitted", "KDTree.__init__", kind, param, fails[(kind, param)])
    # queries: every 4th input point, its half-step neighbour, two outside points; k in {1,2,3,10,50,51,52}
    pts2 = [tuple(2 * c for c in p) for p in pts]
    lo = [min(p[a] for p in pts2) for a in range(d)]
    hi = [max(p[a] for p in pts2) for a in range(d)]
    qs = [pts2[i] for i in range(0, n, 4)] + [tuple(c + 1 for c in pts2[i]) for i in range(2, n, 8)]
    qs += [tuple(c - 2 for c in lo), tuple(c + 2 for c in hi)]
    for k in sorted(trees, key=repr):
        tree, tdetail = trees[k]
        _check_partition(rep, tree, n, icls, tdetail)
        rep.case((task["which"], k))
        _check_queries(rep, tree, pts2, qs, tdetail, ks=(1, 2, 3, 10, 50, 51, 52))
    for k in sorted(trees, key=repr)[:1]:
        _check_result_histories(rep, trees[k][0], pts2, qs, trees[k][1], all_edits=True)


# ------------------------------------------------------------------------------------------------
# argument forms of the build and of the queries; ownership of the points (a history on the caller's container)
#
# "all finite point arrays (N,d)", "all query points": the answers are a function of the VALUES given at build
# time and of the VALUE of the query position - not of the container / element type / memory layout they come
# in, and not of what the caller does with his container afterwards.  Every point set of the form families is
# handed to the real constructor in every form of BFORMS (all leaf sizes x strategies x pivot answers, distinct
# trees kept), queried (phase "fresh"), then the caller edits his container IN PLACE and the same queries are
# asked again (phase "after:<edit>"): the expectation is the same brute-force table both times.
BFORMS = {
    "quick": ["array:f8:C", "array:i8:C", "list:tuple:int", "array:f4:C", "array:f8:F", "array:f8:strided",
              "array:f8:readonly", "list:tuple:float", "list:list:float", "list:Vec:float"],
    "thorough": ["array:f8:C", "array:i8:C", "list:tuple:int", "array:f4:C", "array:f8:F", "array:f8:strided",
                 "array:f8:readonly", "list:tuple:float", "list:list:float", "list:Vec:float", "array:i4:C", "array:i8:F",
                 "array:i8:strided", "list:list:int", "tuple:tuple:int", "tuple:tuple:float"],
}
CORE_BFORMS = ["array:f8:C", "array:i8:C", "list:tuple:int"]     # crossed with every query form
QFORMS_FLOAT = ["Vec:f8", "array:f8", "list:float", "tuple:float"]
QFORMS_INT = ["Vec:i8", "array:i8", "list:int", "tuple:int"]                   # only for positions without fractional part
EDITS = ["recentre", "overwrite", "sort"]


def _form_families(tier):
    if tier == "quick":
        return [
            _fam("forms-1d-L3", 1, L3, 1, 3, batch=4),
            _fam("forms-2d-L3", 2, L3, 1, 2, batch=2, qalpha=[-1, 0, 9, 16]),
        ]
    return [
        _fam("forms-1d-L5", 1, L5, 4, 4, batch=2, strategies=BF),
        _fam("forms-2d-L3", 2, L3, 3, 3, batch=2, qalpha=[-1, 0, 9, 16], strategies=BF),
        _fam("forms-1d-L5", 1, L5, 1, 3, batch=2),
        _fam("forms-2d-L3", 2, L3, 1, 2, batch=1, qalpha=[-1, 0, 2, 9, 16]),
        _fam("forms-3d-L2", 3, L2, 1, 2, batch=1, qalpha=[-1, 7, 16]),
    ]


def _edited(pts, edit):
    """Coordinates the caller writes into his container (exact small integers again)."""
    if edit == "recentre":          # P -= 3 ; P *= -3
        return [tuple(-3 * (c - 3) for c in p) for p in pts]
    if edit == "overwrite":         # P[::2] = 5
        return [tuple(5 for _ in p) if i % 2 == 0 else tuple(p) for i, p in enumerate(pts)]
    if edit == "sort":              # P[::-1].sort(axis=0): every column sorted on its own, descending
        cols = [sorted((p[a] for p in pts), reverse=True) for a in range(len(pts[0]))] if pts else []
        return [tuple(col[i] for col in cols) for i in range(len(pts))]
    raise ValueError(edit)


class _Held:
    """The caller's container of points in one argument form: build it, fingerprint it, edit it in place."""

    def __init__(self, form, pts, d):
        import numpy as np
        from mouette.geometry import Vec
        self.form, self.d, self.n = form, d, len(pts)
        kind, a, b = form.split(":")
        self.base = None
        if kind == "array":
            dt = {"f8": np.float64, "f4": np.float32, "i8": np.int64, "i4": np.int32}[a]
            arr = np.array(pts, dtype=dt).reshape(self.n, d)
            if b == "F":
                arr = np.asfortranarray(arr)
            elif b == "strided":        # every second row / column of a larger array
                self.base = np.full((2 * self.n + 1, 2 * d + 1), 77, dtype=dt)
                view = self.base[1::2, 1::2]
                view[...] = arr
                arr = view
            elif b == "readonly":       # a read-only view of an array somebody else may still write to
                self.base = arr
                arr = arr.view()
                arr.flags.writeable = False
            elif b != "C":
                raise ValueError(form)
            self.obj = arr
            self.elem = "int" if np.issubdtype(dt, np.integer) else "float"
            self.coarse = "ndarray:" + self.elem
            self.editable = True
        else:
            cast = int if b == "int" else float
            self.elem = "int" if b == "int" else "float"
            if a == "Vec":
                rows = [Vec(np.array([float(c) for c in p])) for p in pts]
            elif a == "list":
                rows = [[cast(c) for c in p] for p in pts]
            else:
                rows = [tuple(cast(c) for c in p) for p in pts]
            self.obj = rows if kind == "list" else tuple(rows)
            self.coarse = kind + ":" + self.elem
            self.editable = kind == "list"
            self.cast = cast
        self.rows_kind = a

    def snapshot(self):
        import numpy as np
        o = self.obj
        if isinstance(o, np.ndarray):
            return (o.tobytes(), str(o.dtype), o.shape, o.strides, o.flags.writeable,
                    None if self.base is None else (self.base.tobytes(), str(self.base.dtype), self.base.shape))
        return (type(o).__name__, [(type(r).__name__, [(type(c).__name__, float(c)) for c in r]) for r in o])

    def write(self, new):
        """In-place edit by the caller (never rebinding the container)."""
        import numpy as np
        o = self.obj
        if isinstance(o, np.ndarray):
            target = self.base if (self.base is not None and not o.flags.writeable) else o
            if self.n:
                target[...] = np.array(new, dtype=o.dtype).reshape(self.n, self.d)
        elif self.rows_kind == "tuple":
            o[:] = [tuple(self.cast(c) for c in p) for p in new]
        else:
            for i, p in enumerate(new):
                for j, c in enumerate(p):
                    o[i][j] = c if self.rows_kind == "Vec" else self.cast(c)


def _make_query(qform, q2):
    import numpy as np
    from mouette.geometry import Vec
    kind, el = qform.split(":")
    if el in ("i8", "int"):
        vals = [c // 2 for c in q2]
        dt = np.int64
    else:
        vals = [c / 2 for c in q2]
        dt = np.float64
    if kind == "Vec":
        return Vec(np.array(vals, dtype=dt))
    if kind == "array":
        return np.array(vals, dtype=dt)
    return list(vals) if kind == "list" else tuple(vals)


def _query_snapshot(q):
    import numpy as np
    if isinstance(q, np.ndarray):
        return (type(q).__name__, q.tobytes(), str(q.dtype), q.shape)
    return (type(q).__name__, [(type(c).__name__, c) for c in q])


def _judge_knn(res, d4, sd4, k, n):
    """None when `res` is a right answer of query(., k), else (clause, kind, info)."""
    want = sd4[:k]
    try:
        idx = [int(i) for i in res]
    except Exception:
        return ("indices", "mismatch:not_an_index", dict(got=repr(res)))
    if not all(isinstance(i, int) and 0 <= i < n for i in idx):
        return ("indices", "mismatch:not_an_index", dict(got=idx))
    got = [d4[i] for i in idx]
    info = dict(got=idx, got_sq_distances=[g / 4 for g in got], want_sq_distances=[w / 4 for w in want])
    if len(idx) != len(want):
        return ("count", "mismatch:count", info)
    if len(set(idx)) != len(idx):
        return ("indices", "mismatch:repeated_index", info)
    if sorted(got) != want:
        return ("k_smallest", "mismatch:distances", info)
    if got != want:
        return ("order", "mismatch:not_non_decreasing", info)
    return None


def _judge_radius(res, d4, r4, n):
    want = [i for i in range(n) if r4 is None or d4[i] <= r4]
    try:
        got = sorted(int(i) for i in res)
    except Exception:
        return ("exact_ball", "mismatch:not_an_index", dict(got=repr(res), want=want))
    if got == want:
        return None
    if set(want) - set(got):
        kind = "mismatch:point_in_ball_missing"
    elif set(got) - set(want):
        kind = "mismatch:point_outside_ball_returned"
    else:
        kind = "mismatch:repeated_index"
    return ("exact_ball", kind, dict(got=got, want=want))


def _ask_all(rep, tree, n, table, qforms_of, tag):
    """Every query of the table in every listed query form.  Returns the failures as
    (callee, kind, qi, label, qform, info) and the list of (qi, qform) whose argument was modified by a call."""
    fails, touched = [], []
    keep = _Keep()
    for qi, (q2, d4, sd4, integral) in enumerate(table):
        for qform in qforms_of(integral):
            qobj = _make_query(qform, q2)
            before = _query_snapshot(qobj)
            rep.count("forms_queries:" + qform)
            if not integral:
                rep.count("forms_fractional_queries:" + tag)
            for k in range(1, n + 2):
                rep.transitions += 1
                rep.evaluations += 1
                try:
                    res = tree.query(qobj, k)
                except Exception as e:
                    fails.append(("KDTree.query", "raises:" + type(e).__name__, qi, "k=%d" % k, qform, dict(msg=str(e)[:200])))
                    continue
                keep.add("KDTree.query", ([c / 2 for c in q2], qform, "k", k), res)
                bad = _judge_knn(res, d4, sd4, k, n)
                if bad:
                    fails.append(("KDTree.query", bad[1], qi, "k=%d" % k, qform, bad[2]))
            for label, r4 in RADII4:
                r = math.inf if r4 is None else math.sqrt(r4 / 4)
                rep.transitions += 1
                rep.evaluations += 1
                try:
                    res = tree.query_radius(qobj, r)
                except Exception as e:
                    fails.append(("KDTree.query_radius", "raises:" + type(e).__name__, qi, "r=" + label, qform, dict(msg=str(e)[:200])))
                    continue
                keep.add("KDTree.query_radius", ([c / 2 for c in q2], qform, "r", label), res)
                bad = _judge_radius(res, d4, r4, n)
                if bad:
                    fails.append(("KDTree.query_radius", bad[1], qi, "r=" + label, qform, bad[2]))
            if _query_snapshot(qobj) != before:
                touched.append((qi, qform))
    keep.verify(rep, None, dict(points=tree.points.tolist(), points_dtype=str(tree.points.dtype), phase=tag), sub="C11.forms.kept_answer")
    return fails, touched


# ---- forms of the scalar arguments: k and r are numbers, whatever type carries them.  Every k of 1..n+1 as numpy
# integer of several widths, every radius of RADII4 in every listed carrier that holds its value EXACTLY (the integer 0,
# 1, 8; float32 for 0, 1/2, 1, 8, inf; ...), so the brute-force table of the float call stays the expectation.
KFORMS = ["np.int64", "np.int32", "np.uint8", "np.intp"]           # besides the Python int of every other family
RFORMS = ["int", "np.float64", "np.float32", "np.int64", "np.int32"]              # besides the Python float


def _scalar(form, value):
    """`value` carried by `form`, or None when the carrier cannot hold it exactly."""
    import numpy as np
    if form == "int":
        return int(value) if (value != math.inf and float(value).is_integer()) else None
    ty = getattr(np, form.split(".")[1])
    if np.issubdtype(ty, np.integer) and (value == math.inf or not float(value).is_integer()):
        return None
    with np.errstate(all="ignore"):
        out = ty(value)
    return out if float(out) == float(value) else None


def _ask_scalar_forms(rep, tree, n, table, tdetail):
    """Reference position form Vec(float64); the scalars k and r in the forms of KFORMS / RFORMS."""
    fails, tried = {}, {"k": set(), "r": set()}
    for qi, (q2, d4, sd4, integral) in enumerate(table):
        qobj = _make_query("Vec:f8", q2)
        for k in range(1, n + 2):
            for kf in KFORMS:
                kk = _scalar(kf, k)
                if kk is None:
                    continue
                tried["k"].add(kf)
                rep.count("forms_scalar:k:" + kf)
                rep.transitions += 1
                rep.evaluations += 1
                try:
                    bad = _judge_knn(tree.query(qobj, kk), d4, sd4, k, n)
                except Exception as e:
                    bad = ("answers", "raises:" + type(e).__name__, dict(msg=str(e)[:200]))
                if bad:
                    f = fails.setdefault(("KDTree.query", bad[1], "k"), dict(forms=set(), detail=dict(
                        tdetail, query=[c / 2 for c in q2], k=k, k_given_as=kf, **bad[2])))
                    f["forms"].add(kf)
        for label, r4 in RADII4:
            r = math.inf if r4 is None else math.sqrt(r4 / 4)
            for rf in RFORMS:
                rr = _scalar(rf, r)
                if rr is None:
                    continue
                tried["r"].add(rf)
                rep.count("forms_scalar:r:" + rf)
                if r == 0:
                    rep.count("forms_scalar:r_zero:" + rf)
                rep.transitions += 1
                rep.evaluations += 1
                try:
                    bad = _judge_radius(tree.query_radius(qobj, rr), d4, r4, n)
                except Exception as e:
                    bad = ("answers", "raises:" + type(e).__name__, dict(msg=str(e)[:200]))
                if bad:
                    f = fails.setdefault(("KDTree.query_radius", bad[1], "r"), dict(forms=set(), detail=dict(
                        tdetail, query=[c / 2 for c in q2], r=label, r_given_as=rf, r_given=repr(rr), **bad[2])))
                    f["forms"].add(rf)
    for (callee, kind, arg) in sorted(fails):
        f = fails[(callee, kind, arg)]
        _viol(rep, "C11.forms.scalar", callee, kind, "%s=%s" % (arg, _names_class(f["forms"], tried[arg], "any_form_tried")),
              dict(f["detail"], forms_wrong=sorted(f["forms"]), forms_tried=sorted(tried[arg])))


def _form_attrs(form):
    """Attribute vector of an argument form: (container, element type, exact form)."""
    kind, a, b = form.split(":")
    if kind == "array":
        return ("ndarray", "int-typed" if a[0] == "i" else "float-typed", form)
    return (kind, "int-typed" if b == "int" else "float-typed", form)


def _set_class(failing, tried):
    """Coarse, computed class of the set of argument forms on which one wrong behaviour showed, relative to the forms
    on which the same question was asked: everything / one attribute value / a pair of attribute values / the list."""
    failing, tried = sorted(set(failing)), sorted(set(tried))
    if failing == tried:
        return "any_form_tried"
    at = {f: _form_attrs(f) for f in tried}
    for pos in (0, 1):
        for v in sorted({at[f][pos] for f in failing}):
            if [f for f in tried if at[f][pos] == v] == failing:
                return v
    for v0 in sorted({at[f][0] for f in failing}):
        for v1 in sorted({at[f][1] for f in failing}):
            if [f for f in tried if at[f][:2] == (v0, v1)] == failing:
                return v0 + ":" + v1
    return "+".join(sorted({at[f][0] for f in failing})) + ":some_forms"


def _run_forms_pointset(rep, pts, d, task, table, set_index):
    n = len(pts)
    all_edits = task["all_edits"]
    asked_forms = []          # build forms whose trees were asked in phase "fresh"
    fresh_fail = {}           # (callee, kind, qi, label) -> {build form: (failing query forms, tried query forms, tree detail, info)}
    edited_forms = {}         # edit -> build forms whose container was effectively edited and asked again
    own_fail = {}             # edit -> {build form: detail}
    build_fail = {}           # (subcheck, kind) -> {build form: detail}
    for fi, form in enumerate(task["bforms"]):
        plans = EDITS if all_edits else [EDITS[(set_index + fi) % len(EDITS)]]
        for pi, edit in enumerate(plans):
            held = _Held(form, pts, d)
            snap0 = held.snapshot()
            pcls = "points=" + _form_attrs(form)[0]
            base = dict(points=[list(p) for p in pts], points_given_as=form)
            # ---- every build of this container
            trees = {}
            for leaf in task["leafs"]:
                for strat in task["strategies"]:
                    ex = _explore(held.obj, leaf, strat, symdev=True, shape=(n, d))
                    rep.traces += ex["paths"]
                    rep.transitions += ex["splits"]
                    rep.count("constructor_runs", ex["paths"])
                    rep.count("forms_constructor_runs", ex["paths"])
                    if ex["capped"]:
                        rep.flag("capped"); rep.count("capped_explorations")
                    b2 = dict(base, max_leaf_size=leaf, strategy=strat)
                    rep.evaluations += 1
                    bad = _non_terminating_states(ex["trans"], leaf, d)
                    if bad or ex["caps"]:
                        build_fail.setdefault(("C11.forms.build", "hang"), {}).setdefault(
                            form, dict(b2, stuck=[list(bad[0][0]), bad[0][1]] if bad else ex["caps"][0][0]))
                    for val, path in ex["raises"][:1]:
                        build_fail.setdefault(("C11.forms.build", "raises:" + val[0]), {}).setdefault(
                            form, dict(b2, msg=val[1], pivot_script=list(path)))
                    for tree, path in ex["trees"]:
                        k = _tree_key(tree)
                        if k not in trees:
                            trees[k] = (tree, dict(b2, seam_answer_indices=path[0], split_values_in_call_order=path[1]))
            rep.evaluations += 1
            if held.snapshot() != snap0:
                _viol(rep, "C11.forms.input_untouched", "KDTree.__init__", "side_effect:points_argument_modified", pcls,
                      dict(base, now=repr(held.obj)))
                held = None
            # trees without internal node are asked only when the container has no other tree
            nontrivial = [k for k in trees if _tree_shape(trees[k][0])[1]]
            order = sorted(nontrivial or trees, key=repr)
            fresh_ok = {}
            # ---- phase "fresh" (only once per container form when several edits are planned)
            for ti, k in enumerate(order):
                tree, tdetail = trees[k]
                leaves, ninternal = _tree_shape(tree)
                if ninternal:
                    rep.case(("forms", form, tuple(pts), k))
                    rep.flag("forms:internal_node:" + form)
                if pi > 0:
                    continue
                pk = _partition_defect(rep, tree, n)
                if pk:
                    build_fail.setdefault(("C11.forms.partition", pk[0]), {}).setdefault(form, dict(tdetail, leaf_contents=pk[1]))
                # every query form on the first tree of the core build forms, the reference form elsewhere
                if form in CORE_BFORMS and ti == 0:
                    qforms_of = lambda integral: (QFORMS_FLOAT + QFORMS_INT) if integral else QFORMS_FLOAT
                else:
                    qforms_of = lambda integral: QFORMS_FLOAT[:1]
                fails, touched = _ask_all(rep, tree, n, table, qforms_of, held_elem(form) + "_points")
                fresh_ok[k] = not fails
                if form in CORE_BFORMS and ti == 0 and not fails:
                    _ask_scalar_forms(rep, tree, n, table, dict(tdetail, points_given_as=form))
                groups = {}
                for callee, kind, qi, label, qform, info in fails:
                    groups.setdefault((callee, kind, qi, label), []).append((qform, info))
                for key, lst in groups.items():
                    if form not in fresh_fail.setdefault(key, {}):
                        fresh_fail[key][form] = (sorted({qf for qf, _ in lst}), list(qforms_of(table[key[2]][3])), tdetail, lst[0][1])
                for qi, qform in touched[:1]:
                    _viol(rep, "C11.forms.input_untouched", "KDTree.query", "side_effect:query_argument_modified",
                          "query=" + qform.split(":")[0], dict(tdetail, query=[c / 2 for c in table[qi][0]], query_given_as=qform))
            if pi == 0 and order:
                asked_forms.append(form)
            if held is None:
                continue
            if pi == 0 and held.snapshot() != snap0:
                _viol(rep, "C11.forms.input_untouched", "KDTree.query", "side_effect:points_argument_modified", pcls,
                      dict(base, now=repr(held.obj)))
                continue
            # ---- the caller goes on working with HIS container, then asks again
            if not held.editable or not order:
                continue
            new = _edited(pts, edit)
            held.write(new)
            if [tuple(p) for p in new] != [tuple(p) for p in pts]:
                rep.flag("forms:edit_effective:%s:%s" % (edit, form))
            edited_forms.setdefault(edit, []).append(form)
            for k in order:
                tree, tdetail = trees[k]
                fails, _ = _ask_all(rep, tree, n, table, lambda integral: QFORMS_FLOAT[:1], "after_edit")
                rep.count("forms_trees_asked_after_edit")
                if fails and fresh_ok.get(k, True) and form not in own_fail.setdefault(edit, {}):
                    callee, kind, qi, label, qform, info = fails[0]
                    own_fail[edit][form] = dict(tdetail, caller_then=edit, container_now=[list(p) for p in new],
                                                first_wrong_call=callee, query=[c / 2 for c in table[qi][0]], call=label,
                                                wrong_as=kind, wrong_calls=len(fails), **info)
    # ---- one report per wrong behaviour, classified by the set of argument forms it showed on
    for (sub, kind) in sorted(build_fail):
        forms = sorted(build_fail[(sub, kind)])
        _viol(rep, sub, "KDTree.__init__", kind, "points=" + _set_class(forms, task["bforms"]),
              dict(build_fail[(sub, kind)][forms[0]], points_forms_wrong=forms, points_forms_tried=task["bforms"]))
    for key in sorted(fresh_fail):
        callee, kind, qi, label = key
        per_form = fresh_fail[key]
        integral = table[qi][3]
        by_q = {}
        for form, (failing_q, tried_q, tdetail, info) in per_form.items():
            qcls = "any_form_tried" if failing_q == sorted(tried_q) else "+".join(sorted({qf.split(":")[0] for qf in failing_q}))
            by_q.setdefault(qcls, []).append(form)
        for qcls, forms in sorted(by_q.items()):
            failing_q, tried_q, tdetail, info = per_form[forms[0]]
            icls = "points=%s;query=%s;%s" % (_set_class(forms, asked_forms), qcls,
                                              "integral_position" if integral else "fractional_position")
            _viol(rep, "C11.forms.knn" if callee == "KDTree.query" else "C11.forms.radius", callee, kind, icls,
                  dict(tdetail, query=[c / 2 for c in table[qi][0]], call=label, query_given_as=failing_q,
                       query_forms_tried=tried_q, points_forms_wrong=sorted(forms), points_forms_asked=asked_forms, **info))
    if own_fail:
        # the kind of edit is not part of the class: a tree that reads the caller's container follows every edit
        first = {}
        for edit in EDITS:
            for form, det in own_fail.get(edit, {}).items():
                first.setdefault(form, det)
        tried = sorted({f for fs in edited_forms.values() for f in fs})
        # classified by the kind of container only: which of its forms show it on one point set depends on whether
        # the edit changes an answer there
        for cont in sorted({_form_attrs(f)[0] for f in first}):
            forms = sorted(f for f in first if _form_attrs(f)[0] == cont)
            _viol(rep, "C11.build.owns_points", "KDTree.__init__", "side_effect:answers_follow_callers_container",
                  "points=" + cont,
                  dict(first[forms[0]], points_forms_wrong=forms, points_forms_edited=tried,
                       edits_followed=sorted(e for e in own_fail if own_fail[e])))


def held_elem(form):
    return "int" if _form_attrs(form)[1] == "int-typed" else "float"


def _partition_defect(rep, tree, n):
    """None when every input index is stored in exactly one leaf, else (kind, leaf contents)."""
    leaves, _ = _tree_shape(tree)
    got = sorted(int(i) for lf in leaves for i in lf.points)
    rep.evaluations += 1
    if got == list(range(n)):
        return None
    miss = sorted(set(range(n)) - set(got))
    dup = sorted({i for i in got if got.count(i) > 1})
    kind = "mismatch:point_lost" if miss else ("mismatch:point_in_two_leaves" if dup else "mismatch:foreign_index")
    return kind, [[int(i) for i in lf.points] for lf in leaves]


def _run_forms(task, rep):
    d, lat, n = task["d"], task["lat"], task["n"]
    lattice_pts = list(itertools.product(lat, repeat=d))
    gen = itertools.combinations_with_replacement(range(len(lattice_pts)), n)
    qa = task.get("qalpha") or _qalphabet(lat)
    qpoints2 = list(itertools.product(qa, repeat=d))
    for off, combo in enumerate(itertools.islice(gen, task["start"], task["stop"])):
        pts = [lattice_pts[i] for i in combo]
        rep.count(f"formsets:{task['fam']}:n={n}")
        pts2 = [tuple(2 * c for c in p) for p in pts]
        table = []
        for q2 in qpoints2:
            d4 = [sum((a - b) ** 2 for a, b in zip(p, q2)) for p in pts2]
            table.append((q2, d4, sorted(d4), all(c % 2 == 0 for c in q2)))
        _run_forms_pointset(rep, pts, d, task, table, task["start"] + off)


# ------------------------------------------------------------------------------------------------
# call forms: spelling of the strategy name, keyword / positional arguments, omitted arguments (documented defaults)
#
# What a call means does not depend on how it is written: KDTree(P, 2, "fast"), KDTree(points=P, max_leaf_size=2,
# strategy="fast"), KDTree(P, 2) (strategy omitted: the documented default 'fast') and KDTree(P, 2, "Fast") (the
# constructor validates strategy.lower(): names are case-insensitive) all denote the same set of builds over the
# answers of the pivot seam.  The expectation of every call form is the set of distinct trees of the reference form
# (everything positional, lower-case name, as used by all other families, whose trees are judged against the
# brute-force tables), or for the queries the brute-force table itself.
#
# DOCUMENTED: parameter order and default values copied from the signatures / docstrings of the unchanged tree
# ("max_leaf_size (int, optional): ... Defaults to 10", "strategy ... Defaults to 'fast'", "k ... Defaults to 1",
# "which ... Defaults to 'l2'").  NOT read from the library at run time: a changed default changes the signature too.
REQUIRED = "<required>"
DOCUMENTED = {
    "KDTree.__init__": [["points", REQUIRED], ["max_leaf_size", 10], ["strategy", "fast"]],
    "KDTree.query": [["pt", REQUIRED], ["k", 1]],
    "KDTree.query_radius": [["pt", REQUIRED], ["r", REQUIRED]],
    "AABB.distance": [["pt", REQUIRED], ["which", "l2"]],          # box-point distance used for pruning (never given `which`)
    "geometry.distance": [["A", REQUIRED], ["B", REQUIRED], ["which", "l2"]],   # point-point distance used by both queries
}
DEFAULT_LEAF = DOCUMENTED["KDTree.__init__"][1][1]
DEFAULT_STRATEGY = DOCUMENTED["KDTree.__init__"][2][1]
DEFAULT_K = DOCUMENTED["KDTree.query"][1][1]
SPELLINGS = ["Capitalised", "UPPER"]          # besides the lower-case reference
KW_FORMS = ["points_positional", "all_keywords", "strategy_keyword_only", "keywords_in_other_order"]
QUERY_FORMS = ["k_keyword", "all_keywords", "keywords_in_other_order"]


def _spell(name, how):
    return {"lower": name.lower(), "Capitalised": name.capitalize(), "UPPER": name.upper()}[how]


def _ctor_call(form, arr, leaf, strat):
    """function(cls) -> tree for one written form of the constructor call."""
    if form == "points_positional":
        return lambda K: K(arr, max_leaf_size=leaf, strategy=strat)
    if form == "all_keywords":
        return lambda K: K(points=arr, max_leaf_size=leaf, strategy=strat)
    if form == "strategy_keyword_only":
        return lambda K: K(arr, leaf, strategy=strat)
    if form == "keywords_in_other_order":
        return lambda K: K(strategy=strat, points=arr, max_leaf_size=leaf)
    if form == "omit:strategy":
        return lambda K: K(arr, max_leaf_size=leaf)
    if form == "omit:strategy:positional":
        return lambda K: K(arr, leaf)
    if form == "omit:max_leaf_size":
        return lambda K: K(arr, strategy=strat)
    if form == "omit:max_leaf_size+strategy":
        return lambda K: K(arr)
    if form == "omit:max_leaf_size+strategy:keyword":
        return lambda K: K(points=arr)
    raise ValueError(form)


def _account(rep, ex):
    rep.traces += ex["paths"]
    rep.transitions += ex["splits"]
    rep.count("constructor_runs", ex["paths"])
    rep.count("call_constructor_runs", ex["paths"])
    if ex["capped"]:
        rep.flag("capped"); rep.count("capped_explorations")


def _build_summary(ex, leaf, d):
    """(usable, set of distinct trees) of an exploration; usable = every run finished and nothing is stuck."""
    stuck = bool(_non_terminating_states(ex["trans"], leaf, d)) or bool(ex["caps"])
    keys = {_tree_key(t) for t, _ in ex["trees"]}
    return (not stuck and not ex["raises"] and bool(keys)), keys


def _compare_builds(rep, ref_keys, ex, leaf, d):
    """None when the exploration `ex` of another written form built exactly the trees of the reference form,
    else (kind, info)."""
    rep.evaluations += 1
    if ex["raises"]:
        (cls, msg), path = ex["raises"][0]
        return "raises:" + cls, dict(msg=msg, pivot_script=list(path))
    if ex.get("cut"):
        return "mismatch:trees_differ", dict(why="this form runs many more distinct builds than the reference form",
                                             builds_explored_before_giving_up=ex["paths"], trees_of_reference_form=len(ref_keys))
    if ex["caps"] or _non_terminating_states(ex["trans"], leaf, d):
        return "hang", dict(why="a pending leaf is split again and again")
    keys = {_tree_key(t) for t, _ in ex["trees"]}
    if keys != ref_keys:
        only = sorted(keys - ref_keys, key=repr)[:1] or sorted(ref_keys - keys, key=repr)[:1]
        return "mismatch:trees_differ", dict(trees_of_this_form=len(keys), trees_of_reference_form=len(ref_keys),
                                             a_tree_in_one_only=repr(only[0])[:600])
    return None


def _names_class(failing, tried, all_label):
    failing, tried = sorted(set(failing)), sorted(set(tried))
    return all_label if failing == tried else "+".join(failing)


def _call_families(tier):
    if tier == "quick":
        return [
            _fam("call-1d-L5", 1, L5, 2, 3, batch=10, leafs=(1, 2)),
            _fam("call-2d-L2", 2, L2, 2, 3, batch=10, leafs=(1, 2), qalpha=[-2, 0, 8, 16]),
        ]
    return [
        _fam("call-1d-L5", 1, L5, 2, 4, batch=5, leafs=(1, 2, 3)),
        _fam("call-2d-L3", 2, L3, 2, 3, batch=5, leafs=(1, 2), qalpha=[-2, 0, 1, 9, 16]),
        _fam("call-3d-L2", 3, L2, 2, 3, batch=5, leafs=(1, 2), qalpha=[-2, 8, 16]),
    ]


def _call_tasks(tier):
    out = []
    for f in _call_families(tier):
        m = len(f["lat"]) ** f["d"]
        for n in range(f["nmin"], f["nmax"] + 1):
            total = n_multisets(m, n)
            for start in range(0, total, f["batch"]):
                t = dict(f)
                for key in ("nmin", "nmax", "batch", "q", "orders", "dtype"):
                    t.pop(key)
                t.update(kind="call", n=n, start=start, stop=min(total, start + f["batch"]), all_forms=(tier != "quick"))
                out.append(t)
    out += [dict(fam="defaults", kind="defaults", which=w, strategies=st) for w, st in _default_inputs(tier)]
    out.append(dict(fam="defaults", kind="signature"))
    return out


def _run_call(task, rep):
    d, lat, n = task["d"], task["lat"], task["n"]
    lattice_pts = list(itertools.product(lat, repeat=d))
    gen = itertools.combinations_with_replacement(range(len(lattice_pts)), n)
    qa = task.get("qalpha") or _qalphabet(lat)
    qpoints2 = list(itertools.product(qa, repeat=d))
    for off, combo in enumerate(itertools.islice(gen, task["start"], task["stop"])):
        pts = [lattice_pts[i] for i in combo]
        rep.count(f"callsets:{task['fam']}:n={n}")
        _run_call_pointset(rep, pts, d, task, qpoints2, task["start"] + off)


def _run_call_pointset(rep, pts, d, task, qpoints2, set_index):
    import numpy as np
    n = len(pts)
    arr = np.array(pts, dtype=float).reshape(n, d)
    base = dict(points=[list(p) for p in pts])
    kwforms = KW_FORMS if task["all_forms"] else [KW_FORMS[set_index % len(KW_FORMS)]]
    spell_fail, spell_tried = {}, []        # kind -> [(strategy, spelling, detail)]
    kw_fail, kw_tried = {}, []              # kind -> [(form, detail)]
    omit_fail = {}                          # kind -> detail
    ref_of = {}
    first_tree = None
    for leaf in task["leafs"]:
        for strat in ALL:
            ref = _explore(arr, leaf, strat)
            _account(rep, ref)
            usable, ref_keys = _build_summary(ref, leaf, d)
            ref_of[(leaf, strat)] = (usable, ref_keys)
            if not usable:
                rep.count("call_reference_unusable")      # reported by the build clauses of the other families
                continue
            if ref["splits"]:
                rep.flag("call:reference_split:" + strat)
            if first_tree is None:
                cand = sorted((t for t, _ in ref["trees"]), key=lambda t: repr(_tree_key(t)))
                cand = [t for t in cand if _tree_shape(t)[1]]
                if cand:
                    first_tree = (cand[0], dict(base, max_leaf_size=leaf, strategy=strat))
            b2 = dict(base, max_leaf_size=leaf)
            for how in SPELLINGS:
                name = _spell(strat, how)
                ex = _explore(arr, leaf, name)
                _account(rep, ex)
                spell_tried.append((strat, how))
                rep.count("call_spelling:%s:%s" % (strat, how))
                bad = _compare_builds(rep, ref_keys, ex, leaf, d)
                if bad:
                    spell_fail.setdefault(bad[0], []).append((strat, how, dict(b2, strategy=name, **bad[1])))
            for form in kwforms:
                ex = _explore(arr, leaf, strat, call=_ctor_call(form, arr, leaf, strat))
                _account(rep, ex)
                kw_tried.append(form)
                rep.count("call_form:" + form)
                bad = _compare_builds(rep, ref_keys, ex, leaf, d)
                if bad:
                    kw_fail.setdefault(bad[0], []).append((form, dict(b2, strategy=strat, call=form, **bad[1])))
        # strategy omitted: the documented default
        usable, ref_keys = ref_of[(leaf, DEFAULT_STRATEGY)]
        if usable:
            for form in ("omit:strategy", "omit:strategy:positional"):
                ex = _explore(arr, leaf, DEFAULT_STRATEGY, call=_ctor_call(form, arr, leaf, None), path_cap=2000)
                _account(rep, ex)
                rep.count("defaults_exercised:KDTree.__init__.strategy")
                bad = _compare_builds(rep, ref_keys, ex, leaf, d)
                if bad:
                    kind = "mismatch:default_value" if bad[0].startswith("mismatch") else bad[0]
                    omit_fail.setdefault(kind, dict(base, max_leaf_size=leaf, call="KDTree(points, max_leaf_size) - strategy omitted",
                                                    documented_default=DEFAULT_STRATEGY, **bad[1]))
    for kind in sorted(spell_fail):
        lst = spell_fail[kind]
        strategies = _names_class([x[0] for x in lst], [x[0] for x in spell_tried], "any")
        hows = _names_class([x[1] for x in lst], [x[1] for x in spell_tried], "any_but_lower_case")
        _viol(rep, "C11.call.strategy_spelling", "KDTree.__init__", kind, "strategy=%s;spelling=%s" % (strategies, hows),
              dict(lst[0][2], wrong_for=sorted({(a, b) for a, b, _ in lst}), tried=sorted(set(spell_tried)),
                   expected="the builds of the lower-case name (the constructor validates strategy.lower())"))
    for kind in sorted(kw_fail):
        lst = kw_fail[kind]
        _viol(rep, "C11.call.keyword_forms", "KDTree.__init__", kind,
              "call=" + _names_class([x[0] for x in lst], kw_tried, "any_keyword_form_tried"),
              dict(lst[0][1], forms_wrong=sorted({x[0] for x in lst}), forms_tried=sorted(set(kw_tried)),
                   expected="the builds of KDTree(points, max_leaf_size, strategy) written positionally"))
    for kind in sorted(omit_fail):
        _viol(rep, "C11.defaults.omitted", "KDTree.__init__", kind, "strategy", omit_fail[kind])
    if first_tree is not None:
        pts2 = [tuple(2 * c for c in p) for p in pts]
        _ask_call_forms(rep, first_tree[0], pts2, qpoints2, first_tree[1], range(1, n + 2))


def _ask_call_forms(rep, tree, pts2, qpoints2, tdetail, ks):
    """The queries of one tree written with keywords and with k omitted, against the brute-force table."""
    import numpy as np
    from mouette.geometry import Vec
    n = len(pts2)
    kw_fail, omit_fail = {}, {}
    for q2 in qpoints2:
        q = [c / 2 for c in q2]
        qv = Vec(np.array(q, dtype=float))
        d4 = [sum((a - b) ** 2 for a, b in zip(p, q2)) for p in pts2]
        sd4 = sorted(d4)
        # ---- k omitted: the documented default
        for form, fn in (("omit:k", lambda: tree.query(qv)), ("omit:k:keyword", lambda: tree.query(pt=qv))):
            rep.transitions += 1
            rep.evaluations += 1
            rep.count("defaults_exercised:KDTree.query.k")
            if n >= 2:
                rep.flag("defaults:k_matters")
            try:
                bad = _judge_knn(fn(), d4, sd4, DEFAULT_K, n)
            except Exception as e:
                bad = ("answers", "raises:" + type(e).__name__, dict(msg=str(e)[:200]))
            if bad:
                kind = "mismatch:default_value" if bad[1].startswith("mismatch") else bad[1]
                omit_fail.setdefault(kind, dict(tdetail, query=q, call="query(pt) - k omitted", documented_default=DEFAULT_K,
                                                wrong_as=bad[1], **bad[2]))
        for k in ks:
            for form, fn in (("k_keyword", lambda: tree.query(qv, k=k)), ("all_keywords", lambda: tree.query(pt=qv, k=k)),
                             ("keywords_in_other_order", lambda: tree.query(k=k, pt=qv))):
                rep.transitions += 1
                rep.evaluations += 1
                rep.count("call_query_form:" + form)
                try:
                    bad = _judge_knn(fn(), d4, sd4, k, n)
                except Exception as e:
                    bad = ("answers", "raises:" + type(e).__name__, dict(msg=str(e)[:200]))
                if bad:
                    kw_fail.setdefault(("KDTree.query", bad[1]), []).append((form, dict(tdetail, query=q, k=k, call=form, **bad[2])))
        for label, r4 in RADII4:
            r = math.inf if r4 is None else math.sqrt(r4 / 4)
            for form, fn in (("k_keyword", lambda: tree.query_radius(qv, r=r)), ("all_keywords", lambda: tree.query_radius(pt=qv, r=r)),
                             ("keywords_in_other_order", lambda: tree.query_radius(r=r, pt=qv))):
                rep.transitions += 1
                rep.evaluations += 1
                rep.count("call_radius_form:" + form)
                try:
                    bad = _judge_radius(fn(), d4, r4, n)
                except Exception as e:
                    bad = ("answers", "raises:" + type(e).__name__, dict(msg=str(e)[:200]))
                if bad:
                    kw_fail.setdefault(("KDTree.query_radius", bad[1]), []).append((form, dict(tdetail, query=q, r=label, call=form, **bad[2])))
    for (callee, kind) in sorted(kw_fail):
        lst = kw_fail[(callee, kind)]
        _viol(rep, "C11.call.keyword_forms", callee, kind, "call=" + _names_class([x[0] for x in lst], QUERY_FORMS, "any_keyword_form_tried"),
              dict(lst[0][1], forms_wrong=sorted({x[0] for x in lst}), wrong_calls=len(lst)))
    for kind in sorted(omit_fail):
        _viol(rep, "C11.defaults.omitted", "KDTree.query", kind, "k", omit_fail[kind])


# ---- inputs on which the default leaf size matters: more points than the documented 10
def _default_points(which):
    kind, n = which.split(":")
    n = int(n)
    if kind == "line":            # n distinct points on a line
        return [(i,) for i in range(n)]
    if kind == "grid":            # rows of 4 in the plane
        return [(i % 4, i // 4) for i in range(n)]
    if kind == "pairs":           # two values, each n/2 times (+ one more of the first): unsplittable halves
        return [(8 * (i % 2),) for i in range(n)]
    if kind == "heap":            # n-1 copies of one point and one other point
        return [(0, 0)] * (n - 1) + [(8, 1)]
    raise ValueError(which)


def _default_inputs(tier):
    out = [("line:%d" % n, ALL) for n in (9, 10, 11, 12)] + [("grid:12", ALL), ("pairs:12", ALL), ("heap:12", ALL),
                                                                   ("line:23", BF)]
    if tier != "quick":
        out += [("line:13", ALL), ("grid:11", ALL), ("grid:14", ALL), ("pairs:23", BF), ("grid:35", BF)]
    return out


def _run_defaults(task, rep):
    """max_leaf_size omitted (alone / together with strategy) on inputs with about and more than 10 points."""
    import numpy as np
    pts = _default_points(task["which"])
    n, d = len(pts), len(pts[0])
    arr = np.array(pts, dtype=float).reshape(n, d)
    base = dict(points="props/c11._default_points(%r)" % task["which"], n=n)
    rep.count("default_inputs")
    distinct_pts = len(set(pts))
    fails = {}          # (param class, kind) -> detail
    asked = None

    def one(form, strat, label, param):
        nonlocal asked
        ref = _explore(arr, DEFAULT_LEAF, strat, call=lambda K: K(arr, max_leaf_size=DEFAULT_LEAF, strategy=strat))
        _account(rep, ref)
        usable, ref_keys = _build_summary(ref, DEFAULT_LEAF, d)
        pos = _explore(arr, DEFAULT_LEAF, strat)
        _account(rep, pos)
        ex = _explore(arr, DEFAULT_LEAF, strat, call=_ctor_call(form, arr, None, strat), path_cap=4 * ref["paths"] + 100)
        _account(rep, ex)
        for name in param.split("+"):
            rep.count("defaults_exercised:KDTree.__init__." + name)
        if not usable:
            rep.count("call_reference_unusable")
            ic = _ucls(None, _pivot_class(strat))
            for (cls, msg), path in ref["raises"][:1]:
                _viol(rep, "C11.build.finishes", "KDTree.__init__", "raises:" + cls, ic, dict(base, strategy=strat, max_leaf_size=DEFAULT_LEAF, msg=msg))
            if ref["caps"] or _non_terminating_states(ref["trans"], DEFAULT_LEAF, d):
                _viol(rep, "C11.build.terminates", "KDTree.__init__", "hang", ic + ";n>10", dict(base, strategy=strat, max_leaf_size=DEFAULT_LEAF))
            return
        bad = _compare_builds(rep, ref_keys, pos, DEFAULT_LEAF, d)
        if bad:
            fails.setdefault(("C11.call.keyword_forms", bad[0], "call=points_positional"),
                             dict(base, strategy=strat, max_leaf_size=DEFAULT_LEAF, call="KDTree(points, 10, strategy) against the keyword form", **bad[1]))
        bad = _compare_builds(rep, ref_keys, ex, DEFAULT_LEAF, d)
        if bad:
            kind = "mismatch:default_value" if bad[0].startswith("mismatch") else bad[0]
            fails.setdefault(("C11.defaults.omitted", kind, param),
                             dict(base, call=label, documented_defaults=dict(max_leaf_size=DEFAULT_LEAF, strategy=DEFAULT_STRATEGY), **bad[1]))
        # the documented leaf size read off the trees themselves: a leaf holds at most 10 points unless they are all one point,
        # and up to 10 points are never split
        for tree, _ in ex["trees"]:
            rep.evaluations += 1
            leaves, ninternal = _tree_shape(tree)
            big = [lf for lf in leaves if lf.points.size > DEFAULT_LEAF and len({pts[int(i)] for i in lf.points}) > 1]
            if big or (n <= DEFAULT_LEAF and ninternal):
                fails.setdefault(("C11.defaults.omitted", "mismatch:default_value", param),
                                 dict(base, call=label, documented_defaults=dict(max_leaf_size=DEFAULT_LEAF),
                                      leaf_sizes=[int(lf.points.size) for lf in leaves], internal_nodes=ninternal))
            if ninternal:
                rep.flag("defaults:split_above_%d" % DEFAULT_LEAF)
            elif n <= DEFAULT_LEAF:
                rep.flag("defaults:single_leaf_up_to_%d" % DEFAULT_LEAF)
        if asked is None and ex["trees"]:
            cand = sorted((t for t, _ in ex["trees"]), key=lambda t: repr(_tree_key(t)))
            asked = (cand[0], dict(base, call=label))

    one("omit:max_leaf_size+strategy", DEFAULT_STRATEGY, "KDTree(points)", "max_leaf_size+strategy")
    one("omit:max_leaf_size+strategy:keyword", DEFAULT_STRATEGY, "KDTree(points=points)", "max_leaf_size+strategy")
    for strat in task["strategies"]:
        one("omit:max_leaf_size", strat, "KDTree(points, strategy=%r)" % strat, "max_leaf_size")
    for (sub, kind, cls) in sorted(fails):
        _viol(rep, sub, "KDTree.__init__", kind, cls, fails[(sub, kind, cls)])
    if asked is not None:
        tree, tdetail = asked
        pts2 = [tuple(2 * c for c in p) for p in pts]
        lo = [min(p[a] for p in pts2) for a in range(d)]
        hi = [max(p[a] for p in pts2) for a in range(d)]
        qs = [pts2[i] for i in range(0, n, 3)] + [tuple(c + 1 for c in pts2[i]) for i in range(1, n, 4)]
        qs += [tuple(c - 2 for c in lo), tuple(c + 2 for c in hi)]
        qs = sorted(set(qs))
        ks = sorted({1, 2, 3, DEFAULT_LEAF, DEFAULT_LEAF + 1, n - 1, n, n + 1})
        _check_partition(rep, tree, n, "any_point_set", tdetail)
        _check_queries(rep, tree, pts2, qs, tdetail, ks=ks)
        _check_result_histories(rep, tree, pts2, qs, tdetail, all_edits=True)
        _ask_call_forms(rep, tree, pts2, qs, tdetail, ks)
        if _tree_shape(tree)[1]:
            rep.case(("defaults", task["which"], _tree_key(tree)))


def _run_signature(task, rep):
    """Cheap guard: the written signatures still say what DOCUMENTED says (order of the parameters, default values),
    and the box / point distances taken with `which` omitted are the documented Euclidean ones."""
    import inspect
    import numpy as np
    from mouette.spatial.kdtree import KDTree
    from mouette.geometry import AABB, Vec
    from mouette.geometry import geometry as G
    fns = {"KDTree.__init__": KDTree.__init__, "KDTree.query": KDTree.query, "KDTree.query_radius": KDTree.query_radius,
           "AABB.distance": AABB.distance, "geometry.distance": G.distance}
    for callee in sorted(DOCUMENTED):
        want = DOCUMENTED[callee]
        params = [p for p in inspect.signature(fns[callee]).parameters.values() if p.name != "self"]
        got = [[p.name, REQUIRED if p.default is inspect.Parameter.empty else p.default] for p in params]
        rep.count("signature_checked:" + callee)
        rep.evaluations += 1
        names_got, names_want = [g[0] for g in got], [w[0] for w in want]
        detail = dict(signature=str(inspect.signature(fns[callee])), documented=want)
        if names_got[:len(names_want)] != names_want:
            cls = "parameters_reordered" if sorted(names_got) == sorted(names_want) else "parameters_renamed_or_missing"
            _viol(rep, "C11.defaults.signature", callee, "mismatch:parameter_order", cls, detail)
            continue
        for p in params[len(names_want):]:
            if p.default is inspect.Parameter.empty and p.kind in (p.POSITIONAL_ONLY, p.POSITIONAL_OR_KEYWORD):
                _viol(rep, "C11.defaults.signature", callee, "mismatch:parameter_order", "new_required_parameter", detail)
        for (name, dv), (_, gv) in zip(want, got):
            rep.evaluations += 1
            rep.count("signature_default_checked:%s.%s" % (callee, name))
            same = (type(dv) is type(gv) and dv == gv)
            if not same:
                _viol(rep, "C11.defaults.signature", callee, "mismatch:default_value", name,
                      dict(detail, parameter=name, documented_default=repr(dv), default_in_signature=repr(gv)))
    # the two distances with `which` omitted, on a 3-4-5 configuration (l2 = 5, l1 = 7, linf = 4)
    box = AABB(np.array([0., 0.]), np.array([1., 1.]))
    pt = Vec(np.array([4., 5.]))
    for callee, param, calls in (
            ("AABB.distance", "which", [("distance(pt)", lambda: box.distance(pt)), ("distance(pt=pt)", lambda: box.distance(pt=pt)),
                                        ("distance(pt, 'l2')", lambda: box.distance(pt, "l2")),
                                        ("distance(pt, which='l2')", lambda: box.distance(pt, which="l2"))]),
            ("geometry.distance", "which", [("distance(A, B)", lambda: G.distance(Vec(np.array([1., 1.])), pt)),
                                            ("distance(A, B, 'l2')", lambda: G.distance(Vec(np.array([1., 1.])), pt, "l2")),
                                            ("distance(B=B, A=A)", lambda: G.distance(B=pt, A=Vec(np.array([1., 1.]))))])):
        for label, fn in calls:
            rep.transitions += 1
            rep.evaluations += 1
            rep.count("defaults_exercised:%s.%s" % (callee, param))
            try:
                got = float(fn())
            except Exception as e:
                _viol(rep, "C11.defaults.omitted", callee, "raises:" + type(e).__name__, param, dict(call=label, msg=str(e)[:200]))
                continue
            if got != 5.0:
                omitted = "l2" not in label
                _viol(rep, "C11.defaults.omitted" if omitted else "C11.call.keyword_forms", callee,
                      "mismatch:default_value" if omitted else "mismatch:distance", param if omitted else "call=which_given",
                      dict(call=label, box=[[0, 0], [1, 1]], A=[1, 1], point=[4, 5], got=got, want=5.0))


# ------------------------------------------------------------------------------------------------
def run_task(task, rep):
    import mouette  # noqa: F401  (inside the function: the manifest generator parses drivers without the repo)
    with _Seam():
        rep.count("rng_ownership_checks")
        if task["fam"] == "fast51":
            _run_fast51(task, rep)
        elif task.get("kind") == "forms":
            _run_forms(task, rep)
        elif task.get("kind") == "call":
            _run_call(task, rep)
        elif task.get("kind") == "defaults":
            _run_defaults(task, rep)
        elif task.get("kind") == "signature":
            _run_signature(task, rep)
        else:
            _run_family(task, rep)


def finish(tier, rep):
    fails = []
    c = rep.counters
    # family sizes equal the closed-form number of multisets
    for f in _families(tier):
        m = len(f["lat"]) ** f["d"]
        for n in range(f["nmin"], f["nmax"] + 1):
            got = c.get(f"multisets:{f['fam']}:n={n}", 0)
            want = sum(n_multisets(m, n) for g in _families(tier) if g["fam"] == f["fam"] and g["nmin"] <= n <= g["nmax"])
            if got != want:
                fails.append(f"family {f['fam']} n={n}: enumerated {got} multisets, expected {want}")
    for name in ("splits_observed", "np_proxy_accesses", "seam_calls:fast", "seam_calls:random", "seam_calls:fast51",
                 "rng_ownership_checks", "build_ok", "distinct_trees"):
        if c.get(name, 0) <= 0:
            fails.append(f"counter {name} is zero: the hook / seam never fired")
    for f in _form_families(tier):
        m = len(f["lat"]) ** f["d"]
        for n in range(f["nmin"], f["nmax"] + 1):
            got = c.get(f"formsets:{f['fam']}:n={n}", 0)
            want = sum(n_multisets(m, n) for g in _form_families(tier) if g["fam"] == f["fam"] and g["nmin"] <= n <= g["nmax"])
            if got != want:
                fails.append(f"family {f['fam']} n={n}: enumerated {got} point sets, expected {want}")
    for form in BFORMS[tier]:
        if "forms:internal_node:" + form not in rep.flags:
            fails.append(f"argument form {form}: no tree with an internal node was queried")
        if form.startswith("tuple:"):
            continue
        for edit in EDITS:
            if f"forms:edit_effective:{edit}:{form}" not in rep.flags:
                fails.append(f"argument form {form}: the caller's edit '{edit}' never changed a container that was asked again")
    for name in (["forms_trees_asked_after_edit", "forms_fractional_queries:int_points", "forms_fractional_queries:float_points",
                  "forms_fractional_queries:after_edit"] + ["forms_queries:" + q for q in QFORMS_FLOAT + QFORMS_INT]):
        if c.get(name, 0) <= 0:
            fails.append(f"counter {name} is zero: the argument-form clauses did not run")
    # unit of length: every unit of the tier built, split by random pivots, and asked on a tree with an internal node
    for u in UNITS_OF_TIER[tier]:
        for fl in ("unit:internal_node:", "unit:queried:", "unit:random_split:"):
            if fl + u not in rep.flags:
                fails.append(f"unit of length {u}: coverage flag {fl[:-1]} missing")
        if c.get("unit_pointsets:" + u, 0) <= 0:
            fails.append(f"unit of length {u}: no point set")
    # far from the origin: the tier holds units of that class, on all axes and on some axes only
    for cls in ("lattice_far_from_origin", "lattice_far_from_origin_on_some_axes", "lattice_inside_(0,1)", "lattice<0", "lattice_both_signs"):
        if "unit_class_queried:" + cls not in rep.flags:
            fails.append(f"unit of length: no tree with an internal node was asked in a unit of class {cls}")
    # histories on the returned objects
    for name in ("results_kept", "results_history_trees"):
        if c.get(name, 0) <= 0:
            fails.append(f"counter {name} is zero: the result-ownership clauses did not run")
    if "results:kept_verified" not in rep.flags:
        fails.append("coverage flag missing: results:kept_verified")
    for a in ("knn", "radius"):
        for b in ("knn", "radius"):
            if f"results:pair:{a}>{b}" not in rep.flags:
                fails.append(f"result histories: no pair {a} then {b}")
    for edit in RESULT_EDITS[1:]:
        if c.get(f"results_edit:{edit}:applied", 0) <= 0:
            fails.append(f"result histories: the caller's edit '{edit}' never changed a returned answer")
    # scalar argument forms
    for kf in KFORMS:
        if c.get("forms_scalar:k:" + kf, 0) <= 0:
            fails.append(f"k never given as {kf}")
    for rf in RFORMS:
        if c.get("forms_scalar:r:" + rf, 0) <= 0 or c.get("forms_scalar:r_zero:" + rf, 0) <= 0:
            fails.append(f"radius (and radius 0) never given as {rf}")
    # call forms and documented defaults: every entry of the tables was exercised
    for f in _call_families(tier):
        m = len(f["lat"]) ** f["d"]
        for n in range(f["nmin"], f["nmax"] + 1):
            if c.get(f"callsets:{f['fam']}:n={n}", 0) != n_multisets(m, n):
                fails.append(f"family {f['fam']} n={n}: enumerated {c.get('callsets:%s:n=%d' % (f['fam'], n), 0)} point sets, expected {n_multisets(m, n)}")
    for strat in ALL:
        for how in SPELLINGS:
            if c.get("call_spelling:%s:%s" % (strat, how), 0) <= 0:
                fails.append(f"strategy name {strat} never given as {how}")
        if "call:reference_split:" + strat not in rep.flags:
            fails.append(f"call forms: no build with strategy {strat} split a leaf")
    for form in KW_FORMS:
        if c.get("call_form:" + form, 0) <= 0:
            fails.append(f"constructor call form {form} never used")
    for form in QUERY_FORMS:
        if c.get("call_query_form:" + form, 0) <= 0 or c.get("call_radius_form:" + form, 0) <= 0:
            fails.append(f"query call form {form} never used")
    for callee, params in DOCUMENTED.items():
        if c.get("signature_checked:" + callee, 0) != 1:
            fails.append(f"signature of {callee} not compared with the documented one")
        for name, dv in params:
            if dv != REQUIRED and c.get("defaults_exercised:%s.%s" % (callee, name), 0) <= 0:
                fails.append(f"documented default {callee}.{name}={dv!r}: no call with the argument omitted")
    if c.get("default_inputs", 0) != len(_default_inputs(tier)):
        fails.append("inputs with more than 10 points: not all were run")
    if c.get("defaults_exercised_above_50_points", 0) <= 0:
        fails.append("strategy never omitted above 50 points (where 'fast' differs from 'balanced')")
    for fl in ("defaults:strategy_matters", "defaults:k_matters", "defaults:split_above_%d" % DEFAULT_LEAF,
               "defaults:single_leaf_up_to_%d" % DEFAULT_LEAF):
        if fl not in rep.flags:
            fails.append("coverage flag missing: " + fl)
    if c.get("seam_calls:balanced", 0) != 0:
        fails.append("the balanced strategy drew random numbers")
    for fl in ("input:duplicates_beyond_leaf_size", "tree:internal_node", "tree:three_internal_nodes", "tree:empty_leaf",
               "tree:multi_point_leaf", "knn:tied_distances", "radius:proper_subset", "fast51:51_root_samples"):
        if fl not in rep.flags:
            fails.append("coverage flag missing: " + fl)
    if "capped" in rep.flags:
        fails.append(f"{c.get('capped_explorations')} pivot explorations hit PATH_CAP: enumeration not exhaustive")
    for kind in ("knn", "radius", "pivot_answers:random"):
        if len(rep.outcomes.get(kind, ())) < 2:
            fails.append(f"event kind {kind} produced a single outcome")
    return fails
