"""C18 - surface frame fields are unit, border-aligned and topologically consistent (S2 x S3).

Every member of bounded-exhaustive input families (all triangulations of small planar point sets, lifted on a
paraboloid; grids; closed polyhedra and tori) is run through `framefield.SurfaceFrameField` under every
configuration within the deviation bound, and each clause of the statement is evaluated against an oracle
assembled from the raw point / face lists (mc/c18_lib.py): unit modulus, constraints, singularity indices,
harmonic extension under an independently assembled connection Laplacian, Hermitian / flat-connection
identities of the library's operator, invariance under every relabeling and face-start rotation.

Two further dimensions:
* planar lattice polygons (right trapezoid, rectangle, right triangle, parallelogram, house, L, hexagon; all
  triangulations, with and without an interior point) whose border corners turn by exactly 45 / 90 / 135 degrees, so
  that for even orders the two border-edge contributions at a corner are exactly opposite (order * turning = 180 mod
  360, decided in Gaussian-integer arithmetic): the constrained vertex must still carry a unit constraint;
* histories of length two on ONE mesh object: field A built, run and flagged, then field B (other order / n_smooth /
  element) built, run and flagged on the same mesh; every clause is evaluated after each run, the clauses of the second
  run under their own subchecks C18.history.*; on meshes with interior edges sharper than the feature threshold also the
  pairs that differ in the features switch only (on then off, off then on);
* a configuration switch of the library, mouette.config.display_duplicate_attribute_warning = True (create_attribute then
  hands back an existing attribute of the same name): every history task is run a second time under it (dupflag_variant,
  the runner sets and restores the switch), the clauses of the second field under the subchecks C18.history.dupflag.*;
* the unit of length: the same inputs with every coordinate multiplied by 2^-48 and by 2^48 (exact in binary floating point;
  input class + ':unit=2^e'): every clause is dimensionless (moduli, angles, indices, cotangent ratios), so each one is
  evaluated on the scaled input with the oracle recomputed from the scaled coordinates, and C18.unit.features / .constraints /
  .field demand the feature edges, the constraints and the directions found at unit scale (an absolute epsilon on a length,
  an area or an eigenvalue is invisible at unit scale);
* the documented configuration switch mouette.config.sort_neighborhoods = False while the mesh is built and processed (vertex
  rings unsorted; input class + ':sort=False'; set and restored around each execution): every clause, C18.sort.features /
  .field (same feature edges, same directions against the mesh's own edges as with sorted rings) and, under that switch, every
  rotation of the face list (each face in position 0 in turn) and every transposition (0 k) of the vertex labels (each vertex in
  position 0 in turn): C18.sort.face_in_position_0 / C18.sort.vertex_in_position_0;
* the argument forms of the public entry points (SurfaceFrameField, flag_singularities of both fields, operators.laplacian /
  laplacian_triangles / cotan_edge_diagonal / area_weight_matrix / area_weight_matrix_faces, optimize.inverse_power_method,
  SurfaceConnectionVertices / SurfaceConnectionFaces): the documented defaults are pinned in DOC_SIGNATURES; every option omitted
  in turn and all omitted together must give what the documented default passed explicitly gives (C18.defaults.omitted), every
  positional prefix in the documented order what the same values give by keyword (C18.defaults.positional), and the table is
  compared with inspect.signature (C18.defaults.signature); input class = the option;
* the connection on planar domains whose border angles are commensurable with the order (mc/c18_lib.py COMM_SETS: rectangles / L with
  and without mid-side vertices on the square lattice, hexagons / rhombus / trapezoid / triangle with mid-side vertices on the
  triangular lattice, a hexagon with 72 / 144 degree angles; all triangulations): where the exact predicate says that the library
  snaps no chart (border angle = positive multiple of 2*pi/order; face-based field: always) the connection of the planar domain is
  flat, so the Laplacian built with it is the scalar one up to the gauge of the local bases (C18.flat_domain.laplacian, also on every
  other planar input of the driver) and the field is the one computed with the library's flat connection, measured against the mesh's
  own edges (C18.flat_domain.field);
* observer calls on ONE computed field object (export_as_mesh in both forms, flag_singularities, normalize, a second run, plain reads):
  every word over that menu up to the depth of the tier is applied between run() and the final flag_singularities(); no call may
  change the variables, the local bases or the parallel transport (C18.observer.state_unchanged), the indices flagged afterwards are
  those of a field that was only run (C18.observer.singularities_unchanged), every clause as C18.observer.<clause>;
* worker objects with a history handed to the entry point: a FeatureEdgeDetector that was run on another surface first (same
  connectivity folded elsewhere / another closed surface / a larger surface), used by a field on that surface, run twice, or shared
  with a field of the other element kind on the same mesh object, then passed as custom_features (alone or with a connection built
  from it as custom_connection): every clause (C18.reuse.<clause>) and the same feature edges / constraints / directions as with a
  detector created for the mesh and run once (C18.reuse.features / .constraints / .field).
"""
from __future__ import annotations
import cmath, itertools, math, os
from mc.core import Report, call, exc_kind

ID = "C18"
TECHNIQUE = ("bounded-exhaustive sweep (all triangulations of small point sets and lattice polygons x all configurations within 2 "
             "deviations x all relabelings x all length-2 field histories on one mesh object x the duplicate-attribute configuration switch x unit of length 2^-48 / 2^48 x unsorted vertex rings with every face / vertex in position 0) of the real frame-field solvers vs an "
             "independently assembled dense connection-Laplacian oracle; exhaustive argument forms (omitted / keyword / positional prefix) of the "
             "public entry points vs the pinned table of documented defaults; connection built by the field vs flat connection on all triangulations of planar polygons with "
             "border angles commensurable with the order (exact lattice predicate); all words of observer calls up to depth 2 / 3 on one field object; "
             "all histories of a re-used FeatureEdgeDetector handed over as custom_features")
RULE = ("inputs: every triangulation TRI(P) of the listed planar point sets (paraboloid lift z=(x^2+y^2)/16, and unlifted with "
        "the library's flat connection), lifted 3x3 / 3x4 grids, tetrahedron, octahedron, icosahedron, 3x3 and 3x4 tori; every "
        "triangulation of the listed planar lattice polygons (exact 45/90/135 degree border corners; default and flat connection); "
        "configurations: order 1-6 x element x n_smooth {0,1,3} in full, the switches features/use_cotan/cad_correction/"
        "smooth_normals within the deviation bound of the tier; relabelings and face-listing deviations (start rotations, "
        "swaps of adjacent faces) as listed in the bounds; histories: ordered pairs (A, B) of configurations (element x order x "
        "n_smooth {0,3}, A != B), A built/run/flagged then B built/run/flagged on the same mesh object, all clauses after each; on meshes where the features switch is not inert (an interior edge with normals' dot < 0.5) also the 48 pairs differing in features only; every history once more under config.display_duplicate_attribute_warning=True (clauses C18.history.dupflag.*); deviation dimensions on the meshes listed in the bounds, configurations = order 1-6 x n_smooth {0,3} with the default switches and cad_correction off + every single-switch deviation for the orders 3, 4 + the flat connection on the planar version: each run at unit scale (reference), with all coordinates x 2^-48 and x 2^48 (class ':unit=2^e': all clauses + C18.unit.*: same features, constraints, directions as the reference) and with config.sort_neighborhoods=False (class ':sort=False': all clauses + C18.sort.*: same features and edge-relative directions as with sorted rings; smoothing off, orders 1 and 4: every rotation of the face list and every vertex transposition (0 k), clauses C18.sort.face_in_position_0 / vertex_in_position_0); a case = one distinct (labelled and listed mesh, configuration) "
        "execution of the real solver; non-trivial = the mesh has constrained elements or is closed (always true here); argument forms: for each entry point of DOC_SIGNATURES and each base assignment of the other options (DOC_BASES), each option omitted in turn, all omitted, all positional; every positional prefix of the value vectors DOC_VECTORS / DOC_OTHER; a form is non-trivial for an option when its other value changes the result on the input (asserted per option by finish); planar commensurable domains: every triangulation (flip graph from an ear-clipping start, exact orientation predicates in lattice coordinates) of the 10 polygons of COMM_SETS, z = 0; configurations order 1-6 x n_smooth {0,3} x cotangent / uniform weights (x smooth_normals on / off for vertices), each run with the connection the field builds and with the flat connection; C18.flat_domain.field is asserted where the exact predicate holds at every border vertex (faces: always), C18.flat_domain.laplacian per pair of elements whose charts are not snapped, on these and on every other planar execution of the driver (lattice polygons: Gaussian-integer predicate); observer calls: for each mesh of the bound x element x order 1-6 x n_smooth {0,3}: every word over the menu OBSERVERS (vertices 6, faces 5 calls) of length <= depth (deeper for the orders 3 / 4 with smoothing off), applied to a fresh field object between run() and the final flag_singularities(); re-used detectors: for each target mesh B x element x configuration (order 1-6, n_smooth 0; + n_smooth 3 for the orders 3, 4; thorough: both in full) x what is handed over (custom_features alone / with custom_connection built from it): the reference (detector created for B, run once) and the 8 histories of _reuse_histories over the 3 other surfaces (B's connectivity folded along another line, the tetrahedron, a folded 6x5 grid with more edges than B), detector options only_border=False, corner_order = the order (vertices) / 4 (faces), compute_feature_graph as in the bound")
ASSUMPTIONS = [
    "inputs are oriented manifold triangle complexes in general position (exact integer predicate), <= 12 vertices (icosahedron/torus) ",
    "the set of feature edges (FrameField.feat) and the local bases / edge angles of FrameField.conn are taken as given by the library (subjects of C15 / of the connection); the Laplacian, the fixed/free partition, chi, cotangents are recomputed independently",
    "singularity index normalisation as implemented and documented for crosses: index = angle/(pi/2), so the quantum of an order-n field is 4/n and the indices sum to 4*chi",
    "excluded and counted: systems with cond(L_II) > 1e8 or |cot a + cot b| < 1e-6 (harmonic and invariance clauses; beyond cond 1e12, for a free block whose smallest singular value is below 1e-8 x the largest entry of the operator (singular without being ill-conditioned: all its entries are 1e-16) and for the degenerate weights also the modulus of the free elements: the system is numerically singular, e.g. exactly cancelling negative cotangent weights of a non-Delaunay triangulation of a lattice polygon), free elements whose exact harmonic value has modulus < 1e-6 (direction undefined), constrained vertices left at 0 because their constraints cancel: >=3 incident constrained edges, or <=2 in the unguarded initialisation (odd order or smooth_normals off) when the chart angles of the edges are opposite (exact Gaussian-integer predicate on planar lattice inputs with the flat connection, |sum exp(i*order*angle)| < 1e-6 on the connection's own angles otherwise, taken from the library only under cad_correction which rewrites those angles); in the guarded initialisation (smooth_normals, even order) a vertex with <=2 constrained edges is never excluded; dihedral angles within 1e-6 of the feature threshold",
    "eigen-solver start vector (closed surfaces) and ARPACK are seeded from VERIF_SEED (np.random.seed before each execution; scipy.sparse.linalg.eigsh, which scipy >= 1.15 seeds from OS entropy, is rebound to a version seeded from VERIF_SEED during each execution and restored in a finally); only seed-independent clauses are asserted there (unit modulus, index quantum and sum)",
    "excluded and counted (excluded_singular_smoothing_system): closed input without constrained element, n_smooth > 0, and a singular connection Laplacian (smallest eigenvalue of the independently assembled operator < 1e-9 x the largest: the order-n connection is trivial, e.g. order 4 on the octahedron's vertices, even orders on the tetrahedron's faces): the library's smoothing matrix lap - alpha*A is then exactly singular for the exact attach weight and whether the solver returns a unit field or NaN is a matter of round-off (reported as a finding, not asserted)",
    "relabeling / face-start invariance is asserted with smoothing switched off and cad_correction off (OSQP's 1e-3 tolerance is not round-off)",
    "histories have length two, one fresh mesh object per pair; the first field is not used again after the second one was built (FeatureEdgeDetector results of successive fields share the mesh's 'corners'/'feature' attributes by design)",
    "the duplicate-attribute switch is set and restored by the runner around the whole task (mc/runner.py, dupflag variant); each such task verifies on a scratch container that a second create_attribute under one name returns the first attribute (and returns a new one in the regular tasks)",
    "unit of length: multiplying every coordinate by 2^-48 or 2^48 is exact (asserted per input), every asserted quantity is dimensionless, so the expectations are those of unit scale with the same tolerances; the exact lattice predicates are evaluated on the coordinates divided by the factor again (exact); measured on the unchanged tree: all bordered inputs and all closed ones with n_smooth=0 on faces are right from 2^-60 to 2^60, the three scale-dependent defects found (attach weight of the smoothing steps on closed surfaces below ~2^-17 and above 2^24, eigen-solve of the closed vertex-based field above ~2^16) are reported, not excluded",
    "config.sort_neighborhoods is a documented switch of mouette.config ('sort the corner connectivity arrays'): the statement holds for either value; it is set immediately before the mesh is built, left in place while the field is computed and flagged, and restored in a finally (each task verifies it at its end); C18.sort.* compare with the run under sorted rings through directions measured against the mesh's own edges only (the local bases may legitimately start from another ring edge)",
    "the comparisons between listings under sort=False (face / vertex in position 0) are not asserted where the constraint itself depends on the listing: the two classes of the known findings (a face with two constrained edges; crease vertices with the geometric initialisation), border corners whose two edge contributions are exactly opposite (one of the two edges is kept: which one follows the edge numbering), and inputs without constrained element (eigenvector with a seeded random start); they are counted (dev_not_asserted:*), every per-execution clause still applies to them",
    "documented defaults (table DOC_SIGNATURES, copied from the signatures and the 'Defaults to' lines of the unchanged tree; where prose and signature disagree - tol of inverse_power_method - the signature is the reference): an omitted option means its documented default and a positional option means the same as by keyword; the two calls of a comparison are made on fresh meshes built from the same lists with the same seeds, fields compared to 1e-7 (measured run-to-run noise 4e-16, OSQP 1.x does not adapt rho by wall-clock); a signature that differs from the table is reported as a violation of C18.defaults.signature; undocumented keyword defaults of the internal classes (FrameField2DFaces / FrameField2DVertices **kwargs) are not asserted",
    "lattice polygons: integer coordinates, no three points collinear (exact), all triangulations by flips from an ear-clipping start; corner turning angles and the 'exactly opposite contributions' relation order*turning = 180 mod 360 are decided in integer arithmetic",
    "planar domains: 'reduces to the scalar Laplacian for a flat connection' is read as a statement about every flat connection, not only about the classes FlatConnectionVertices / FlatConnectionFaces: the connection of a planar domain (every z exactly 0) is flat wherever the library does not deliberately snap a chart; the vertex connection snaps the chart of a border (feature) vertex to the nearest positive multiple of 2*pi/order (FeatureEdgeDetector.corners, documented: 'corners of angle defect 2pi/corner_order'), so the clauses are asserted only at border vertices whose angle IS such a multiple, decided exactly (Gaussian integers on the square lattice, Eisenstein integers on the triangular lattice, direction indices of the 36-degree turtle polygon; the coordinates of the triangular lattice and of the turtle polygon carry round-off of 1e-16, which cannot move round() or the 1e-6 tolerance) - elsewhere the outcome is only recorded (finish demands that it differs somewhere); for the orders 1 and 2 no simple polygon has only such angles, so the field clause of the vertex-based field covers the orders 3-6 (the Laplacian clause also order 2, at mid-side vertices); measured on the unchanged tree: agreement to 1e-13 for both elements, smoothing on and off; the collinear border points of the specimens with mid-side vertices make some triangulations unreachable by flips through degenerate quadrilaterals: the family is 'reachable from the ear-clipping start', counts pinned in PINNED_COMM",
    "observer calls: export_as_mesh ('Exports the frame field ... for visualization'), flag_singularities ('Detects singularities'), __getitem__ and the accessors of the connection are read-only by their documentation, run() on a field that has been run and normalize() on a normalised field are no-ops up to one unit in the last place; state = variables, all local bases, all parallel-transport angles, compared to 1e-12 around every call; the index comparison with the field that was only run is made only where the state is bitwise unchanged (normalize() may move a value by an ulp, which flips the branch matching at exact ties, e.g. the regular tetrahedron); a call that raises is recorded as an outcome, not reported (the statement does not speak about exports)",
    "re-used detectors: FeatureEdgeDetector is documented as a worker whose object 'can be given as a parameter in ... frame field algorithms' and run()/detect() 'Runs the detection on a provided mesh': its result describes the mesh of the LAST run; custom_features / custom_connection are documented arguments of SurfaceFrameField; the reference is a detector with the same options created for the mesh and run once (for the form with custom_connection: the connection built from it in the same way), compared through feature edges (vertex pairs), constraints (same local bases: fresh meshes from the same lists) and edge-relative directions; the features switch is left on (the documentation says the custom features are ignored when it is off, the code uses them: not asserted either way)",
]
BOUNDS = {
    "quick": "TRI(P) for the 7 point sets with <=6 vertices (30 triangulations), lifted grids 3x3 and 3x4, 5 closed meshes; per mesh: order 1-6 x element x n_smooth {0,1,3} in full with the switches within <=1 deviation (144 configurations) + 24 flat-connection configurations on the planar version; relabelings (n_smooth=0, cad off): all n! for n<=4 (24 cfgs), all 5! on one pentagon triangulation and every transposition on the other 5-vertex meshes (12 cfgs); face-listing deviations <=2 on n<=4, <=1 on n=5 (24 cfgs); lattice polygons trap, trap+1, rect+1, rtri+1, para+1, ell (17 triangulations): the same sweep with the inert features switch left on (108 + 24 flat configurations); histories: 216 ordered pairs (same element: order or n_smooth differs; other element: all order pairs, n_smooth 0) on each of 14 meshes (TRI of the <=5-point sets with interior vertices, grid 3x3, tetrahedron, octahedron, torus 3x3, TRI(trap+1), TRI(rtri+1)) + the 48 features-only pairs (element x order x n_smooth {0,3}, on->off and off->on) on the 3 of them with sharp interior edges; all history tasks a second time with display_duplicate_attribute_warning=True; deviation dimensions (unit 2^-48, unit 2^48, sort_neighborhoods=False): 31 meshes (first and last triangulation of each of the 7 point sets and 6 lattice polygons, both grids, the 5 closed meshes) x element; per mesh 28 vertex / 20 face configurations (24 / 16 on lattice polygons) + 4 flat-connection ones per element, each run 4 times (reference, 2 units, unsorted rings); every face in position 0 and every vertex in position 0 under unsorted rings for the orders 1 and 4, smoothing off; argument forms: 11 entry points (31 options) on a 5x4 grid folded along a sharp ridge and the icosahedron (operators and connections also on the octahedron), inverse_power_method also on a 4x4 diagonal matrix with eigenvalue ratio 1.02 (documented maxiter binding): ~800 calls; planar commensurable domains: first and last triangulation of each of the 10 polygons (20 meshes) x element x 48 (vertices) / 24 (faces) configurations x 2 connections; observer calls: 5 meshes (lifted 3x3 grid, first triangulation of q4+1, tetrahedron, 3x3 torus, first triangulation of the lattice trapezoid) x element x 12 configurations x every word of length 1 (length <= 2 for the orders 3, 4 with smoothing off): 254 sequences per mesh; re-used detectors: 3 target meshes (lifted 3x3 grid, 5x4 grid folded along a sharp ridge, first triangulation of p5+1) x element x 8 configurations x 2 forms x (reference + 8 histories), compute_feature_graph=True",
    "thorough": "TRI(P) for all 13 point sets up to 8 vertices (387 triangulations), grids, closed meshes; switches within <=2 deviations for n<=6, grids and closed meshes (270 + 48 flat configurations per mesh), <=1 for n=7 (144+24), order x element x n_smooth only for n=8 (36+24); relabelings: all n! for n<=5 (42 cfgs n<=4, 24 cfgs n=5), all 6! on one triangulation of each 6-point set (12 cfgs), every transposition on the other 6-vertex meshes (24 cfgs), on every 3rd 7-vertex and every 8th 8-vertex mesh (12 cfgs) and on the 3x3 grid (24 cfgs); face-listing deviations <=2 for n<=5, <=1 for n=6 and every 6th mesh with n>=7 (24 cfgs); lattice polygons: all 11 sets (91 triangulations), switches within <=2 deviations for n<=6, <=1 for n=7; histories: all 552 ordered pairs of element x order x n_smooth {0,3} on each of 94 meshes (TRI of the <=6-point sets with interior vertices, grid 3x3, 5 closed meshes, TRI of the 7 lattice sets with an interior point) + the 48 features-only pairs on those with sharp interior edges; all history tasks a second time with display_duplicate_attribute_warning=True; deviation dimensions: every triangulation of the point sets with <= 6 points and every 4th of the larger ones, all triangulations of the 11 lattice polygons, grids, closed meshes; single-switch deviations and the flat connection for all orders 1-6; same units (2^-48, 2^48) and position-0 listings as quick; argument forms: as quick + the lifted 3x4 grid and the 3x3 torus; planar commensurable domains: all 189 triangulations of the 10 polygons; observer calls: 13 meshes (+ lifted 3x4 grid, octahedron, icosahedron, 3x4 torus, the other triangulations of q4+1, first of p5+1, first of the lattice right triangle), every word of length <= 2 (<= 3 for the orders 3, 4 with smoothing off); re-used detectors: 5 target meshes (+ lifted 3x4 grid, first triangulation of q4+2) x 12 configurations x compute_feature_graph on / off",
}

SEED = int(os.environ.get("VERIF_SEED", "0") or 0)
TOL = 1e-6
LATTICE_QUICK = ["trap", "trap+1", "rect+1", "rtri+1", "para+1", "ell"]
LATTICE_ALL = LATTICE_QUICK + ["house", "house+1", "ell+1", "hex", "hex+1"]
HISTORY_LATTICE_QUICK = ["trap+1", "rtri+1"]
PINNED_LATTICE = {"trap": 2, "trap+1": 3, "rect+1": 3, "rtri+1": 1, "para+1": 3, "house": 5, "house+1": 10, "ell": 5, "ell+1": 9,
                  "hex": 14, "hex+1": 36}
QUICK_SETS = ["t3+1", "q4", "q4+1", "t3+2", "p5", "p5+1", "q4+2"]
ALL_SETS = ["t3+1", "q4", "q4+1", "t3+2", "p5", "p5+1", "q4+2", "h6", "h6+1", "p5+2", "h7", "h6+2", "h8"]
PINNED_COUNTS = {"t3+1": 1, "q4": 2, "q4+1": 3, "t3+2": 2, "p5": 5, "p5+1": 11, "q4+2": 6, "h6": 14, "h6+1": 36,
                 "p5+2": 25, "h7": 42, "h6+2": 108, "h8": 132}


# ------------------------------------------------------------------------------------------ inputs
def _tri_family(name):
    from mc import families as F
    from mc import c18_lib as L
    P, nh = L.POINT_SETS[name]
    assert L.general_position(P, nh), name
    T = F.tri_enum(P, L.start_triangulation(P, nh))
    assert len(T) == PINNED_COUNTS[name], (name, len(T))
    return P, [[list(t) for t in tri] for tri in T]


def _lattice_family(name):
    """all triangulations of a planar lattice polygon (+ interior points), kept planar (z = 0)"""
    from mc import families as F
    from mc import c18_lib as L
    P, nb = L.LATTICE_SETS[name]
    assert L.lattice_general_position(P, nb), name
    T = F.tri_enum(P, L.polygon_start_triangulation(P, nb))
    assert len(T) == PINNED_LATTICE[name], (name, len(T))
    return P, [[list(t) for t in tri] for tri in T]


def _grid(k, l):
    from mc import families as F
    pts, faces = F.grid(k, l, "tri", z=lambda i, j: (i * i + j * j) / 8.0)
    return [list(map(float, p)) for p in pts], [list(f) for f in faces]


def _closed():
    from mc import families as F
    out = []
    for name, (p, f) in (("tetrahedron", F.tetrahedron_surface()), ("octahedron", F.octahedron()),
                         ("icosahedron", F.icosahedron()), ("torus3x3", F.torus_grid(3, 3)), ("torus3x4", F.torus_grid(3, 4))):
        out.append((name, [list(map(float, q)) for q in p], [list(t) for t in f]))
    return out


def _configs(el, maxdev=2, flat=False, inert=()):
    """order x n_smooth in full; the boolean switches within <= maxdev deviations of the defaults (all True).
    `inert`: switches that cannot change anything on the input (features on a planar mesh) and are left at their default."""
    out = []
    if flat:
        for order in range(1, 7):
            for ns in (0, 3):
                for cot in ((True, False) if maxdev >= 2 else (True,)):
                    out.append({"el": el, "order": order, "ns": ns, "feat": True, "cot": cot, "cad": False, "sn": True, "flat": True})
        return out
    switches = [w for w in ["feat", "cot"] + (["cad", "sn"] if el == "vertices" else []) if w not in inert]
    for order in range(1, 7):
        for ns in (0, 1, 3):
            for k in range(maxdev + 1):
                for dev in itertools.combinations(switches, k):
                    c = {"el": el, "order": order, "ns": ns, "feat": True, "cot": True, "cad": True, "sn": True, "flat": False}
                    for d in dev:
                        c[d] = False
                    if el == "faces":
                        c["cad"] = False      # not an option of the face-based field
                    out.append(c)
    return out


def _inv_configs(level):
    """configurations of the invariance clauses: smoothing off, cad_correction off, order x element in full.
    level 0: 12 (vertices: border features only, faces: features on); 1: features on/off (24); 2: + uniform weights,
    + smooth_normals off (42)."""
    out = []
    for el in ("vertices", "faces"):
        for order in range(1, 7):
            base = {"el": el, "order": order, "ns": 0, "feat": True, "cot": True, "cad": False, "sn": True, "flat": False}
            if level == 0:
                out.append(dict(base, feat=(el == "faces")))
                continue
            out.append(base)
            out.append(dict(base, feat=False))
            if level >= 2:
                out.append(dict(base, cot=False))
                if el == "vertices":
                    out.append(dict(base, sn=False))
    return out


def _hist_configs():
    """configurations of the history dimension: element x order 1-6 x n_smooth {0,3}, default switches (cad_correction off):
    indices 0-23; the same with the features switch off (border edges only): indices 24-47 (index i + 24 = configuration i
    with features=False)"""
    return [{"el": el, "order": order, "ns": ns, "feat": feat, "cot": True, "cad": False, "sn": True, "flat": False}
            for feat in (True, False) for el in ("faces", "vertices") for order in range(1, 7) for ns in (0, 3)]


NHIST = 24
UNIT_EXPS = [-48, 48]        # unit-of-length deviation: every coordinate times 2^-48 / 2^48 (exact in binary floating point)


def _dev_configs(el, flat=False, inert=(), full=False):
    """configurations run under the deviation dimensions (unit of length, unsorted vertex rings).  Reference switches = the
    defaults with cad_correction off (OSQP's 1e-3 tolerance is not round-off): order 1-6 x n_smooth {0,3}; every single-switch
    deviation from them (features off, uniform weights; vertices: smooth_normals off, cad_correction on) x n_smooth {0,3} for
    the orders 3 and 4 (all orders when `full`).  flat: the library's flat connection (on the planar version of the input),
    orders 1 and 4 (all when `full`) x n_smooth {0,3}."""
    ref = {"el": el, "order": 4, "ns": 0, "feat": True, "cot": True, "cad": False, "sn": True, "flat": bool(flat)}
    some = list(range(1, 7)) if full else [3, 4]
    if flat:
        return [dict(ref, order=order, ns=ns) for order in (some if full else [1, 4]) for ns in (0, 3)]
    out = [dict(ref, order=order, ns=ns) for order in range(1, 7) for ns in (0, 3)]
    devs = [("feat", False), ("cot", False)] + ([("sn", False), ("cad", True)] if el == "vertices" else [])
    for order in some:
        for ns in (0, 3):
            out += [dict(ref, order=order, ns=ns, **{k: v}) for k, v in devs if k not in inert]
    return out


def _zero_configs(el):
    """configurations of the 'every face / every vertex in position 0' listings: smoothing off, reference switches"""
    return [c for c in _dev_configs(el) if c["ns"] == 0 and c["order"] in (1, 4) and c["feat"] and c["cot"] and c["sn"] and not c["cad"]]


def _hist_feature_pairs():
    """ordered pairs differing in the features switch only (48): on, then off / off, then on, on the same mesh object"""
    return [[i, i + NHIST] for i in range(NHIST)] + [[i + NHIST, i] for i in range(NHIST)]


def _features_not_inert(pts, faces):
    """some interior edge is sharper than the documented feature threshold (normals' dot product < 0.5, margin 1e-6):
    the features switch changes the set of constrained elements (decided on the raw point / face lists)"""
    from mc import c18_lib as L
    return any(d < 0.5 - 1e-6 for d in L.Geo(pts, [tuple(f) for f in faces]).dihedral_dots().values())


def _hist_pairs(tier):
    """ordered pairs (A, B), A != B, of indices into _hist_configs(): field A then field B on the same mesh object.
    quick (216): same element: every pair differing in the order only or in n_smooth only (2 x 72); other element: every
    pair of orders with n_smooth 0 (72).  thorough (552): all ordered pairs."""
    C = _hist_configs()[:NHIST]
    out = []
    for i, A in enumerate(C):
        for j, B in enumerate(C):
            if i == j:
                continue
            if tier != "quick":
                out.append([i, j])
            elif A["el"] == B["el"]:
                if (A["order"] != B["order"]) != (A["ns"] != B["ns"]):
                    out.append([i, j])
            elif A["ns"] == 0 and B["ns"] == 0:
                out.append([i, j])
    return out


def _transpositions(n):
    out = []
    for a in range(n):
        for b in range(a + 1, n):
            q = list(range(n)); q[a], q[b] = q[b], q[a]; out.append(q)
    return out


def tasks(tier):
    from mc import c18_lib as L
    out = []
    quick = tier == "quick"
    sets = QUICK_SETS if quick else ALL_SETS
    fam = {}          # point set -> [(name, n, P, faces)]
    for s in sets:
        P, tris = _tri_family(s)
        fam[s] = [(f"{s}#{i}", len(P), P, tri) for i, tri in enumerate(tris)]
    meshes = [m for s in sets for m in fam[s]]
    # ---- sweep of the configurations, one task per (mesh, element)
    for name, n, P, tri in meshes:
        maxdev = 1 if quick else (2 if n <= 6 else (1 if n == 7 else 0))
        for el in ("vertices", "faces"):
            out.append({"kind": "sweep", "mesh": name, "pts": L.lift(P), "faces": tri, "el": el, "planar": [list(p) for p in P],
                        "maxdev": maxdev})
    for k, l in ((3, 3), (3, 4)):
        p, f = _grid(k, l)
        for el in ("vertices", "faces"):
            out.append({"kind": "sweep", "mesh": f"grid{k}x{l}", "pts": p, "faces": f, "el": el,
                        "planar": [[q[0], q[1]] for q in p], "maxdev": 1 if quick else 2})
    for name, p, f in _closed():
        for el in ("vertices", "faces"):
            out.append({"kind": "sweep", "mesh": name, "pts": p, "faces": f, "el": el, "planar": None, "maxdev": 1 if quick else 2})
    # ---- planar lattice polygons with exact 45 / 90 / 135 degree border corners (kept planar: default and flat connection)
    lat = {}
    for s in (LATTICE_QUICK if quick else LATTICE_ALL):
        P, tris = _lattice_family(s)
        lat[s] = [(f"lat:{s}#{i}", len(P), P, tri) for i, tri in enumerate(tris)]
        for name, n, P, tri in lat[s]:
            for el in ("vertices", "faces"):
                out.append({"kind": "sweep", "mesh": name, "pts": L.flat(P), "faces": tri, "el": el, "planar": [list(p) for p in P],
                            "maxdev": 1 if quick else (2 if n <= 6 else 1), "inert": ["feat"]})
    # ---- histories: two fields built, run and flagged one after the other on the same mesh object
    hist = []
    for s in sets:
        P0, nh = L.POINT_SETS[s]
        if len(P0) > nh and (len(P0) <= 5 or not quick) and len(P0) <= 6:      # point sets with interior vertices
            hist += [(name, L.lift(P), tri) for name, n, P, tri in fam[s]]
    p, f = _grid(3, 3)
    hist.append(("grid3x3", p, f))
    hist += [(name, p, f) for name, p, f in _closed() if not quick or name in ("tetrahedron", "octahedron", "torus3x3")]
    for s in lat:
        if len(L.LATTICE_SETS[s][0]) > L.LATTICE_SETS[s][1] and (not quick or s in HISTORY_LATTICE_QUICK):
            hist += [(name, L.flat(P), tri) for name, n, P, tri in lat[s]]
    pairs = _hist_pairs(tier)
    HCH = 48
    for name, p, f in hist:
        for i in range(0, len(pairs), HCH):
            out.append({"kind": "history", "mesh": name, "pts": p, "faces": f, "pairs": pairs[i:i + HCH]})
        if _features_not_inert(p, f):
            # the features switch in the history: only where it changes the set of constrained elements
            out.append({"kind": "history", "mesh": name, "pts": p, "faces": f, "pairs": _hist_feature_pairs(), "features_pairs": True})
    # ---- deviation dimensions: unit of length (coordinates x 2^e) and config.sort_neighborhoods = False, one task per
    # (mesh, element): quick = first and last triangulation of every point set / lattice polygon, grids, closed meshes
    def ends(lst):
        return lst if not quick else ([lst[0], lst[-1]] if len(lst) > 1 else lst[:1])
    devm = []
    for s in sets:
        if quick or len(fam[s][0][2]) <= 6:
            devm += [(name, L.lift(P), tri, [list(p) for p in P], []) for name, n, P, tri in ends(fam[s])]
        else:
            devm += [(name, L.lift(P), tri, [list(p) for p in P], []) for name, n, P, tri in fam[s][::4]]
    for k, l in ((3, 3), (3, 4)):
        p, f = _grid(k, l)
        devm.append((f"grid{k}x{l}", p, f, [[q[0], q[1]] for q in p], []))
    devm += [(name, p, f, None, []) for name, p, f in _closed()]
    for s in lat:
        devm += [(name, L.flat(P), tri, [list(p) for p in P], ["feat"]) for name, n, P, tri in ends(lat[s])]
    for name, p, f, planar, inert in devm:
        for el in ("vertices", "faces"):
            out.append({"kind": "deviation", "mesh": name, "pts": p, "faces": f, "el": el, "planar": planar, "inert": inert,
                        "exps": UNIT_EXPS, "full": not quick})
    # ---- planar commensurable domains: connection built by the field vs flat connection (quick: first and last triangulation)
    for s_ in sorted(PINNED_COMM):
        P, tris = _comm_family(s_)
        members = [(i, tri) for i, tri in enumerate(tris)]
        for i, tri in ends(members):
            for el in ("vertices", "faces"):
                out.append({"kind": "flatdomain", "mesh": "%s#%d" % (s_, i), "comm": s_, "pts": [list(q) for q in P], "faces": tri, "el": el})
    # ---- observer calls between run() and the final flag_singularities() on one field object
    obs = []
    p, f = _grid(3, 3)
    obs.append(("grid3x3", p, f))
    obs += [(name, L.lift(P), tri) for name, n, P, tri in (fam["q4+1"] if not quick else fam["q4+1"][:1])]
    obs += [(name, p, f) for name, p, f in _closed() if not quick or name in ("tetrahedron", "torus3x3")]
    obs += [(name, L.flat(P), tri) for name, n, P, tri in lat["trap+1"][:1]]
    if not quick:
        p, f = _grid(3, 4)
        obs.append(("grid3x4", p, f))
        obs += [(name, L.lift(P), tri) for name, n, P, tri in fam["p5+1"][:1]]
        obs += [(name, L.flat(P), tri) for name, n, P, tri in lat["rtri+1"][:1]]
    for name, p, f in obs:
        for el in ("vertices", "faces"):
            for orders in ([list(range(1, 7))] if quick else [[o] for o in range(1, 7)]):
                out.append({"kind": "observers", "mesh": name, "pts": p, "faces": f, "el": el, "orders": orders,
                            "depth": 1 if quick else 2, "deep": 2 if quick else 3})
    # ---- re-used FeatureEdgeDetector objects handed to the field as custom_features (alone / with a connection built from them)
    from mc import families as F
    big = F.grid(6, 5, "tri")
    big = ("grid6x5:folded", _fold([list(map(float, q)) + [0.0] * (3 - len(q)) for q in big[0]]), [list(t) for t in big[1]])
    tet = [(name, p, f) for name, p, f in _closed() if name == "tetrahedron"][0]
    targets = [("grid3x3", ) + _grid(3, 3), [m for m in _dflt_meshes("quick") if m[0] == "ridge5x4"][0]]
    targets += [(name, L.lift(P), tri) for name, n, P, tri in fam["p5+1"][:1]]
    if not quick:
        targets.append(("grid3x4", ) + _grid(3, 4))
        targets += [(name, L.lift(P), tri) for name, n, P, tri in fam["q4+2"][:1]]
    for name, p, f in targets:
        others = [[name + ":folded", _fold(p), f], list(tet), list(big)]
        for el in ("vertices", "faces"):
            for graph in ((True,) if quick else (True, False)):
                out.append({"kind": "reuse", "mesh": name, "pts": [list(q) for q in p], "faces": f, "el": el, "others": others,
                            "graph": graph, "full": not quick})
    # ---- relabelings: (perms, level of the configuration set)
    CH = 40
    for s in sets:
        for idx, (name, n, P, tri) in enumerate(fam[s]):
            last = len(fam[s]) - 1
            if n <= 4:
                perms, level = [list(p) for p in itertools.permutations(range(n))][1:], (1 if quick else 2)
            elif n == 5:
                if quick:
                    full = (s == "p5" and idx == last)
                    perms, level = ([list(p) for p in itertools.permutations(range(n))][1:] if full else _transpositions(n)), 0
                else:
                    perms, level = [list(p) for p in itertools.permutations(range(n))][1:], 1
            elif n == 6:
                if quick:
                    continue
                if idx == last:
                    perms, level = [list(p) for p in itertools.permutations(range(n))][1:], 0
                else:
                    perms, level = _transpositions(n), 1
            elif n == 7:
                if quick or idx % 3:
                    continue
                perms, level = _transpositions(n), 0
            else:
                if quick or idx % 8:
                    continue
                perms, level = _transpositions(n), 0
            for i in range(0, len(perms), CH):
                out.append({"kind": "relabel", "mesh": name, "pts": L.lift(P), "faces": tri, "perms": perms[i:i + CH], "level": level})
    if not quick:
        p, f = _grid(3, 3)
        out.append({"kind": "relabel", "mesh": "grid3x3", "pts": p, "faces": f, "perms": _transpositions(9), "level": 1})
    # ---- face listing deviations (start rotations of faces, swaps of adjacent faces)
    for s in sets:
        for idx, (name, n, P, tri) in enumerate(fam[s]):
            if quick:
                dev = 2 if n <= 4 else (1 if n == 5 else 0)
            else:
                dev = 2 if n <= 5 else (1 if (n == 6 or idx % 6 == 0) else 0)
            if dev:
                out.append({"kind": "listing", "mesh": name, "pts": L.lift(P), "faces": tri, "dev": dev})
    # ---- documented defaults and call forms of the public entry points
    out += _dflt_tasks(tier)
    return out


# ------------------------------------------------------------------------------------------ running the library
# deviation under which the current execution is made (set by _deviation only, always reset in a finally):
# 'cls' = suffix of the input class (':unit=2^-48', ':sort=False', ...), 'scale' = the exact power of two every coordinate
# was multiplied by (the exact lattice predicates are evaluated on the coordinates divided by it again)
DEV = {"cls": "", "scale": 1.0}


def _icls(geo, cfg):
    return "%s:%s:%s:%s:%s%s" % ("order4" if cfg["order"] == 4 else "order!=4", cfg["el"],
                                 "closed" if geo.closed else "bordered", "ns0" if cfg["ns"] == 0 else "ns>0",
                                 "feat" if cfg["feat"] else "nofeat", ":flatconn" if cfg["flat"] else "")


def _callee(cfg):
    return "SurfaceFrameField(%s)" % cfg["el"]


class Run:
    __slots__ = ("ok", "exc", "msg", "stage", "f", "mesh", "var0", "var", "faces", "singuls", "sing_exc", "observed")


# ---- observer calls: public methods of a computed field object that only read it (documented as exports / queries) or that
# are documented no-ops on a field that has been run; applied between run() and the final flag_singularities()
OBSERVERS = ["export", "export_rv", "flag", "normalize", "run", "read"]
OBSERVER_CALLEE = {"export": "export_as_mesh", "export_rv": "export_as_mesh(repr_vector=True)", "flag": "flag_singularities",
                   "normalize": "normalize", "run": "run (second call)", "read": "__getitem__ / conn.base / conn.transport"}


def _observer_menu(el):
    return [o for o in OBSERVERS if not (o == "export_rv" and el != "vertices")]


def _observer_sequences(el, depth):
    """every sequence of observer calls of length 1 ... depth"""
    menu = _observer_menu(el)
    return [list(s) for k in range(1, depth + 1) for s in itertools.product(menu, repeat=k)]


def _field_state(f, mesh, el):
    """everything later queries of a computed field read: the variables, the local bases and the parallel transport"""
    import numpy as np
    n = len(mesh.vertices) if el == "vertices" else len(mesh.faces)
    bases = np.array([[[float(c) for c in v] for v in f.conn.base(i)] for i in range(n)])
    if el == "vertices":
        pairs = sorted((int(a), int(b)) for e in mesh.edges for a, b in (tuple(e), tuple(e)[::-1]))
    else:
        nb = {}
        for t, fc in enumerate(mesh.faces):
            for i in range(3):
                nb.setdefault(tuple(sorted((int(fc[i]), int(fc[(i + 1) % 3])))), []).append(t)
        pairs = sorted(p for ts in nb.values() if len(ts) == 2 for p in (tuple(ts), tuple(ts[::-1])))
    return {"variables": np.array(f.var, dtype=complex).copy(), "local_bases": bases,
            "parallel_transport": np.array([float(f.conn.transport(a, b)) for a, b in pairs])}


def _apply_observer(f, mesh, el, name):
    if name == "export":
        return call(f.export_as_mesh)
    if name == "export_rv":
        return call(f.export_as_mesh, repr_vector=True)
    if name == "flag":
        return call(f.flag_singularities)
    if name == "normalize":
        return call(f.normalize)
    if name == "run":
        return call(f.run)
    n = len(mesh.vertices) if el == "vertices" else len(mesh.faces)
    return call(lambda: ([complex(f[i]) for i in range(n)], [f.conn.base(i) for i in range(n)]))


def _execute(M, pts, faces, cfg, want_sing, mesh=None, extra=None, observers=None):
    """Fresh mesh (or the given mesh object, already used by earlier fields) -> SurfaceFrameField -> initialize
    (constraints captured) -> run -> [observer calls, the state of the field recorded around each] -> flag_singularities.
    `extra`: further keyword arguments (custom_features / custom_connection objects built by the caller on `mesh`)."""
    import numpy as np
    from mc import families as F
    from mouette import framefield as ff
    r = Run()
    r.ok, r.exc, r.msg, r.stage, r.singuls, r.sing_exc, r.observed = False, None, "", "build", None, None, None
    if mesh is None:
        mesh = F.build_surface(pts, faces)
    r.mesh = mesh
    r.faces = [tuple(int(v) for v in mesh.faces[t]) for t in range(len(mesh.faces))]
    kw = dict(order=cfg["order"], features=cfg["feat"], n_smooth=cfg["ns"], use_cotan=cfg["cot"],
              cad_correction=cfg["cad"], smooth_normals=cfg["sn"])
    if cfg["flat"]:
        Conn = M.processing.FlatConnectionVertices if cfg["el"] == "vertices" else M.processing.FlatConnectionFaces
        kw["custom_connection"] = Conn(mesh)
    if extra:
        kw.update(extra)
    np.random.seed(SEED)
    r.stage = "construct"
    # seam: scipy >= 1.15 draws ARPACK's start vector from np.random.default_rng(None) (OS entropy) unless told otherwise: the
    # attach weight of the smoothing steps then differs in its last digits from run to run.  The module attribute the library
    # calls (scipy.sparse.linalg.eigsh) is rebound to a version seeded from VERIF_SEED for the duration of the execution.
    import scipy.sparse.linalg as spl
    eigsh0 = spl.eigsh

    def eigsh_seeded(*a, **k):
        if k.get("v0") is None and k.get("rng") is None:
            k["rng"] = np.random.default_rng(SEED)
        return eigsh0(*a, **k)
    spl.eigsh = eigsh_seeded
    try:
        o = call(ff.SurfaceFrameField, mesh, cfg["el"], **kw)
        if o.ok:
            r.f = o.value
            r.stage = "initialize"
            o = call(r.f.initialize)
        if o.ok:
            r.var0 = np.array(r.f.var, dtype=complex).copy()
            r.stage = "run"
            o = call(r.f.run)
    finally:
        spl.eigsh = eigsh0
    if not o.ok:
        r.exc, r.msg = o.exc, o.msg
        return r
    r.ok = True
    if observers:
        # the state of the field before the first and after every observer call: the first call that changes it is named
        r.observed = {"sequence": list(observers), "culprit": None, "raised": [], "bitwise_unchanged": True}
        before = _field_state(r.f, mesh, cfg["el"])
        for k, name in enumerate(observers):
            oo = call(_apply_observer, r.f, mesh, cfg["el"], name)
            oo = oo.value if oo.ok else oo
            if not oo.ok:
                r.observed["raised"].append([k, name, oo.exc, oo.msg[:200]])
            after = _field_state(r.f, mesh, cfg["el"])
            for key in before:
                a, b = before[key], after[key]
                if a.shape != b.shape or not np.array_equal(a, b):
                    r.observed["bitwise_unchanged"] = False      # normalize() may move a value by one unit in the last place
                if r.observed["culprit"] is None and (a.shape != b.shape or not np.allclose(a, b, rtol=0.0, atol=1e-12, equal_nan=True)):
                    i = int(np.argmax(np.abs(np.nan_to_num(a - b)).reshape(len(a), -1).max(axis=1))) if a.shape == b.shape else -1
                    r.observed["culprit"] = {"position": k, "call": name, "changed": key, "element": i,
                                             "before": np.ravel(a[i]).tolist() if i >= 0 else None,
                                             "after": np.ravel(b[i]).tolist() if i >= 0 else None}
            before = after
    r.var = np.array(r.f.var, dtype=complex).copy()
    if want_sing and cfg["el"] == "faces":
        o = call(r.f.flag_singularities)
        if o.ok:
            attr = mesh.vertices.get_attribute("singuls")
            r.singuls = {int(k): float(attr[k]) for k in attr}
        else:
            r.sing_exc = (o.exc, o.msg)
    return r


def _branch_parallel_err(z, order, theta):
    """smallest angle between the line of direction theta and one of the `order` branches of representation z"""
    a = cmath.phase(z)
    best = math.inf
    for k in range(order):
        d = ((a + 2 * math.pi * k) / order - theta + math.pi / 2) % math.pi - math.pi / 2
        best = min(best, abs(d))
    return best


def _chart_invariants(geo, transport, order, back):
    """gauge-free content of the vertex connection's charts: for every vertex u and every neighbour v,
    exp(i*order*(chart angle of u->v - chart angle of u->w0)), w0 = the neighbour of u with the smallest label; keys and the
    choice of w0 in the labels given by `back` (new label -> reference label)"""
    nb = {}
    for (u, v) in geo.he:
        nb.setdefault(u, set()).add(v); nb.setdefault(v, set()).add(u)
    out = {}
    for u, ring in nb.items():
        w0 = min(ring, key=lambda v: back[v])
        for v in ring:
            out[(back[u], back[v])] = cmath.exp(1j * order * (transport(u, v) - transport(u, w0)))
    return out


def _check(rep: Report, M, name, pts, faces, cfg, want_sing=True, relabel_tag=None, mesh=None, hist=None, ref=None, ref_back=None, want_chart=False,
           extra=None, observers=None, comm=None):
    """One execution of the real code + every clause of the statement that applies. Returns a dict used by the
    invariance clauses (None if the run failed): {'inv': key->complex, 'skip': reason or None}.
    `mesh`: run on this mesh object instead of a fresh one; `hist` = {'before': [configurations already run and flagged
    on that mesh object], 'cls': suffix of the input class, 'sub': subcheck prefix}: the clauses are then reported as
    C18.history.* (C18.history.dupflag.* when the run is made under config.display_duplicate_attribute_warning = True).
    `ref` (executions under config.sort_neighborhoods = False only): the result of the same input and configuration under sorted
    rings, `ref_back`: new label -> label in `ref`.  Root-cause gate of the vertex-based field: if the charts of the library's
    vertex connection (gauge-free: _chart_invariants) are not those found under sorted rings, exactly that is reported
    (C18.sort.vertex_connection) and the other clauses, whose expectations are all phrased relative to those charts, are not
    evaluated on this execution (result {'gated': True}).
    `extra`: custom_features / custom_connection objects handed to the entry point; `observers`: sequence of observer calls made
    between run() and the final flag_singularities() - root-cause gate: if one of them changes the state of the field (variables,
    local bases, parallel transport) exactly that is reported (C18.observer.state_unchanged, callee = that call) and the other
    clauses are not evaluated on this execution; `comm`: name of the commensurable polygon (mc/c18_lib.py COMM_SETS) the input is
    a triangulation of, unrelabelled (exact border-angle predicate of the planar-domain clause)."""
    import numpy as np
    from mc import c18_lib as L
    r = _execute(M, pts, faces, cfg, want_sing, mesh, extra=extra, observers=observers)
    rep.traces += 1
    rep.transitions += 3
    geo = L.Geo(pts, r.faces)
    icls = _icls(geo, cfg) + (hist["cls"] if hist else "") + DEV["cls"]
    callee = _callee(cfg)
    ctx = {"mesh": name, "pts": pts, "faces": [list(f) for f in r.faces], "cfg": cfg}
    if DEV["cls"]:
        ctx["deviation"] = DEV["cls"] + (" (every coordinate times %r)" % DEV["scale"] if DEV["scale"] != 1.0 else "") + (
            " (mouette.config.sort_neighborhoods = False while the mesh is built and processed)" if not M.config.sort_neighborhoods else "")
        rep.flag("dev%s:%s:%s" % (DEV["cls"], cfg["el"], "closed" if geo.closed else "bordered"))
    if relabel_tag is not None:
        ctx["relabel"] = relabel_tag
    if hist and hist["before"]:
        ctx["run_and_flagged_on_the_same_mesh_object_before"] = hist["before"]
    if observers:
        ctx["calls_between_run_and_the_final_flag_singularities"] = list(observers)
    if extra:
        ctx["handed_to_SurfaceFrameField"] = sorted(extra)

    def viol(sub, callee_, kind, icls_, detail):
        rep.violation((hist.get("sub", "C18.history.") + sub[len("C18."):]) if hist else sub, callee_, kind, icls_, detail)
    rep.case((name, relabel_tag, sorted(cfg.items()), [sorted(c.items()) for c in hist["before"]] if hist else None) + ((DEV["cls"],) if DEV["cls"] else ())
             + ((list(observers),) if observers else ()) + (((sorted(extra), hist["cls"] if hist else ""),) if extra else ()))
    rep.states += 1
    rep.flag("closed" if geo.closed else "bordered")
    rep.flag("el:" + cfg["el"])
    rep.outcome("run", "ok" if r.ok else "raises:" + str(r.exc))
    if [tuple(f) for f in faces] != r.faces:
        rep.count("note_faces_relisted_by_constructor")
    if not r.ok:
        viol("C18.run", callee + "." + r.stage, "raises:" + str(r.exc), icls, dict(ctx, msg=r.msg[:300]))
        return None
    f = r.f
    order, el = cfg["order"], cfg["el"]
    var, var0 = r.var, r.var0
    nel = len(var)
    rep.evaluations += 1
    if nel != (geo.n if el == "vertices" else len(geo.F)):
        viol("C18.unit_modulus", callee + ".var", "mismatch:size", icls, dict(ctx, got=nel))
        return None
    if r.observed is not None:
        rep.evaluations += len(r.observed["sequence"])
        for o in r.observed["sequence"]:
            rep.flag("observer:%s:%s" % (o, el))
        rep.outcome("observer_calls", "state_unchanged" if r.observed["culprit"] is None else "state_changed")
        for k, o, exc, msg in r.observed["raised"]:
            rep.outcome("observer_raises", "%s:%s" % (o, exc))
            rep.count("observer_call_raised")
        observed_bitwise = r.observed["bitwise_unchanged"]
        if r.observed["culprit"] is not None:
            c = r.observed["culprit"]
            rep.violation("C18.observer.state_unchanged", "FrameField2D%s.%s" % (el.capitalize(), OBSERVER_CALLEE[c["call"]]),
                          "side_effect:" + c["changed"], "%s:%s" % (el, "closed" if geo.closed else "bordered") + DEV["cls"],
                          dict(ctx, calls_after_run=r.observed["sequence"], first_call_that_changed_the_field=c))
            return {"gated": True}
    else:
        observed_bitwise = None
    chart = None
    if el == "vertices" and not cfg["flat"] and (ref is not None or want_chart):
        chart = _chart_invariants(geo, f.conn.transport, order, ref_back if ref_back is not None else list(range(geo.n)))
        if ref is not None and ref.get("chart") is not None and DEV["cls"] == ":sort=False":
            rep.evaluations += 1
            bad = [k for k in sorted(chart) if k not in ref["chart"] or not abs(chart[k] - ref["chart"][k]) < TOL]
            rep.outcome("vertex_connection_under_unsorted_rings", "same_charts" if not bad else "other_charts")
            if bad:
                u, v = bad[0]
                rep.violation("C18.sort.vertex_connection", "SurfaceConnectionVertices.transport", "mismatch:chart_angles",
                              "vertices:sort=False",
                              dict(ctx, vertex=u, neighbour=v, labels="those of the reference listing" if relabel_tag else "as listed",
                                   chart_angle_relative_to_the_edge_to_the_smallest_neighbour_times_order_as_unit_complex={
                                       "sorted_rings": complex(ref["chart"].get((u, v), 0)), "unsorted_rings": complex(chart[(u, v)])},
                                   ring_of_the_vertex_as_listed_by_the_library=[int(w) for w in r.mesh.connectivity.vertex_to_vertices(
                                       u if ref_back is None else ref_back.index(u))],
                                   edges_with_other_charts=len(bad)))
                rep.count("dev_not_asserted:vertex_connection_gated")
                return {"gated": True}

    # ---- constrained edges: border (mine) + the library's feature edges
    S = set(geo.border_edges)
    lib_feat = set()
    for e in f.feat.feature_edges:
        a, b = (int(x) for x in r.mesh.edges[e])
        lib_feat.add((min(a, b), max(a, b)))
    S |= lib_feat
    if lib_feat - geo.border_edges:
        rep.flag("interior_feature_edges")
    deg = [0] * geo.n
    for (a, b) in S:
        deg[a] += 1; deg[b] += 1
    if el == "vertices":
        fixed = [v for v in range(geo.n) if deg[v] > 0]
    else:
        fs = set()
        for e in S:
            fs.update(geo.edge_faces_list(e))
        fixed = sorted(fs)
    fixed_set = set(fixed)
    free = [i for i in range(nel) if i not in fixed_set]
    if fixed and free:
        rep.flag("fixed_and_free:" + el)
    if not free:
        rep.flag("all_fixed:" + el)

    # ---- local bases are direct orthonormal frames (the angles below are measured in them)
    bases = None
    if not cfg["flat"] or True:
        bases = []
        for i in range(nel):
            X, Y = f.conn.base(i)
            bases.append((np.array(X, dtype=float), np.array(Y, dtype=float)))
        for i, (X, Y) in enumerate(bases):
            rep.evaluations += 1
            if el == "faces":
                d = L.basis_defect(geo, i, X, Y)
            else:
                d = max(abs(X @ X - 1), abs(Y @ Y - 1), abs(X @ Y))
            if not d < 1e-9:
                viol("C18.connection.basis", "SurfaceConnection.base", "mismatch:not_orthonormal_tangent", icls,
                     dict(ctx, element=i, X=X, Y=Y, defect=d))
                break

    # ---- clause: "reduces to the scalar Laplacian for a flat connection", on the connection the field built itself.  The input is
    # planar (every z exactly 0): the face connection is flat; the vertex connection is flat wherever the library does not snap a
    # chart: at interior vertices (angle sum 2*pi) and at border vertices whose angle is a positive multiple of 2*pi/order (EXACT
    # predicate: Gaussian / Eisenstein integer arithmetic or direction indices; elsewhere the chart is deliberately rescaled to the
    # nearest multiple and nothing is asserted).  Flat = trivial up to the gauge of the local bases: with g_a the angle of the X
    # vector of element a in the plane, L_conn[a,b] * exp(-i*order*(g_b - g_a)) = L_scalar[a,b] for every pair of such elements.
    planar_flat = None      # None: clause not applicable; else True iff every constrained chart is unsnapped (field clause applies)
    if (not geo.closed and not cfg["flat"] and not cfg["cad"] and bool(np.all(geo.P[:, 2] == 0.0))
            and all(np.cross(X, Y)[2] > 0.5 for X, Y in bases)):
        if el == "faces":
            unsn = set(range(nel))
        else:
            nxt_ = {a: b for (a, b) in geo.he if (b, a) not in geo.he}
            prv_ = {b: a for a, b in nxt_.items()}
            unsn = set(range(geo.n)) - set(geo.border_vertices)
            ip_ = L.integer_planar([[c / DEV["scale"] for c in p] for p in pts] if DEV["scale"] != 1.0 else pts)
            for v in sorted(geo.border_vertices):
                if v not in nxt_ or v not in prv_ or len(nxt_) != len(geo.border_vertices):
                    continue
                if comm is not None and relabel_tag is None:
                    nbp = len(L.COMM_SETS[comm][1])
                    okv = v < nbp and nxt_[v] == (v + 1) % nbp and L.comm_border_angle_is_multiple(comm, v, order)
                elif ip_ is not None:
                    okv = L.gaussian_border_angle_is_multiple(ip_, prv_[v], v, nxt_[v], order)
                else:
                    okv = False
                if okv:
                    unsn.add(v)
                    rep.flag("flat_domain:unsnapped_border_vertex:order%d" % order)
        planar_flat = (el == "faces") or set(geo.border_vertices) <= unsn
        fnl = M.operators.laplacian if el == "vertices" else M.operators.laplacian_triangles
        o1 = call(fnl, r.mesh, cotan=cfg["cot"], connection=f.conn, order=order)
        o2 = call(fnl, r.mesh, cotan=cfg["cot"])
        if o1.ok and o2.ok:
            A = np.asarray(o1.value.todense(), dtype=complex)
            B = np.asarray(o2.value.todense(), dtype=complex)
            gx = [math.atan2(float(X[1]), float(X[0])) for X, Y in bases]
            tolL = 1e-6 * max(1.0, float(abs(B).max()))
            badL, nL = None, 0
            for a in range(nel):
                for b in range(nel):
                    if a == b or (A[a, b] == 0 and B[a, b] == 0) or a not in unsn or b not in unsn:
                        continue
                    nL += 1
                    e = abs(A[a, b] * cmath.exp(-1j * order * (gx[b] - gx[a])) - B[a, b])
                    if not e < tolL and (badL is None or e > badL[2]):
                        badL = (a, b, e)
            rep.evaluations += nL
            if nL:
                rep.flag("flat_domain:laplacian:" + el)
                if el == "vertices" and any(v in unsn for v in geo.border_vertices):
                    rep.flag("flat_domain:laplacian:border_charts:order%d" % order)
                rep.outcome("flat_domain_laplacian", "scalar_up_to_gauge" if badL is None else "differs")
            if badL is not None:
                a, b, e = badL
                viol("C18.flat_domain.laplacian", _lap_name(cfg), "mismatch:not_scalar_up_to_gauge", icls,
                     dict(ctx, elements=[a, b], entry_with_the_connection=complex(A[a, b]), scalar_entry=complex(B[a, b]),
                          angle_of_X_in_the_plane=[gx[a], gx[b]], error=e,
                          chart_angle_of_the_edge_at_both_ends=([float(f.conn.transport(a, b)), float(f.conn.transport(b, a))] if el == "vertices" else None),
                          note="planar input; both elements have charts the library does not snap (interior vertex, or border vertex whose angle is an exact multiple of 2*pi/order)"))

    # ---- excluded (exact predicate on the independently assembled operator): closed input, nothing constrained, smoothing on,
    # and a connection Laplacian that is singular (the order-n connection is trivial: a parallel field exists).  Its spectrum is
    # then that of the scalar Laplacian, so the attach weight (first non-zero eigenvalue of the scalar problem) makes the matrix
    # lap - alpha*A of the smoothing steps exactly singular: the outcome (a unit field, or NaN) is decided by round-off.
    if geo.closed and not fixed and cfg["ns"] > 0:
        if el == "faces":
            Ls = L.face_connection_laplacian(geo, bases, order, cfg["cot"])[0]
        else:
            Ls = L.vertex_connection_laplacian(geo, f.conn.transport, order, cfg["cot"])
        ev = np.linalg.eigvalsh(Ls)
        rep.outcome("closed_smoothing_system", "regular" if abs(ev[0]) > 1e-9 * max(1.0, abs(ev[-1])) else "singular")
        if not abs(ev[0]) > 1e-9 * max(1.0, abs(ev[-1])):
            rep.count("excluded_singular_smoothing_system")
            rep.count("excluded_singular_smoothing_system:" + el)
            return None

    # ---- harmonic extension oracle (also tells which free elements have an undefined direction)
    zero_free = set()
    skip_inv = None
    oracle = None
    if free and fixed and not geo.closed:
        if el == "faces":
            Lm, worst = L.face_connection_laplacian(geo, bases, order, cfg["cot"])
        else:
            Lm, worst = L.vertex_connection_laplacian(geo, f.conn.transport, order, cfg["cot"]), math.inf
        x, cond = L.harmonic_extension(Lm, free, fixed, var0[fixed]) if worst > 1e-6 else (None, math.inf)
        if x is None or cond > 1e8:
            if cfg["ns"] == 0:
                rep.count("filtered_ill_conditioned")
            skip_inv = "ill-conditioned"
            if x is None:
                # numerically singular system (cond > 1e12, e.g. negative cotangent weights of a non-Delaunay triangulation that
                # cancel exactly) or an interior edge with |cot a + cot b| < 1e-6: the free values, their modulus included (a
                # value of exactly 0 is left alone by the normalisation), are decided by round-off
                zero_free.update(free)
                rep.count("excluded_singular_harmonic_system")
        else:
            oracle = x if cfg["ns"] == 0 else None
            for k, i in enumerate(free):
                if abs(x[k]) < 1e-6:
                    zero_free.add(i)
                    rep.count("excluded_zero_harmonic_value")
    dots = geo.dihedral_dots()
    if cfg["feat"] and any(abs(d - 0.5) < 1e-6 for d in dots.values()):
        skip_inv = "feature-threshold"
        rep.count("filtered_feature_threshold")

    # ---- constrained vertices: do the constraints define a direction?
    # The library has two initialisations. "guarded" (smooth_normals and even order): the sum of (edge direction)**order
    # over the incident constrained edges, a contribution exactly opposite to the running sum is not added: with <= 2
    # constrained edges the sum can never vanish, so a direction IS defined (never excluded), also at a corner whose two
    # border edges give exactly opposite contributions (order * turning angle = 180 mod 360, decided exactly below on
    # lattice inputs). "unguarded" (odd order or smooth_normals off): plain sum of exp(i*order*chart angle of the edge):
    # it legitimately vanishes when those angles are opposite (excluded, decided exactly / from the connection's angles).
    cancelled = set()
    ambiguous = False     # some constraint is 'one of two exactly opposite contributions': which one depends on the edge numbering
    corner = {}           # border vertex with exactly its two border edges constrained -> (previous, next) border vertex
    if el == "vertices":
        guarded = bool(cfg["sn"]) and order % 2 == 0
        nbrs = {}
        for (a, b) in S:
            nbrs.setdefault(a, []).append(b); nbrs.setdefault(b, []).append(a)
        nxt = {a: b for (a, b) in geo.he if (b, a) not in geo.he}      # border traversed with the surface on its left
        prv = {b: a for a, b in nxt.items()}
        ipts = L.integer_planar([[c / DEV["scale"] for c in p] for p in pts] if DEV["scale"] != 1.0 else pts)
        if ipts is not None and DEV["scale"] != 1.0:
            rep.flag("dev:unit:exact_lattice_predicates_on_unscaled_coordinates")
        for v in fixed:
            opp = None
            if deg[v] == 2 and v in nxt and v in prv and sorted(nbrs[v]) == sorted((nxt[v], prv[v])):
                corner[v] = (prv[v], nxt[v])
                if ipts is not None:
                    z = L.turning((ipts[v][0] - ipts[prv[v]][0], ipts[v][1] - ipts[prv[v]][1]),
                                  (ipts[nxt[v]][0] - ipts[v][0], ipts[nxt[v]][1] - ipts[v][1]))
                    opp = L.opposed(z[0], z[1], order)
                    rep.flag("lattice_corner_turning:" + L.turning_class(*z))
                    if opp and guarded:
                        ambiguous = True
                    if opp and guarded and not cfg["flat"]:
                        rep.flag("opposed_corner:guarded:order%d" % order)
                        rep.count("corners_with_exactly_opposite_contributions:guarded")
            if not abs(var0[v]) < 1e-8:
                continue
            if deg[v] >= 3:
                legit = True
            elif guarded:
                legit = False
            elif opp is not None and cfg["flat"]:
                # flat connection: chart angles = angles in the plane; the two contributions are the order-th powers of the
                # directions v->next and v->previous = -(incoming edge): exactly opposite iff (-z)**order is a negative real
                legit = L.opposed(-z[0], -z[1], order)
            elif not cfg["cad"]:
                legit = abs(sum(cmath.exp(1j * order * f.conn.transport(v, w)) for w in nbrs[v])) < 1e-6
            else:
                legit = True        # cad_correction has already modified the chart angles the constraint was computed from
            if legit:
                cancelled.add(v)
                rep.count("excluded_cancelled_constraint")
                rep.count("excluded_cancelled_constraint:deg%s:%s" % ("2" if deg[v] <= 2 else ">=3", "odd" if order % 2 else "even"))
            else:
                # ---- clause: every constrained vertex whose constraints define a direction carries a unit constraint
                rep.evaluations += 1
                viol("C18.constraint.vertices_defined", callee + ".initialize", "mismatch:constraint_is_zero", icls,
                     dict(ctx, vertex=v, constrained_neighbours=sorted(nbrs[v]), value_after_initialize=complex(var0[v]),
                     initialisation="guarded sum of (edge direction)**order" if guarded else "sum of exp(i*order*chart angle)",
                     contributions_exactly_opposite=opp))
                break
        if corner:
            rep.outcome("corner_constraint_defined", "unit" if all(abs(abs(var0[v]) - 1) < 1e-9 for v in corner) else "some_zero")

    # ---- clause: unit modulus on every element
    for i in range(nel):
        if i in cancelled or i in zero_free:
            continue
        rep.evaluations += 1
        if not abs(abs(var[i]) - 1.0) < 1e-9:
            viol("C18.unit_modulus", callee + ".run", "mismatch:modulus", icls,
                 dict(ctx, element=i, value=complex(var[i]), fixed=(i in fixed_set)))
            break
    rep.outcome("modulus", "unit" if all(abs(abs(z) - 1) < 1e-9 for z in var) else "has_non_unit")

    # ---- clause: constrained elements keep their constraint
    for i in fixed:
        rep.evaluations += 1
        if not abs(var[i] - var0[i]) < 1e-12:
            viol("C18.constraint.kept", callee + ".optimize", "mismatch:constraint_changed", icls,
                 dict(ctx, element=i, before=complex(var0[i]), after=complex(var[i])))
            break
    if el == "faces":
        for t in fixed:
            es = [e for e in ((min(a, b), max(a, b)) for a, b in zip(geo.F[t], geo.F[t][1:] + geo.F[t][:1])) if e in S]
            if len(es) != 1:
                rep.count("faces_with_2plus_constrained_edges")
                continue
            a, b = es[0]
            th = L.edge_angle(geo.P[b] - geo.P[a], *bases[t])
            rep.evaluations += 1
            rep.flag("face_one_constrained_edge")
            err = _branch_parallel_err(var[t], order, th) if abs(var[t]) > 0.5 else math.inf
            rep.outcome("face_constraint", "tangent" if err < TOL else "not_tangent")
            if not err < TOL:
                viol("C18.constraint.faces_tangent", callee + ".initialize", "mismatch:branch_not_tangent", icls,
                     dict(ctx, face=t, edge=[a, b], edge_angle_in_face_basis=th, value=complex(var[t]),
                          branch_angles=[(cmath.phase(var[t]) + 2 * math.pi * k) / order for k in range(order)],
                          error=err))
                break
    elif not cfg["cad"] and not cfg["flat"]:
        # border vertex with exactly its two border edges constrained: documented initialisation
        for v in sorted(corner):
            X, Y = bases[v]
            rep.evaluations += 1
            if cfg["sn"] and order % 2 == 0:
                s = 0
                contrib = []
                for w in nbrs[v]:
                    Ev = geo.P[w] - geo.P[v]
                    c = complex(Ev @ X, Ev @ Y)
                    contrib.append((c / abs(c)) ** order)
                    s += contrib[-1]
                if abs(s) < 1e-6:
                    # exactly opposite contributions: the mean is undefined (the unit-constraint clause above still applies)
                    rep.count("mean_clause_not_applicable:opposite_contributions")
                    ambiguous = True
                    rep.outcome("opposed_corner_constraint", "one_of_the_two_edges" if min(abs(var0[v] - c) for c in contrib) < TOL else "other")
                    continue
                want = s / abs(s)
                rep.flag("vertex_constraint_mean")
                if not abs(var0[v] - want) < TOL:
                    viol("C18.constraint.vertices_mean", callee + ".initialize", "mismatch:not_mean_of_border_edges", icls,
                         dict(ctx, vertex=v, got=complex(var0[v]), want=complex(want)))
                    break
            else:
                rep.flag("vertex_constraint_follow")
                errs = [abs(var0[v] - cmath.exp(1j * order * f.conn.transport(v, w))) for w in nbrs[v]]
                if not max(errs) < TOL:
                    viol("C18.constraint.vertices_follow_edge", callee + ".initialize", "mismatch:branch_not_tangent", icls,
                         dict(ctx, vertex=v, got=complex(var0[v]),
                              edge_angles_in_chart=[f.conn.transport(v, w) for w in nbrs[v]]))
                    break

    # ---- clause: singularity indices (face-based field)
    if el == "faces" and want_sing:
        rep.transitions += 1
        if r.sing_exc is not None:
            viol("C18.singularities.run", "FrameField2DFaces.flag_singularities", "raises:" + r.sing_exc[0], icls,
                 dict(ctx, msg=r.sing_exc[1][:300]))
        else:
            tot = 0.0
            bad = None
            for v, idx in sorted(r.singuls.items()):
                tot += idx
                if v not in geo.border_vertices:
                    rep.evaluations += 1
                    q = idx * order / 4.0
                    rep.outcome("index_quanta", int(round(q)))
                    if bad is None and not abs(q - round(q)) < TOL:
                        bad = (v, idx)
            if bad is not None:
                viol("C18.singularities.quantum", "FrameField2DFaces.flag_singularities", "mismatch:index_not_multiple_of_quantum", icls,
                     dict(ctx, vertex=bad[0], index=bad[1], quantum=4.0 / order))
            rep.evaluations += 1
            if not abs(tot - 4 * geo.chi) < geo.n * 1e-3:
                viol("C18.singularities.sum", "FrameField2DFaces.flag_singularities", "mismatch:index_sum", icls,
                     dict(ctx, got=tot, want=4 * geo.chi, indices=r.singuls))
            rep.flag("chi=%d" % geo.chi)

    # ---- clause: smoothing off on a bordered surface = normalised harmonic extension
    if oracle is not None and not geo.closed:
        rep.flag("harmonic:" + el)
        if name.startswith("lat:"):
            rep.flag("harmonic:lattice_polygon:" + el + (":flatconn" if cfg["flat"] else ""))
        if hist:
            rep.flag("harmonic:2nd_field_on_mesh:" + el)
        if DEV["cls"]:
            rep.flag("dev%s:harmonic:%s" % (DEV["cls"], el))
        worst_i, worst_e = None, 0.0
        for k, i in enumerate(free):
            if i in zero_free:
                continue
            rep.evaluations += 1
            e = abs(var[i] - oracle[k] / abs(oracle[k]))
            if not e < TOL and (worst_i is None or e > worst_e or e != e):
                worst_i, worst_e = i, e
        rep.outcome("harmonic", "equal" if worst_i is None else "differs")
        # the library's own operator: Hermitian; diagnostic comparison with the independent one
        lib = _lib_laplacian(M, r.mesh, f.conn, cfg)
        herm = float(abs(lib - lib.conj().T).max()) if lib is not None else None
        rep.evaluations += 1
        if herm is not None and not herm < 1e-9 * max(1.0, float(abs(lib).max())):
            viol("C18.laplacian.hermitian", _lap_name(cfg), "mismatch:not_hermitian", icls, dict(ctx, max_asymmetry=herm))
        if worst_i is not None:
            rows_match = None
            if lib is not None:
                A, B = lib[free, :], Lm[free, :]
                # compare up to a global positive scale
                sc = (abs(A).sum() / abs(B).sum()) if abs(B).sum() > 0 else 1.0
                rows_match = bool(abs(A - sc * B).max() < 1e-8 * max(1.0, abs(A).max()))
            viol("C18.harmonic_extension", callee + ".optimize", "mismatch:free_values", icls,
                 dict(ctx, element=worst_i, got=complex(var[worst_i]),
                      want=complex(oracle[free.index(worst_i)] / abs(oracle[free.index(worst_i)])),
                      error=worst_e, fixed=fixed, free=free,
                      library_laplacian_rows_match_independent_ones=rows_match))

    # ---- invariants for the relabeling clauses: directions relative to the mesh's own edges
    inv = {}
    if el == "faces":
        for t, tri in enumerate(geo.F):
            if abs(var[t]) < 0.5:
                continue
            for u, v in zip(tri, tri[1:] + tri[:1]):
                th = L.edge_angle(geo.P[v] - geo.P[u], *bases[t])
                inv[(tuple(sorted(tri)), u, v)] = (var[t] * cmath.exp(-1j * order * th), t in zero_free)
    else:
        for (u, v) in geo.he:
            if abs(var[u]) < 0.5:
                continue
            inv[(u, v)] = (var[u] * cmath.exp(-1j * order * f.conn.transport(u, v)), u in zero_free or u in cancelled)
    tag = ""
    if el == "faces":
        for t in fixed:
            if sum(1 for a, b in zip(geo.F[t], geo.F[t][1:] + geo.F[t][:1]) if (min(a, b), max(a, b)) in S) >= 2:
                tag = ":corner_faces"
                break
    elif cfg["sn"] and order % 2 == 0 and any(v not in geo.border_vertices for v in fixed):
        tag = ":interior_feature_vertices:geometric_init"
    if not tag:
        rep.flag("invariance_unambiguous:" + el)
    return {"inv": inv, "skip": skip_inv, "icls": icls + tag, "singuls": r.singuls, "tag": tag, "nfixed": len(fixed), "ambiguous": ambiguous,
            "chart": chart, "gated": False, "planar_flat": planar_flat, "observed_bitwise": observed_bitwise,
            "feat": sorted(lib_feat), "var0": var0, "mesh": r.mesh}


def _lap_name(cfg):
    return "operators.laplacian" if cfg["el"] == "vertices" else "operators.laplacian_triangles"


def _lib_laplacian(M, mesh, conn, cfg):
    import numpy as np
    fn = M.operators.laplacian if cfg["el"] == "vertices" else M.operators.laplacian_triangles
    o = call(fn, mesh, cotan=cfg["cot"], connection=conn, order=cfg["order"])
    if not o.ok:
        return None
    return np.asarray(o.value.todense(), dtype=complex)


# ------------------------------------------------------------------------------------------ tasks
def _sweep(task, rep, M):
    import numpy as np
    from mc import c18_lib as L
    pts, faces, el = task["pts"], [tuple(f) for f in task["faces"]], task["el"]
    cfgs = _configs(el, task["maxdev"], inert=task.get("inert", ()))
    if task.get("inert"):
        rep.flag("planar_lattice_polygon:" + el)
    for cfg in cfgs:
        _check(rep, M, task["mesh"], pts, faces, cfg)
    if task["planar"] is not None:
        flat_pts = L.flat(task["planar"])
        for cfg in _configs(el, task["maxdev"], flat=True):
            _check(rep, M, task["mesh"] + ":planar", flat_pts, faces, cfg)
        _operator_identities(task, rep, M, flat_pts, faces, el)
    if len(rep.samples) < 1:
        rep.sample({"mesh": task["mesh"], "faces": task["faces"], "element": el, "configurations": len(cfgs)})


def _operator_identities(task, rep, M, flat_pts, faces, el):
    """Library operator: Hermitian with the default connection on the lifted mesh; with the flat connection on
    the planar mesh it equals the scalar Laplacian."""
    import numpy as np
    from mc import families as F
    from mc import c18_lib as L
    lifted = F.build_surface(task["pts"], faces)
    planar = F.build_surface(flat_pts, faces)
    geo = L.Geo(task["pts"], faces)
    if el == "vertices":
        fn, conn_l, conn_f = M.operators.laplacian, M.processing.SurfaceConnectionVertices(lifted), M.processing.FlatConnectionVertices(planar)
    else:
        fn, conn_l, conn_f = M.operators.laplacian_triangles, M.processing.SurfaceConnectionFaces(lifted), M.processing.FlatConnectionFaces(planar)
    name = "operators.laplacian" if el == "vertices" else "operators.laplacian_triangles"
    for order in range(1, 7):
        for cot in (True, False):
            icls = "%s:%s:bordered:%s" % ("order4" if order == 4 else "order!=4", el, "cotan" if cot else "uniform")
            ctx = {"mesh": task["mesh"], "pts": task["pts"], "faces": task["faces"], "order": order, "cotan": cot}
            rep.transitions += 3
            o = call(fn, lifted, cotan=cot, connection=conn_l, order=order)
            if not o.ok:
                rep.violation("C18.laplacian.run", name, exc_kind(o), icls, dict(ctx, msg=o.msg[:200])); continue
            A = np.asarray(o.value.todense(), dtype=complex)
            rep.evaluations += 1
            rep.flag("hermitian_checked:" + el)
            if not abs(A - A.conj().T).max() < 1e-9 * max(1.0, abs(A).max()):
                rep.violation("C18.laplacian.hermitian", name, "mismatch:not_hermitian", icls,
                              dict(ctx, max_asymmetry=float(abs(A - A.conj().T).max())))
            if abs(A.imag).max() > 1e-6:
                rep.flag("complex_entries:" + el)
            # independent assembly with the library's connection data
            if el == "faces":
                bases = [tuple(np.array(v, float) for v in conn_l.base(t)) for t in range(len(faces))]
                B, worst = L.face_connection_laplacian(geo, bases, order, cot)
            else:
                B, worst = L.vertex_connection_laplacian(geo, conn_l.transport, order, cot), math.inf
            # (kept as a coverage fact, the asserted consequence is the harmonic-extension clause)
            if worst > 1e-6 and el == "faces" and abs(A - B).max() < 1e-8 * max(1.0, abs(A).max()):
                rep.flag("independent_assembly_agrees:faces")
            o1 = call(fn, planar, cotan=cot, connection=conn_f, order=order)
            o2 = call(fn, planar, cotan=cot)
            if not (o1.ok and o2.ok):
                bad = o1 if not o1.ok else o2
                rep.violation("C18.laplacian.run", name, exc_kind(bad), icls + ":flatconn", dict(ctx, msg=bad.msg[:200])); continue
            C1 = np.asarray(o1.value.todense(), dtype=complex)
            C2 = np.asarray(o2.value.todense(), dtype=complex)
            rep.evaluations += 1
            rep.flag("flat_checked:" + el)
            if C1.shape != C2.shape or not abs(C1 - C2).max() < 1e-9 * max(1.0, abs(C2).max()):
                rep.violation("C18.laplacian.flat_equals_scalar", name, "mismatch:flat_connection_vs_scalar", icls + ":flatconn",
                              dict(ctx, planar_pts=flat_pts, max_difference=float(abs(C1 - C2).max()) if C1.shape == C2.shape else "shape"))


def _compare(rep, base, other, cfg, sub, ctx, icls=None):
    """`icls`: input class to report under (default: the class of the base run)"""
    if base is None or other is None:
        return
    if icls is not None:
        base = dict(base, icls=icls)
    if base["skip"] or other["skip"]:
        rep.count("invariance_skipped:" + str(base["skip"] or other["skip"]))
        return
    order = cfg["order"]
    from mc import c18_lib as L
    worst, wk = 0.0, None
    for k, (z, undefined) in base["inv"].items():
        if undefined or k not in other["inv"] or other["inv"][k][1]:
            continue
        rep.evaluations += 1
        e = L.angle_err(z, other["inv"][k][0], order)
        if e > worst:
            worst, wk = e, k
    if set(base["inv"]) != set(other["inv"]):
        rep.violation(sub, _callee(cfg) + ".run", "mismatch:defined_elements_differ", base["icls"],
                      dict(ctx, only_base=sorted(map(str, set(base["inv"]) - set(other["inv"])))[:5],
                           only_other=sorted(map(str, set(other["inv"]) - set(base["inv"])))[:5]))
    elif not worst < TOL:
        rep.violation(sub, _callee(cfg) + ".run", "mismatch:direction_relative_to_edge", base["icls"],
                      dict(ctx, key=str(wk), angle_difference=worst, base=complex(base["inv"][wk][0]), other=complex(other["inv"][wk][0])))
    rep.outcome("invariance", "same" if worst < TOL else "differs")


def _relabel(task, rep, M):
    pts, faces = task["pts"], [tuple(f) for f in task["faces"]]
    n = len(pts)
    cfgs = _inv_configs(task["level"])
    bases = [_check(rep, M, task["mesh"], pts, faces, cfg, want_sing=False) for cfg in cfgs]
    for perm in task["perms"]:          # perm[old] = new
        back = [0] * n
        for old, new in enumerate(perm):
            back[new] = old
        p2 = [pts[back[new]] for new in range(n)]
        f2 = [tuple(perm[v] for v in f) for f in faces]
        rep.flag("relabeling")
        for cfg, base in zip(cfgs, bases):
            got = _check(rep, M, task["mesh"], p2, f2, cfg, want_sing=False, relabel_tag=perm)
            if got is not None:
                # express the keys in the base labels
                inv = {}
                for k, val in got["inv"].items():
                    if cfg["el"] == "faces":
                        inv[(tuple(sorted(back[v] for v in k[0])), back[k[1]], back[k[2]])] = val
                    else:
                        inv[(back[k[0]], back[k[1]])] = val
                got = dict(got, inv=inv)
            _compare(rep, base, got, cfg, "C18.invariance.relabeling",
                     {"mesh": task["mesh"], "pts": pts, "faces": task["faces"], "perm_old_to_new": perm, "cfg": cfg})


def _listing(task, rep, M):
    from mc import families as F
    pts, faces = task["pts"], [tuple(f) for f in task["faces"]]
    cfgs = _inv_configs(1)
    bases = [_check(rep, M, task["mesh"], pts, faces, cfg, want_sing=False) for cfg in cfgs]
    for tag, fl in F.face_listing_deviations(faces, task["dev"]):
        if not tag:
            continue
        rep.flag("face_listing_deviation")
        if any(t[0] == "rot" for t in tag):
            rep.flag("face_start_rotation")
        for cfg, base in zip(cfgs, bases):
            got = _check(rep, M, task["mesh"], pts, [tuple(f) for f in fl], cfg, want_sing=False, relabel_tag=["listing", list(map(list, tag))])
            _compare(rep, base, got, cfg, "C18.invariance.face_start",
                     {"mesh": task["mesh"], "pts": pts, "faces": [list(f) for f in fl], "base_faces": task["faces"],
                      "deviation": [list(t) for t in tag], "cfg": cfg})


def _history(task, rep, M):
    """Histories of length two on one mesh object: field A built, run, flagged and checked; then field B built, run,
    flagged and checked on the SAME mesh object (whatever A left on it: attributes, caches). One fresh mesh per pair.
    The same tasks are run a second time by the runner under mouette.config.display_duplicate_attribute_warning = True
    (dupflag_variant): create_attribute then hands back the attribute an earlier field created under the same name; every
    clause of the second field (unit modulus, constraints, index quantum and sum, harmonic extension) is evaluated there
    under the subchecks C18.history.dupflag.*"""
    from mc import families as F
    pts, faces = task["pts"], [tuple(f) for f in task["faces"]]
    C = _hist_configs()
    dup = bool(M.config.display_duplicate_attribute_warning)
    tag = "history:dupflag:" if dup else "history:"
    # coverage fact: what the switch means in this process (second creation under one name on a scratch mesh)
    probe = F.build_surface(pts, faces).vertices
    first = probe.create_attribute("c18_probe", float)
    rep.flag(tag + ("create_attribute_returns_existing" if probe.create_attribute("c18_probe", float) is first
                    else "create_attribute_returns_new"))
    for ia, ib in task["pairs"]:
        A, B = C[ia], C[ib]
        mesh = F.build_surface(pts, faces)
        ra = _check(rep, M, task["mesh"], pts, faces, A, mesh=mesh)
        before = {c: set(getattr(mesh, c).attributes) for c in ("vertices", "edges", "faces", "face_corners")}
        rb = _check(rep, M, task["mesh"], pts, faces, B, mesh=mesh,
                    hist={"before": [A], "cls": ":2nd_field_on_mesh_after_" + A["el"] + _feat_cls(A, B),
                          "sub": "C18.history.dupflag." if dup else "C18.history."})
        rep.flag(tag + "%s_after_%s" % (B["el"], A["el"]))
        if any(before.values()):
            rep.flag(tag + "first_field_left_attributes_on_mesh")
        if A["order"] != B["order"]:
            rep.flag(tag + "other_order")
        if A["ns"] != B["ns"]:
            rep.flag(tag + "other_n_smooth")
        if A["feat"] != B["feat"]:
            rep.flag(tag + "features_%s:%s" % ("on_then_off" if A["feat"] else "off_then_on", B["el"]))
        if ra and rb and rb["singuls"] is not None:
            rep.flag(tag + "index_quantum_and_sum_checked_on_2nd_field_after_" + A["el"])
        if ra and rb and ra["singuls"] is not None and rb["singuls"] is not None:
            # vacuity guard of the history clause: some vertex flagged for A is not flagged for B (a left-over would show)
            left = [v for v, x in ra["singuls"].items() if x != 0 and v not in rb["singuls"]]
            rep.outcome("history_singular_vertices", "B_covers_A" if not left else "A_has_vertices_B_has_not")
    if len(rep.samples) < 1:
        rep.sample({"mesh": task["mesh"], "faces": task["faces"], "history": [C[task["pairs"][0][0]], C[task["pairs"][0][1]]],
                    "display_duplicate_attribute_warning": dup})


class _dev:
    """context of one execution under a deviation: input-class suffix, scale, and (sort=False) the configuration switch
    mouette.config.sort_neighborhoods, which is set before the mesh is built and restored whatever happens"""

    def __init__(self, M, cls, scale=1.0, sort=True):
        self.M, self.cls, self.scale, self.sort = M, cls, scale, sort

    def __enter__(self):
        self.old = self.M.config.sort_neighborhoods
        DEV["cls"], DEV["scale"] = self.cls, self.scale
        self.M.config.sort_neighborhoods = self.sort
        return self

    def __exit__(self, *a):
        self.M.config.sort_neighborhoods = self.old
        DEV["cls"], DEV["scale"] = "", 1.0
        return False


def _same(rep, base, got, cfg, sub, ctx, cls, same_bases, feat_icls=None):
    """Clauses of a deviation that must not change the result: `got` (run under the deviation `cls`) against `base` (same
    input and configuration, unit scale, sorted rings).  sub.features: the same feature edges (combinatorial result);
    sub.constraints (same_bases: a change of unit leaves the local bases alone): the same constraint on every constrained
    element; sub.field (smoothing off, cad_correction off, some element constrained = linear solve): the same directions
    measured against the mesh's own edges."""
    if base is None or got is None or got["gated"]:
        return          # the failure itself is reported by C18.run / C18.sort.vertex_connection
    icls, callee, el = got["icls"], _callee(cfg), cfg["el"]
    ctx = dict(ctx, cfg=cfg, deviation=cls)
    if base["skip"] == "feature-threshold" or got["skip"] == "feature-threshold":
        rep.count("dev_not_asserted:feature_threshold")
        return
    rep.evaluations += 1
    if base["feat"] != got["feat"]:
        rep.violation(sub + ".features", "FeatureEdgeDetector.feature_edges", "mismatch:feature_edges", feat_icls or icls,
                      dict(ctx, reference=base["feat"], under_deviation=got["feat"]))
        return
    rep.flag("dev%s:features_compared:%s" % (cls, el))
    if same_bases:
        a, b = base["var0"], got["var0"]
        for i in range(len(a)):
            rep.evaluations += 1
            da, db = abs(a[i]) > 0.5, abs(b[i]) > 0.5
            if da != db or (da and not abs(a[i] - b[i]) < TOL):
                rep.violation(sub + ".constraints", callee + ".initialize", "mismatch:constraint_value", icls,
                              dict(ctx, element=i, reference=complex(a[i]), under_deviation=complex(b[i])))
                return
        rep.flag("dev%s:constraints_compared:%s" % (cls, el))
    if cfg["ns"] == 0 and not cfg["cad"] and base["nfixed"] > 0:
        if not same_bases and (base["tag"] or got["tag"]):
            # the listing-dependent constraints of the known findings (corner faces, crease vertices): reported by the
            # listing tasks, not asserted again here
            rep.count("dev_not_asserted:listing_dependent_constraint_class")
            return
        _compare(rep, base, got, cfg, sub + ".field", ctx, icls=icls)
        if not (base["skip"] or got["skip"]):
            rep.flag("dev%s:field_compared:%s" % (cls, el))


def _relabelled(pts, faces, perm):
    """perm[old] = new -> (points, faces, back) in the new labels"""
    n = len(pts)
    back = [0] * n
    for old, new in enumerate(perm):
        back[new] = old
    return [pts[back[new]] for new in range(n)], [tuple(perm[v] for v in f) for f in faces], back


def _in_base_labels(got, back, el):
    if got is None:
        return None
    inv = {}
    for k, val in got["inv"].items():
        if el == "faces":
            inv[(tuple(sorted(back[v] for v in k[0])), back[k[1]], back[k[2]])] = val
        else:
            inv[(back[k[0]], back[k[1]])] = val
    return dict(got, inv=inv)


def _deviation(task, rep, M):
    """The deviation dimensions.  For every configuration of _dev_configs the input is run (a) as it is (reference), (b) with
    every coordinate multiplied by 2^e, e in task['exps'] (input class + ':unit=2^e'): every clause of the statement is
    evaluated on the scaled input with the oracle recomputed from the scaled coordinates (the clauses are dimensionless:
    moduli, angles, indices, cotangent ratios), plus C18.unit.*: same feature edges, same constraints, same directions as
    at unit scale; (c) with mouette.config.sort_neighborhoods = False while the mesh is built and processed (input class +
    ':sort=False'): every clause, plus C18.sort.*: same feature edges and same directions against the mesh's own edges as
    with sorted rings; under that switch also every face listing that puts another face in position 0 (rotations of the face
    list) and every transposition (0 k) of the vertex labels (every vertex in position 0), smoothing off:
    C18.sort.face_in_position_0 / C18.sort.vertex_in_position_0."""
    from mc import c18_lib as L
    el, name = task["el"], task["mesh"]
    pts, faces = [list(map(float, p)) for p in task["pts"]], [tuple(f) for f in task["faces"]]
    if M.config.sort_neighborhoods is not True:
        rep.flag("dev:sort_switch_found_off")
    inputs = [(name, pts, _dev_configs(el, inert=task.get("inert", ()), full=task["full"]))]
    if task["planar"] is not None:
        inputs.append((name + ":planar", [list(p) for p in L.flat(task["planar"])], _dev_configs(el, flat=True, full=task["full"])))
    runs = {}
    for nm, P, cfgs in inputs:
        ctx = {"mesh": nm, "pts": P, "faces": task["faces"]}
        for cfg in cfgs:
            base = _check(rep, M, nm, P, faces, cfg, want_chart=True)
            # ---- (b) unit of length
            for e in task["exps"]:
                s = 2.0 ** e
                SP = [[c * s for c in p] for p in P]
                rep.flag("dev:unit:scaling_exact" if all((c * s) / s == c for p in P for c in p) else "dev:unit:scaling_inexact")
                cls = ":unit=2^%d" % e
                with _dev(M, cls, scale=s):
                    got = _check(rep, M, nm, SP, faces, cfg)
                _same(rep, base, got, cfg, "C18.unit", ctx, cls, True)
            # ---- (c) unsorted vertex rings
            with _dev(M, ":sort=False", sort=False):
                got = _check(rep, M, nm, P, faces, cfg, ref=base)
            if base is not None and got is not None and not got["gated"]:
                ra, rb = ([list(r["mesh"].connectivity.vertex_to_vertices(v)) for v in range(len(P))] for r in (base, got))
                if [sorted(x) for x in ra] == [sorted(x) for x in rb] and ra != rb:
                    rep.flag("dev:sort=False:some_ring_listed_in_another_order")
            _same(rep, base, got, cfg, "C18.sort", ctx, ":sort=False", False)
            runs[(nm, tuple(sorted(cfg.items())))] = (base, got)
    # ---- every face / every vertex in position 0 in turn (unsorted rings, smoothing off)
    # (vertices: also with the flat connection on the planar version, whose charts do not involve the rings)
    n, nf = len(pts), len(faces)
    zero = [(name, pts, cfg) for cfg in _zero_configs(el)]
    if el == "vertices" and len(inputs) > 1:
        zero += [(inputs[1][0], inputs[1][1], dict(cfg, flat=True)) for cfg in _zero_configs(el)]
    for nm, P, cfg in zero:
        sorted_ref, base = runs.get((nm, tuple(sorted(cfg.items()))), (None, None))
        for what, k in [("face", k) for k in range(1, nf)] + [("vertex", k) for k in range(1, n)]:
            if what == "face":
                p2, f2, back = P, faces[k:] + faces[:k], list(range(n))
            else:
                perm = list(range(n)); perm[0], perm[k] = k, 0
                p2, f2, back = _relabelled(P, faces, perm)
            with _dev(M, ":sort=False", sort=False):
                got = _check(rep, M, nm, p2, f2, cfg, relabel_tag=[what + "_to_position_0", k], ref=sorted_ref, ref_back=back)
            rep.count("dev:sort=False:%s_in_position_0:%s%s" % (what, el, ":flatconn" if cfg["flat"] else ""))
            if base is None or got is None or base["gated"] or got["gated"]:
                continue
            if base["nfixed"] == 0:
                rep.count("dev_not_asserted:no_constrained_element(eigenvector)")
                continue
            if base["tag"] or got["tag"]:
                rep.count("dev_not_asserted:listing_dependent_constraint_class")
                continue
            if base["ambiguous"] or got["ambiguous"]:
                # a border corner whose two edge contributions are exactly opposite keeps one of the two edges: which one is
                # a matter of the edge numbering, i.e. of the listing
                rep.count("dev_not_asserted:exactly_opposite_corner_contributions")
                continue
            _compare(rep, base, _in_base_labels(got, back, el), cfg, "C18.sort.%s_in_position_0" % what,
                     {"mesh": nm, "pts": P, "faces": task["faces"], "cfg": cfg, "deviation": ":sort=False",
                      ("face_moved_to_position_0" if what == "face" else "vertex_exchanged_with_vertex_0"): k}, icls=got["icls"])
            rep.flag("dev:sort=False:%s_in_position_0:compared:%s" % (what, el))
    rep.count("dev:tasks")
    rep.count("dev:faces_in_position_0_wanted:" + el, nf - 1)
    if len(rep.samples) < 1:
        rep.sample({"mesh": name, "faces": task["faces"], "element": el, "deviations": [":unit=2^%d" % e for e in task["exps"]] + [":sort=False"]})



# ------------------------------------------------------------------------------------------ planar commensurable domains
PINNED_COMM = {"c2:rect+1": 3, "c2:rect+2": 6, "c2:ell+1": 9, "c2:rectm+1": 16, "c3:hex+1": 21, "c3:hex+2": 46, "c3:rhomb+1": 3,
               "c3:trap+1": 3, "c3:trim+1": 6, "c5:zono+2": 76}


def _comm_family(name):
    """all triangulations (flip graph from an ear-clipping start, exact orientation predicates in lattice coordinates) of a planar
    polygon whose border angles are exact multiples of pi/m (mc/c18_lib.py COMM_SETS), kept planar (z = 0)"""
    from mc import families as F
    from mc import c18_lib as L
    pts, opts, nb = L.comm_points(name)
    T = F.tri_enum(opts, L.comm_start_triangulation(name))
    assert len(T) == PINNED_COMM[name], (name, len(T))
    return L.flat(pts), [[list(t) for t in tri] for tri in T]


def _flat_configs(el):
    """configurations of the planar-domain clause: order 1-6 x n_smooth {0,3} x cotangent / uniform weights (x smooth_normals on / off
    for vertices: both initialisations of the constraints); the features switch is inert (planar), cad_correction off"""
    return [{"el": el, "order": order, "ns": ns, "feat": True, "cot": cot, "cad": False, "sn": sn, "flat": False}
            for order in range(1, 7) for ns in (0, 3) for cot in (True, False) for sn in ((True, False) if el == "vertices" else (True,))]


def _worst_angle(base, other, order):
    from mc import c18_lib as L
    worst = 0.0
    for k, (z, undefined) in base["inv"].items():
        if undefined or k not in other["inv"] or other["inv"][k][1]:
            continue
        worst = max(worst, L.angle_err(z, other["inv"][k][0], order))
    return worst


def _flatdomain(task, rep, M):
    """The connection dimension on planar domains.  Every configuration is run with the connection the field builds itself and
    with the library's flat connection on the same planar input.  Where the exact predicate says that no chart is snapped
    (face-based field: always; vertex-based field: every border angle is a positive multiple of 2*pi/order) the connection of the
    planar domain IS flat, so both executions must give the same directions against the mesh's own edges
    (C18.flat_domain.field, smoothing on or off: the smoothing steps are gauge covariant) - besides every per-execution clause,
    among them C18.flat_domain.laplacian.  Where charts are snapped nothing is asserted; the outcome is recorded (it shows that
    the comparison can tell the two connections apart)."""
    pts, faces, el, name = task["pts"], [tuple(f) for f in task["faces"]], task["el"], task["mesh"]
    ctx = {"mesh": name, "pts": pts, "faces": task["faces"], "planar": True}
    for cfg in _flat_configs(el):
        base = _check(rep, M, name, pts, faces, cfg, comm=task["comm"])
        got = _check(rep, M, name, pts, faces, dict(cfg, flat=True))
        rep.count("flat_domain:pairs")
        if base is None or got is None or base["gated"] or got["gated"] or base["planar_flat"] is None:
            rep.count("flat_domain:pair_not_compared")
            continue
        if base["planar_flat"]:
            _compare(rep, base, got, cfg, "C18.flat_domain.field",
                     dict(ctx, cfg=cfg, compared="the field under the connection built by the library vs under its flat connection; "
                          "every border angle of the planar input is an exact multiple of 2*pi/order (no chart is snapped)"),
                     icls=base["icls"] + ":planar_commensurable")
            if not (base["skip"] or got["skip"]):
                rep.flag("flat_domain:field_compared:%s:order%d" % (el, cfg["order"]))
                rep.flag("flat_domain:field_compared:%s:%s" % (el, "ns0" if cfg["ns"] == 0 else "ns>0"))
                rep.flag("flat_domain:field_compared:%s:%s" % (el, "cotan" if cfg["cot"] else "uniform"))
                if el == "vertices":
                    rep.flag("flat_domain:field_compared:vertices:%s" % ("guarded_init" if cfg["sn"] and cfg["order"] % 2 == 0 else "chart_init"))
        elif not (base["skip"] or got["skip"]):
            rep.outcome("flat_domain_snapped_charts", "differs" if _worst_angle(base, got, cfg["order"]) > TOL else "same")
            rep.count("flat_domain:not_asserted:snapped_border_chart")
    rep.count("flat_domain:tasks")
    if len(rep.samples) < 1:
        rep.sample({"mesh": name, "faces": task["faces"], "element": el, "connections": ["built by the field", "flat"]})


# ------------------------------------------------------------------------------------------ observer calls on a computed field
def _observer_configs(el):
    return [{"el": el, "order": order, "ns": ns, "feat": True, "cot": True, "cad": False, "sn": True, "flat": False}
            for order in range(1, 7) for ns in (0, 3)]


def _observer_depth(cfg, task):
    return task["deep"] if (cfg["order"] in (3, 4) and cfg["ns"] == 0) else task["depth"]


def _observers(task, rep, M):
    """Histories on ONE field object: run(), then a sequence of observer calls (OBSERVERS: export_as_mesh in both forms,
    flag_singularities, normalize, a second run, plain reads), then the final flag_singularities() and every clause.  The
    sequences are all words over the menu up to task['depth'] (task['deep']: depth for the configurations order 3 / 4 with
    smoothing off).  C18.observer.state_unchanged: no observer call changes the variables, the local bases or the parallel
    transport (reported for the first call that does, which gates the rest); C18.observer.singularities_unchanged: where the state is bitwise
    what it was, the indices flagged after the sequence are those flagged on a field that was only run; all other clauses as C18.observer.<clause>."""
    pts, faces, el, name = task["pts"], [tuple(f) for f in task["faces"]], task["el"], task["mesh"]
    for cfg in _observer_configs(el):
        if cfg["order"] not in task["orders"]:
            continue
        depth = _observer_depth(cfg, task)
        ref = _check(rep, M, name, pts, faces, cfg)
        for seq in _observer_sequences(el, depth):
            got = _check(rep, M, name, pts, faces, cfg, observers=seq,
                         hist={"before": [], "cls": ":after_observer_calls", "sub": "C18.observer."})
            rep.count("observer:sequences:" + el)
            rep.flag("observer:depth%d:%s" % (len(seq), el))
            if ref is None or got is None or ref["gated"] or got["gated"]:
                continue
            if el == "faces" and ref["singuls"] is not None and got["singuls"] is not None:
                if not got["observed_bitwise"]:
                    # normalize() moved some value by a unit in the last place: where two branches match equally well (frames of
                    # adjacent faces exactly 45 degrees apart on the regular tetrahedron) the matching, and with it single indices, may
                    # legitimately come out the other way; quantum and sum are asserted by the regular clauses
                    rep.count("observer:singularities_not_compared:state_not_bitwise_equal")
                    continue
                rep.evaluations += 1
                keys = sorted(set(ref["singuls"]) | set(got["singuls"]))
                bad = [v for v in keys if not abs(ref["singuls"].get(v, 0.0) - got["singuls"].get(v, 0.0)) < 1e-9]
                rep.flag("observer:singularities_compared")
                if any(x != 0 for x in ref["singuls"].values()):
                    rep.flag("observer:singularities_compared:some_nonzero")
                if bad:
                    rep.violation("C18.observer.singularities_unchanged", "FrameField2DFaces.flag_singularities", "mismatch:indices",
                                  got["icls"], {"mesh": name, "pts": pts, "faces": task["faces"], "cfg": cfg, "calls_after_run": seq,
                                                "vertex": bad[0], "flagged_on_a_field_that_was_only_run": ref["singuls"].get(bad[0], 0.0),
                                                "flagged_after_the_calls": got["singuls"].get(bad[0], 0.0)})
    rep.count("observer:tasks")
    if len(rep.samples) < 1:
        rep.sample({"mesh": name, "faces": task["faces"], "element": el, "observer_menu": _observer_menu(el), "depth": task["depth"]})


# ------------------------------------------------------------------------------------------ re-used worker objects
def _fold(pts):
    """the same vertices folded along the line y = mid (z = 1.5*|y - mid| + x/8): other feature edges on the same connectivity"""
    ys = sorted(p[1] for p in pts)
    mid = (ys[0] + ys[-1]) / 2.0 + 0.25
    return [[float(p[0]), float(p[1]), 1.5 * abs(p[1] - mid) + p[0] / 8.0] for p in pts]


def _reuse_configs(el, full):
    return [{"el": el, "order": order, "ns": ns, "feat": True, "cot": True, "cad": False, "sn": True, "flat": False}
            for order in range(1, 7) for ns in (0, 3) if full or ns == 0 or order in (3, 4)]


REUSE_USES = ["features", "features+connection"]


def _reuse_histories(n_others):
    """what happened to the FeatureEdgeDetector object before it is handed to the field on the mesh B as `custom_features`
    (always run on B last, unless the history ends with a field on B that used it):
    run on another surface A first; run on A and used by a field on A first; run on B twice; run on B and used by a field of
    the other element kind on the same mesh object B (not run again)"""
    out = []
    for k in range(n_others):
        out.append(["run:%d" % k, "run:B"])
        out.append(["run:%d" % k, "field:%d" % k, "run:B"])
    out.append(["run:B", "run:B"])
    out.append(["run:B", "field:B"])
    return out


def _reuse(task, rep, M):
    """Worker objects with a history.  A FeatureEdgeDetector is a public worker ('can be given as a parameter in ... frame field
    algorithms'); SurfaceFrameField documents `custom_features` / `custom_connection`.  For every history of _reuse_histories the
    detector is handed to the field on B (alone, or together with a connection built from it): every clause (C18.reuse.<clause>)
    and C18.reuse.features / .constraints / .field: the same feature edges, constraints and directions as with a detector that
    was created for B and run once."""
    from mc import families as F
    from mc import c18_lib as L
    pts, faces, el, name = task["pts"], [tuple(f) for f in task["faces"]], task["el"], task["mesh"]
    others = task["others"]
    P = M.processing
    Conn = P.SurfaceConnectionVertices if el == "vertices" else P.SurfaceConnectionFaces
    geoB = L.Geo(pts, faces)
    sharpB = {e for e, d in geoB.dihedral_dots().items() if d < 0.5} | set(geoB.border_edges)
    for k, (on, op, of) in enumerate(others):
        g = L.Geo(op, [tuple(f) for f in of])
        sharp = {e for e, d in g.dihedral_dots().items() if d < 0.5 - 1e-6} | set(g.border_edges)
        if sharp - sharpB:
            rep.flag("reuse:other_surface_has_feature_edges_B_has_not" + (":same_connectivity" if [tuple(f) for f in of] == faces else ""))
        if len(g.E) > len(geoB.E):
            rep.flag("reuse:other_surface_has_more_edges")
    other_el = "faces" if el == "vertices" else "vertices"

    def detector(cfg):
        return P.FeatureEdgeDetector(only_border=False, corner_order=(cfg["order"] if el == "vertices" else 4),
                                     compute_feature_graph=bool(task["graph"]), verbose=False)

    def extra(det, mesh, use):
        e = {"custom_features": det}
        if use == "features+connection":
            e["custom_connection"] = Conn(mesh, det)
        return e

    for cfg in _reuse_configs(el, task["full"]):
        for use in REUSE_USES:
            meshB = F.build_surface(pts, faces)
            det = detector(cfg)
            o = call(det.run, meshB)
            ref = _check(rep, M, name, pts, faces, cfg, mesh=meshB, extra=extra(det, meshB, use)) if o.ok else None
            if ref is not None and not ref["gated"]:
                rep.flag("reuse:reference:" + use)
            for hist in _reuse_histories(len(others)):
                meshB = F.build_surface(pts, faces)
                det = detector(cfg)
                failed = None
                for step in hist:
                    what, where = step.split(":")
                    if where == "B":
                        m, mp, mf = meshB, pts, faces
                    else:
                        on, mp, mf = others[int(where)]
                        mf = [tuple(f) for f in mf]
                        m = F.build_surface(mp, mf) if what == "run" else m_prev
                    if what == "run":
                        o = call(det.run, m)
                        rep.transitions += 1
                        m_prev = m
                        if not o.ok:
                            failed = (step, o)
                            break
                    else:
                        c2 = dict(cfg, ns=0) if where != "B" else dict(cfg, ns=0, el=other_el)
                        ex = {"custom_features": det}
                        r2 = _execute(M, mp, mf, c2, True, mesh=m, extra=ex)
                        rep.transitions += 3
                        rep.outcome("reuse_intermediate_field", "ok" if r2.ok else "raises")
                rep.count("reuse:histories:" + el)
                rep.case(("reuse", name, sorted(cfg.items()), use, hist))
                rep.flag("reuse:history:" + "+".join(s.split(":")[0] + ":" + ("B" if s.endswith(":B") else "A") for s in hist))
                icls = "%s:bordered:reused_detector" % el
                hctx = {"mesh": name, "pts": pts, "faces": task["faces"], "cfg": cfg, "handed_to_the_field": use,
                        "history_of_the_detector_object": [s if s.endswith(":B") else s.split(":")[0] + ":" + others[int(s.split(":")[1])][0] for s in hist],
                        "other_surfaces": {on: {"pts": op, "faces": of} for on, op, of in others},
                        "detector": "FeatureEdgeDetector(only_border=False, corner_order=%d, compute_feature_graph=%r, verbose=False)" % (
                            cfg["order"] if el == "vertices" else 4, bool(task["graph"]))}
                if failed is not None:
                    rep.violation("C18.reuse.run", "FeatureEdgeDetector.run", exc_kind(failed[1]), icls, dict(hctx, step=failed[0], msg=failed[1].msg[:300]))
                    continue
                got = _check(rep, M, name, pts, faces, cfg, mesh=meshB, extra=extra(det, meshB, use),
                             hist={"before": [], "cls": ":reused_detector", "sub": "C18.reuse."})
                _same(rep, ref, got, cfg, "C18.reuse", hctx, ":reused_detector", True, feat_icls=icls)
    rep.count("reuse:tasks")
    if len(rep.samples) < 1:
        rep.sample({"mesh": name, "faces": task["faces"], "element": el, "other_surfaces": [o[0] for o in others],
                    "histories": _reuse_histories(len(others))})


# ------------------------------------------------------------------------------------------ documented defaults / call forms
# Every option of every public entry point this property exercises, in the documented order, with its documented default
# (copied from the signatures / 'Defaults to' lines of the unchanged tree; where the two disagree the signature wins:
# inverse_power_method.tol).  NOT read from the library at run time: a changed default changes the signature too.
REQ = "<required>"
DOC_SIGNATURES = {
    "framefield.SurfaceFrameField": [("mesh", REQ), ("elements", REQ), ("order", 4), ("features", True), ("verbose", False), ("n_smooth", 3),
                                     ("smooth_attach_weight", None), ("use_cotan", True), ("cad_correction", True), ("smooth_normals", True),
                                     ("singularity_indices", None), ("custom_connection", None), ("custom_features", None)],
    "FrameField2DFaces.flag_singularities": [("singul_attr_name", "singuls")],
    "FrameField2DVertices.flag_singularities": [("singul_attr_name", "singuls")],
    "operators.laplacian": [("mesh", REQ), ("cotan", True), ("connection", None), ("order", 4)],
    "operators.laplacian_triangles": [("mesh", REQ), ("cotan", True), ("connection", None), ("order", 4)],
    "operators.cotan_edge_diagonal": [("mesh", REQ), ("inverse", True)],
    "operators.area_weight_matrix": [("mesh", REQ), ("inverse", False), ("sqrt", False), ("format", "csc")],
    "operators.area_weight_matrix_faces": [("mesh", REQ), ("inverse", False), ("format", "csc")],
    "optimize.inverse_power_method": [("A", REQ), ("m", 0.0), ("B", None), ("maxiter", 100), ("tol", 1e-10)],
    "processing.SurfaceConnectionVertices": [("mesh", REQ), ("feat", None)],
    "processing.SurfaceConnectionFaces": [("mesh", REQ), ("feat", None)],
}
# a value other than the default for every option ('@...' = an object built on the mesh of the call, see _dflt_resolve): used to
# decide, on the input at hand, whether the option matters at all (vacuity guard) and as the values of the positional forms
DOC_OTHER = {
    "framefield.SurfaceFrameField": {"order": 3, "features": False, "verbose": True, "n_smooth": 1, "smooth_attach_weight": 0.75, "use_cotan": False,
                                     "cad_correction": False, "smooth_normals": False, "singularity_indices": "@zero_indices",
                                     "custom_connection": "@connection", "custom_features": "@border_features"},
    "FrameField2DFaces.flag_singularities": {"singul_attr_name": "c18_other_name"},
    "FrameField2DVertices.flag_singularities": {"singul_attr_name": "c18_other_name"},
    "operators.laplacian": {"cotan": False, "connection": "@connection", "order": 3},
    "operators.laplacian_triangles": {"cotan": False, "connection": "@connection", "order": 3},
    "operators.cotan_edge_diagonal": {"inverse": False},
    "operators.area_weight_matrix": {"inverse": True, "sqrt": True, "format": "csr"},
    "operators.area_weight_matrix_faces": {"inverse": True, "format": "csr"},
    "optimize.inverse_power_method": {"m": 0.25, "B": "@mass", "maxiter": 2, "tol": 1e-2},
    "processing.SurfaceConnectionVertices": {"feat": "@features"},
    "processing.SurfaceConnectionFaces": {"feat": "@features"},
}
# further assignments of the options (the ones not named keep their default) under which every option is omitted in turn / the
# positional forms are run: an option can be inert under the defaults of the others (vertices: 'features' and 'smooth_normals'
# under cad_correction=True; 'order' of a Laplacian without connection)
DOC_BASES = {
    "framefield.SurfaceFrameField": [{}, {"cad_correction": False}],
    "operators.laplacian": [{}, {"connection": "@connection"}],
    "operators.laplacian_triangles": [{}, {"connection": "@connection"}],
}
# value vectors of the positional forms (adjacent options differ in both vectors, so that two exchanged neighbours show)
DOC_VECTORS = {
    "framefield.SurfaceFrameField": [
        {"order": 3, "features": False, "verbose": True, "n_smooth": 1, "smooth_attach_weight": 0.75, "use_cotan": False, "cad_correction": True,
         "smooth_normals": False},
        {"order": 2, "features": True, "verbose": False, "n_smooth": 0, "use_cotan": True, "cad_correction": False, "smooth_normals": True},
        {"order": 4, "features": True, "n_smooth": 2, "cad_correction": False, "custom_connection": "@connection", "custom_features": "@border_features"}],
}
DFLT_EL = {"FrameField2DFaces.flag_singularities": "faces", "FrameField2DVertices.flag_singularities": "vertices", "operators.laplacian": "vertices",
           "operators.laplacian_triangles": "faces", "operators.cotan_edge_diagonal": "faces", "operators.area_weight_matrix": "vertices",
           "operators.area_weight_matrix_faces": "faces", "processing.SurfaceConnectionVertices": "vertices",
           "processing.SurfaceConnectionFaces": "faces"}
# options that cannot change anything on any input of the family (measured on the unchanged tree, asserted by finish the other way
# round: every option NOT listed here changed the result on some input when given its other value)
DFLT_NEVER_MATTERS = set()
DFLT_TOL = 1e-7


def _dflt_meshes(tier):
    """inputs of the defaults dimension: a 5x4 grid folded along a sharp ridge (bordered; 3 interior feature edges, free vertices and
    free faces left when they are constrained), the icosahedron (closed, nothing constrained: eigen-solve path); thorough: + the
    lifted 3x4 grid, the 3x3 torus"""
    from mc import families as F
    p, f = F.grid(5, 4, "tri", z=lambda i, j: 1.5 * abs(i - 2) + (j * j) / 16.0 + (i * j) / 32.0)
    out = [("ridge5x4", [list(map(float, q)) for q in p], [list(t) for t in f])]
    out += [(n, p, f) for n, p, f in _closed() if n == "icosahedron" or (tier != "quick" and n == "torus3x3")]
    if tier != "quick":
        p, f = _grid(3, 4)
        out.append(("grid3x4", p, f))
    return out


def _dflt_tasks(tier):
    out = [{"kind": "defaults", "part": "signature"}]
    for name, p, f in _dflt_meshes(tier):
        for el in ("vertices", "faces"):
            out.append({"kind": "defaults", "part": "forms", "callees": ["framefield.SurfaceFrameField"], "mesh": name, "pts": p, "faces": f, "el": el})
            out.append({"kind": "defaults", "part": "forms", "callees": sorted(c for c, e in DFLT_EL.items() if e == el) + ["optimize.inverse_power_method"],
                        "mesh": name, "pts": p, "faces": f, "el": el})
    # the octahedron (every edge sharper than the feature threshold, 240 degrees around every vertex: the features change the
    # charts of the vertex connection): operators and connections only
    for name, p, f in _closed():
        if name == "octahedron":
            for el in ("vertices", "faces"):
                out.append({"kind": "defaults", "part": "forms", "callees": sorted(c for c, e in DFLT_EL.items() if e == el and not c.endswith(".flag_singularities")),
                            "mesh": name, "pts": p, "faces": f, "el": el})
    return out


class _seeded:
    """np.random and scipy.sparse.linalg.eigsh seeded from VERIF_SEED for the duration of one call (same seam as _execute)"""

    def __enter__(self):
        import numpy as np
        import scipy.sparse.linalg as spl
        self.spl, self.eigsh0 = spl, spl.eigsh
        eigsh0 = self.eigsh0

        def eigsh_seeded(*a, **k):
            if k.get("v0") is None and k.get("rng") is None:
                k["rng"] = np.random.default_rng(SEED)
            return eigsh0(*a, **k)
        np.random.seed(SEED)
        spl.eigsh = eigsh_seeded
        return self

    def __exit__(self, *a):
        self.spl.eigsh = self.eigsh0
        return False


def _dflt_resolve(M, mesh, el, v):
    if not (isinstance(v, str) and v.startswith("@")):
        return v
    P = M.processing
    if v == "@connection":
        return (P.SurfaceConnectionVertices if el == "vertices" else P.SurfaceConnectionFaces)(mesh)
    if v in ("@features", "@border_features"):
        d = P.FeatureEdgeDetector(only_border=(v == "@border_features"), verbose=False)
        d.run(mesh)
        return d
    if v == "@zero_indices":
        return (mesh.faces if el == "vertices" else mesh.vertices).create_attribute("c18_indices", float)
    if v == "@mass":
        return (M.operators.area_weight_matrix(mesh) if el == "vertices" else M.operators.area_weight_matrix_faces(mesh)).tocsc()
    raise AssertionError(v)


def _dflt_function(M, callee):
    from mouette import framefield as ff
    if callee == "framefield.SurfaceFrameField":
        return ff.SurfaceFrameField
    mod, name = callee.split(".")
    return getattr(getattr(M, mod), name)


def _dense(x):
    import numpy as np
    return np.asarray(x.todense()) if hasattr(x, "todense") else np.asarray(x)


def _dflt_call(M, callee, el, pts, faces, args, kwargs, inp="mesh"):
    """One call of the entry point `callee` on a fresh mesh with the options `args` (positionally, after the required arguments) and
    `kwargs` -> record {field: value} of everything observable about the result (compared field by field by _rec_diff)."""
    import contextlib, io
    import numpy as np
    from mc import families as F
    mesh = F.build_surface(pts, faces)
    a = [_dflt_resolve(M, mesh, el, v) for v in args]
    k = {n: _dflt_resolve(M, mesh, el, v) for n, v in kwargs.items()}
    rec, buf = {}, io.StringIO()
    with _seeded(), contextlib.redirect_stdout(buf):
        if callee == "framefield.SurfaceFrameField" or callee.endswith(".flag_singularities"):
            flag = callee.endswith(".flag_singularities")
            stage = "construct"
            if flag:
                o = call(_dflt_function(M, "framefield.SurfaceFrameField"), mesh, el, order=4, n_smooth=0, cad_correction=False, verbose=False)
            else:
                o = call(_dflt_function(M, callee), mesh, el, *a, **k)
            if o.ok:
                f = o.value
                rec["class"], stage = type(f).__name__, "initialize"
                if flag and type(f).__name__ != callee.split(".")[0]:
                    rec["class_unexpected"] = True
                o = call(f.initialize)
            if o.ok:
                rec["connection"] = type(f.conn).__name__
                rec["feature_edges"] = sorted(sorted(int(x) for x in mesh.edges[e]) for e in f.feat.feature_edges)
                rec["constraints"] = np.array(f.var, dtype=complex).copy()
                stage = "run"
                o = call(f.run)
            if o.ok:
                rec["field"] = np.array(f.var, dtype=complex).copy()
                stage = "flag_singularities"
                conts = {c: getattr(mesh, c) for c in ("vertices", "edges", "faces", "face_corners")}
                before = {c: set(x.attributes) for c, x in conts.items()}
                o = call(f.flag_singularities, *a, **k) if flag else call(f.flag_singularities)
                if o.ok:
                    rec["attributes_created"] = sorted("%s.%s" % (c, n) for c, x in conts.items() for n in set(x.attributes) - before[c])
                    for nm in rec["attributes_created"]:
                        c, n = nm.split(".", 1)
                        attr = conts[c].get_attribute(n)
                        oa = call(lambda: np.array([np.ravel(np.asarray(attr[i], dtype=float)) for i in range(len(conts[c]))]))
                        rec["attribute:" + nm] = oa.value if oa.ok else "unreadable:" + str(oa.exc)
            if not o.ok:
                rec["raises"] = stage + ":" + str(o.exc)
        elif callee == "optimize.inverse_power_method":
            import scipy.sparse as sp
            if inp == "slow_diagonal":
                # eigenvalues 1 and 1.02: the iteration gains a factor 1.02 per step, tol=1e-10 is not reached within 100 steps
                A = sp.diags([1.0, 1.02, 2.0, 3.0], format="csc")
            else:
                conn = _dflt_resolve(M, mesh, el, "@connection")
                A = (M.operators.laplacian if el == "vertices" else M.operators.laplacian_triangles)(mesh, cotan=True, connection=conn, order=4).tocsc()
            np.random.seed(SEED)
            o = call(_dflt_function(M, callee), A, *a, **k)
            if o.ok:
                rec["eigenvector"] = np.asarray(o.value)
            else:
                rec["raises"] = str(o.exc)
        elif callee.startswith("operators."):
            o = call(_dflt_function(M, callee), mesh, *a, **k)
            if o.ok:
                rec["matrix"] = _dense(o.value)
                rec["complex"] = bool(np.iscomplexobj(rec["matrix"]))
                if any(n == "format" for n, _ in DOC_SIGNATURES[callee]):
                    rec["format"] = str(getattr(o.value, "format", None))
            else:
                rec["raises"] = str(o.exc)
        else:       # connections
            o = call(_dflt_function(M, callee), mesh, *a, **k)
            if o.ok:
                conn = o.value
                geo_he = sorted({(int(f[i]), int(f[(i + 1) % 3])) for f in faces for i in range(3)} | {(int(f[(i + 1) % 3]), int(f[i])) for f in faces for i in range(3)})
                o = call(lambda: None)
                if el == "vertices":
                    o = call(lambda: np.array([conn.transport(u, v) for (u, v) in geo_he]))
                else:
                    nb = {}
                    for t, f in enumerate(mesh.faces):
                        for i in range(3):
                            nb.setdefault(tuple(sorted((int(f[i]), int(f[(i + 1) % 3])))), []).append(t)
                    pairs = sorted(p for ts in nb.values() if len(ts) == 2 for p in (tuple(ts), tuple(ts[::-1])))
                    o = call(lambda: np.array([conn.transport(s, t) for (s, t) in pairs]))
                if o.ok:
                    rec["transport"] = o.value
                    n = len(pts) if el == "vertices" else len(faces)
                    o = call(lambda: np.array([[list(map(float, v)) for v in conn.base(i)] for i in range(n)]))
                if o.ok:
                    rec["bases"] = o.value
            if not o.ok:
                rec["raises"] = str(o.exc)
    rec["printed_something"] = bool(buf.getvalue().strip())
    return rec


def _rec_diff(a, b):
    """name of the first field in which two records differ (None: same)"""
    import numpy as np
    for k in list(a) + [k for k in b if k not in a]:      # in the order the fields were observed (cause before consequence)
        if k not in a or k not in b:
            return k
        x, y = a[k], b[k]
        if isinstance(x, np.ndarray) or isinstance(y, np.ndarray):
            x, y = np.asarray(x), np.asarray(y)
            if x.shape != y.shape:
                return k
            fin = np.abs(y[np.isfinite(y)]) if y.size else y
            if not np.allclose(x, y, rtol=0.0, atol=DFLT_TOL * max(1.0, float(fin.max()) if fin.size else 1.0), equal_nan=True):
                return k
        elif x != y:
            return k
    return None


def _rec_json(rec):
    import numpy as np
    out = {}
    for k, v in rec.items():
        if isinstance(v, np.ndarray):
            v = [complex(z) if np.iscomplexobj(v) else float(z) for z in v.ravel()[:12]]
        out[k] = v
    return out


def _dflt_signature(rep, M):
    """the pinned table against inspect.signature(): names, order, kinds and default values"""
    import inspect
    from mc import families as F
    fns = {}
    p, f = _grid(3, 3)
    for el, key in (("faces", "FrameField2DFaces.flag_singularities"), ("vertices", "FrameField2DVertices.flag_singularities")):
        o = call(_dflt_function(M, "framefield.SurfaceFrameField"), F.build_surface(p, f), el, verbose=False)
        if o.ok and type(o.value).__name__ == key.split(".")[0]:
            fns[key] = type(o.value).flag_singularities
    for callee, doc in sorted(DOC_SIGNATURES.items()):
        fn = fns.get(callee) if callee.endswith(".flag_singularities") else call(_dflt_function, M, callee).value
        if fn is None:
            rep.violation("C18.defaults.signature", callee, "mismatch:entry_point_missing", "entry_point", {"callee": callee})
            continue
        o = call(inspect.signature, fn)
        if not o.ok:
            rep.violation("C18.defaults.signature", callee, exc_kind(o), "signature", {"msg": o.msg})
            continue
        params = [(n, q) for n, q in o.value.parameters.items() if n != "self"]
        named = [(n, q) for n, q in params if q.kind not in (q.VAR_KEYWORD, q.VAR_POSITIONAL)]
        det = {"callee": callee, "documented": [[n, repr(d)] for n, d in doc],
               "signature": [[n, repr(q.default) if q.default is not q.empty else REQ] for n, q in named]}
        rep.evaluations += 1
        for i, (n, d) in enumerate(doc):
            rep.flag("defaults:signature:%s:%s" % (callee, n))
            got = dict(named).get(n)
            if got is None:
                rep.violation("C18.defaults.signature", callee, "mismatch:parameter_missing", n, det)
                continue
            if [m for m, _ in named].index(n) != i:
                rep.violation("C18.defaults.signature", callee, "mismatch:parameter_order", n, det)
            if got.kind != got.POSITIONAL_OR_KEYWORD:
                rep.violation("C18.defaults.signature", callee, "mismatch:parameter_kind", n, det)
            have = REQ if got.default is got.empty else got.default
            if not (type(have) is type(d) and have == d):
                rep.violation("C18.defaults.signature", callee, "mismatch:default_value", n, det)
        for n, q in named:
            if n not in dict(doc):
                rep.violation("C18.defaults.signature", callee, "mismatch:undocumented_parameter", n, det)
    rep.traces += 1


def _dflt_forms(task, rep, M):
    """For every entry point of the task: (a) omitted: under every base assignment of DOC_BASES, every option at its documented
    default omitted in turn, and all of them omitted together, must give what passing the documented defaults explicitly gives;
    (b) positional: the options passed positionally in the documented order (every prefix; the rest by keyword) must give what
    the same values give by keyword - on the base assignments and on the value vectors of DOC_VECTORS / DOC_OTHER;
    (c) vacuity: does the other value of an option change the result on this input (flag defaults:matters:...)."""
    pts, faces, el, name = task["pts"], task["faces"], task["el"], task["mesh"]
    for callee in task["callees"]:
        doc = [(n, d) for n, d in DOC_SIGNATURES[callee] if not (isinstance(d, str) and d == REQ)]
        names = [n for n, _ in doc]
        default = dict(doc)
        inputs = ["mesh"] + (["slow_diagonal"] if callee == "optimize.inverse_power_method" else [])
        for inp in inputs:
            cls_in = "" if inp == "mesh" else ":" + inp
            ctx = {"callee": callee, "mesh": name, "pts": pts, "faces": faces, "element": el, "input": inp,
                   "documented_defaults": {n: repr(d) for n, d in doc}}

            def run(args, kwargs):
                rep.traces += 1
                rep.transitions += 1
                return _dflt_call(M, callee, el, pts, faces, args, kwargs, inp)

            def judge(sub, cls, ref, got, form, kind_extra=""):
                rep.evaluations += 1
                d = _rec_diff(ref, got)
                rep.outcome("defaults_form", "same" if d is None else "differs")
                if d is not None:
                    kind = ("raises:" + got["raises"].split(":")[-1]) if d == "raises" and "raises" in got else "mismatch:" + d.split(":")[0]
                    rep.violation(sub, callee, kind, cls + cls_in, dict(ctx, call=form, differs_in=d, expected=_rec_json(ref), got=_rec_json(got)))
            bases = DOC_BASES.get(callee, [{}]) if inp == "mesh" else [{}]
            for ib, base in enumerate(bases):
                full = dict(default, **base)
                ref = run([], full)
                rep.case(("defaults", callee, name, el, inp, ib))
                rep.states += 1
                if "raises" in ref:
                    rep.count("defaults:reference_call_raises")
                    rep.flag("defaults:reference_raises:%s:%s" % (callee, name))
                # (a) omitted, one at a time / all together
                for n in names:
                    if n in base:
                        continue
                    kw = {m: v for m, v in full.items() if m != n}
                    judge("C18.defaults.omitted", n, ref, run([], kw), {"keywords": {m: repr(v) for m, v in kw.items()}, "omitted": [n]})
                    rep.flag("defaults:omitted_alone:%s:%s" % (callee, n))
                    # (c) does it matter here?
                    oth = run([], dict(full, **{n: DOC_OTHER[callee][n]}))
                    if _rec_diff(ref, oth) is not None:
                        rep.flag("defaults:matters:%s:%s" % (callee, n))
                        rep.flag("defaults:matters:%s:%s:%s" % (callee, n, el))
                if len(names) > 1 or base:
                    judge("C18.defaults.omitted", "all_options_together" if not base else "all_other_options_together", ref, run([], dict(base)),
                          {"keywords": {m: repr(v) for m, v in base.items()}, "omitted": [n for n in names if n not in base]})
                for n in names:
                    if n not in base:
                        rep.flag("defaults:omitted_together:%s:%s" % (callee, n))
                # (b) positional, full length, on the base assignment
                judge("C18.defaults.positional", "all_positional", ref, run([full[n] for n in names], {}),
                      {"positional": [repr(full[n]) for n in names]})
            if inp != "mesh":
                # the input exists to make maxiter matter: 100 steps are not enough, one more step changes the answer
                if _rec_diff(run([], dict(default)), run([], dict(default, maxiter=default["maxiter"] + 1))) is not None:
                    rep.flag("defaults:slow_diagonal:documented_maxiter_is_binding")
                continue
            vectors = DOC_VECTORS.get(callee, [DOC_OTHER[callee], {}])
            for vec in vectors:
                full = dict(default, **vec)
                ref = run([], full)
                for k in range(1, len(names) + 1):
                    got = run([full[n] for n in names[:k]], {n: full[n] for n in names[k:]})
                    judge("C18.defaults.positional", "positional_upto:" + names[k - 1], ref, got,
                          {"positional": [repr(full[n]) for n in names[:k]], "keywords": {n: repr(full[n]) for n in names[k:]}})
                    rep.flag("defaults:positional:%s:%s" % (callee, names[k - 1]))
                    # adjacent exchange would show: the two values differ
                    if k >= 2 and repr(full[names[k - 1]]) != repr(full[names[k - 2]]):
                        rep.flag("defaults:positional_neighbours_differ:%s:%s" % (callee, names[k - 1]))
    rep.count("defaults:tasks")
    if len(rep.samples) < 1:
        rep.sample({"mesh": name, "faces": faces, "element": el, "entry_points": task["callees"], "forms": ["omitted", "positional", "keyword"]})


def _defaults(task, rep, M):
    if task["part"] == "signature":
        _dflt_signature(rep, M)
    else:
        _dflt_forms(task, rep, M)


def _dflt_finish(tier, rep):
    fails = []
    for callee, doc in sorted(DOC_SIGNATURES.items()):
        for n, d in doc:
            if "defaults:signature:%s:%s" % (callee, n) not in rep.flags:
                fails.append("defaults: %s(%s) never compared with the signature" % (callee, n))
            if isinstance(d, str) and d == REQ:
                continue
            for what in ("omitted_alone", "omitted_together", "positional"):
                if "defaults:%s:%s:%s" % (what, callee, n) not in rep.flags:
                    fails.append("defaults: coverage flag missing: %s:%s:%s" % (what, callee, n))
            if (callee, n) not in DFLT_NEVER_MATTERS and "defaults:matters:%s:%s" % (callee, n) not in rep.flags:
                fails.append("defaults: the option %s of %s never changed the result on any input (a changed default could not show)" % (n, callee))
    for n, _ in DOC_SIGNATURES["framefield.SurfaceFrameField"][2:10]:
        for el in ("vertices", "faces"):
            if (el, n) in (("faces", "cad_correction"), ("faces", "smooth_normals")):
                continue        # documented: not options of the face-based field
            if "defaults:matters:framefield.SurfaceFrameField:%s:%s" % (n, el) not in rep.flags:
                fails.append("defaults: SurfaceFrameField(%s): option %s never changed the result" % (el, n))
    if "defaults:slow_diagonal:documented_maxiter_is_binding" not in rep.flags:
        fails.append("defaults: inverse_power_method converged within the documented maxiter on the slow input (a larger default could not show)")
    if "same" not in rep.outcomes.get("defaults_form", ()):
        fails.append("defaults: no call form ever agreed with its reference")
    if not rep.counters.get("defaults:tasks"):
        fails.append("no defaults task was run")
    return fails


def _feat_cls(A, B):
    if A["feat"] == B["feat"]:
        return ""
    return ":features_on_then_off" if A["feat"] else ":features_off_then_on"


def run_task(task, rep: Report):
    import numpy as np
    import mouette as M
    state = np.random.get_state()
    try:
        np.random.seed(SEED)
        if task["kind"] == "sweep":
            _sweep(task, rep, M)
        elif task["kind"] == "relabel":
            _relabel(task, rep, M)
        elif task["kind"] == "history":
            _history(task, rep, M)
        elif task["kind"] == "deviation":
            _deviation(task, rep, M)
        elif task["kind"] == "defaults":
            _defaults(task, rep, M)
        elif task["kind"] == "flatdomain":
            _flatdomain(task, rep, M)
        elif task["kind"] == "observers":
            _observers(task, rep, M)
        elif task["kind"] == "reuse":
            _reuse(task, rep, M)
        else:
            _listing(task, rep, M)
    finally:
        np.random.set_state(state)
        if DEV["cls"] or DEV["scale"] != 1.0 or M.config.sort_neighborhoods is not True:
            # cannot happen (_dev restores in __exit__); guarded by finish()
            rep.flag("dev:context_or_switch_left_set")
            DEV["cls"], DEV["scale"] = "", 1.0
            M.config.sort_neighborhoods = True


def finish(tier, rep: Report):
    fails = []
    need = ["closed", "bordered", "el:vertices", "el:faces", "fixed_and_free:vertices", "fixed_and_free:faces",
            "all_fixed:vertices", "face_one_constrained_edge", "vertex_constraint_mean", "vertex_constraint_follow",
            "harmonic:vertices", "harmonic:faces", "hermitian_checked:vertices", "hermitian_checked:faces",
            "flat_checked:vertices", "flat_checked:faces", "complex_entries:vertices", "complex_entries:faces",
            "independent_assembly_agrees:faces", "relabeling", "face_listing_deviation", "face_start_rotation",
            "chi=1", "chi=2", "chi=0", "interior_feature_edges",
            "planar_lattice_polygon:vertices", "planar_lattice_polygon:faces",
            "harmonic:lattice_polygon:vertices", "harmonic:lattice_polygon:faces", "harmonic:lattice_polygon:vertices:flatconn",
            "harmonic:lattice_polygon:faces:flatconn", "harmonic:2nd_field_on_mesh:vertices", "harmonic:2nd_field_on_mesh:faces",
            "lattice_corner_turning:45", "lattice_corner_turning:90", "lattice_corner_turning:135", "lattice_corner_turning:-90",
            "opposed_corner:guarded:order2", "opposed_corner:guarded:order4", "opposed_corner:guarded:order6",
            "history:faces_after_faces", "history:faces_after_vertices", "history:vertices_after_faces",
            "history:vertices_after_vertices", "history:other_order", "history:other_n_smooth",
            "history:first_field_left_attributes_on_mesh", "history:create_attribute_returns_new",
            "history:features_on_then_off:faces", "history:features_off_then_on:faces",
            "history:features_on_then_off:vertices", "history:features_off_then_on:vertices",
            "history:index_quantum_and_sum_checked_on_2nd_field_after_faces",
            "history:index_quantum_and_sum_checked_on_2nd_field_after_vertices"]
    # the same histories under config.display_duplicate_attribute_warning = True (dupflag_variant)
    need += [f.replace("history:", "history:dupflag:", 1) for f in need if f.startswith("history:") and f != "history:create_attribute_returns_new"]
    need.append("history:dupflag:create_attribute_returns_existing")
    for f in need:
        if f not in rep.flags:
            fails.append("coverage flag missing: " + f)
    if len(rep.outcomes.get("index_quanta", ())) < 2:
        fails.append("singularity indices took a single value over the whole run")
    if "equal" not in rep.outcomes.get("harmonic", ()):
        fails.append("harmonic-extension clause never held")
    if "same" not in rep.outcomes.get("invariance", ()):
        fails.append("invariance clause never held")
    if "tangent" not in rep.outcomes.get("face_constraint", ()):
        fails.append("face constraint clause never held")
    if "A_has_vertices_B_has_not" not in rep.outcomes.get("history_singular_vertices", ()):
        fails.append("history: no pair of fields where the first one flags a vertex that the second one does not (a left-over index could not show)")
    if "unit" not in rep.outcomes.get("corner_constraint_defined", ()):
        fails.append("border-corner constraints were never all of unit modulus")
    if not rep.outcomes.get("opposed_corner_constraint"):
        fails.append("no border corner with exactly opposite edge contributions reached the constraint clause")
    if "history:dupflag:create_attribute_returns_new" in rep.flags or "history:create_attribute_returns_existing" in rep.flags:
        fails.append("history: the duplicate-attribute switch did not have its documented meaning in some task (or was left switched by one)")
    if not rep.counters.get("duplicate_attribute_flag:tasks"):
        fails.append("no history task was run under config.display_duplicate_attribute_warning = True")
    # ---- deviation dimensions (unit of length, unsorted vertex rings)
    dev_need = ["dev:unit:scaling_exact", "dev:unit:exact_lattice_predicates_on_unscaled_coordinates",
                "dev:sort=False:some_ring_listed_in_another_order"]
    for cls in [":unit=2^%d" % e for e in UNIT_EXPS] + [":sort=False"]:
        for el in ("vertices", "faces"):
            dev_need += ["dev%s:%s:bordered" % (cls, el), "dev%s:%s:closed" % (cls, el), "dev%s:harmonic:%s" % (cls, el),
                         "dev%s:features_compared:%s" % (cls, el), "dev%s:field_compared:%s" % (cls, el)]
            if cls != ":sort=False":
                dev_need.append("dev%s:constraints_compared:%s" % (cls, el))
            else:
                dev_need += ["dev:sort=False:face_in_position_0:compared:" + el, "dev:sort=False:vertex_in_position_0:compared:" + el]
    for f in dev_need:
        if f not in rep.flags:
            fails.append("coverage flag missing: " + f)
    for f in ("dev:unit:scaling_inexact", "dev:context_or_switch_left_set", "dev:sort_switch_found_off"):
        if f in rep.flags:
            fails.append("deviation dimension: " + f)
    if not rep.counters.get("dev:tasks"):
        fails.append("no deviation task was run")
    for el in ("vertices", "faces"):
        # every face of every deviation mesh was moved to position 0 once per configuration of _zero_configs
        want = rep.counters.get("dev:faces_in_position_0_wanted:" + el, 0) * len(_zero_configs(el))
        if not want or rep.counters.get("dev:sort=False:face_in_position_0:" + el, 0) != want:
            fails.append("deviation dimension: not every face was listed in position 0 (%s)" % el)
    fails += _dflt_finish(tier, rep)
    # ---- planar commensurable domains (connection built by the field vs flat connection)
    need = ["flat_domain:laplacian:vertices", "flat_domain:laplacian:faces"]
    need += ["flat_domain:laplacian:border_charts:order%d" % o for o in (2, 3, 4, 5, 6)]
    need += ["flat_domain:unsnapped_border_vertex:order%d" % o for o in (2, 3, 4, 5, 6)]
    need += ["flat_domain:field_compared:vertices:order%d" % o for o in (3, 4, 5, 6)]      # orders 1, 2: no polygon has only such angles
    need += ["flat_domain:field_compared:faces:order%d" % o for o in range(1, 7)]
    need += ["flat_domain:field_compared:%s:%s" % (el, w) for el in ("vertices", "faces") for w in ("ns0", "ns>0", "cotan", "uniform")]
    need += ["flat_domain:field_compared:vertices:guarded_init", "flat_domain:field_compared:vertices:chart_init"]
    # ---- observer calls
    need += ["observer:%s:%s" % (o, el) for el in ("vertices", "faces") for o in _observer_menu(el)]
    need += ["observer:depth%d:%s" % (d, el) for el in ("vertices", "faces") for d in (1, 2)]
    need += ["observer:singularities_compared:some_nonzero"]
    # ---- re-used detector objects
    need += ["reuse:reference:" + u for u in REUSE_USES]
    need += ["reuse:history:" + h for h in ("run:A+run:B", "run:A+field:A+run:B", "run:B+run:B", "run:B+field:B")]
    need += ["reuse:other_surface_has_feature_edges_B_has_not:same_connectivity", "reuse:other_surface_has_feature_edges_B_has_not",
             "reuse:other_surface_has_more_edges"]
    need += ["dev:reused_detector:%s_compared:%s" % (w, el) for w in ("features", "constraints", "field") for el in ("vertices", "faces")]
    for f in need:
        if f not in rep.flags:
            fails.append("coverage flag missing: " + f)
    for c in ("flat_domain:tasks", "observer:tasks", "reuse:tasks"):
        if not rep.counters.get(c):
            fails.append("no task of the dimension was run: " + c)
    if "differs" not in rep.outcomes.get("flat_domain_snapped_charts", ()):
        fails.append("planar domains: the two connections never gave different fields where charts are snapped (the comparison could not tell them apart)")
    if "scalar_up_to_gauge" not in rep.outcomes.get("flat_domain_laplacian", ()):
        fails.append("planar domains: the Laplacian clause never held")
    if "state_unchanged" not in rep.outcomes.get("observer_calls", ()):
        fails.append("observer calls: no sequence ever left the field unchanged")
    if "ok" not in rep.outcomes.get("reuse_intermediate_field", ()):
        fails.append("re-used detector: no intermediate field using the detector was ever computed")
    if rep.counters.get("observer:tasks"):
        obs_tasks = [t for t in tasks(tier) if t["kind"] == "observers"]
        if rep.counters.get("observer:tasks") == len(obs_tasks):        # (a run restricted by --only is judged by the flags above)
            for el in ("vertices", "faces"):
                want = sum(len(_observer_sequences(el, _observer_depth(c, t))) for t in obs_tasks if t["el"] == el
                           for c in _observer_configs(el) if c["order"] in t["orders"])
                if rep.counters.get("observer:sequences:" + el, 0) != want:
                    fails.append("observer calls: not every word over the menu was run (%s: %d of %d)" % (
                        el, rep.counters.get("observer:sequences:" + el, 0), want))
    return fails


def warm_variant(task, tier):
    """Tasks that are also run on meshes whose attribute blackboard is already filled with (valid) persistent attributes
    (mc/families.py WARM; the runner appends ':warm_attribute_blackboard' to the input class of anything found there)."""
    return bool(task.get("kind") == "sweep")


def dupflag_variant(task, tier):
    """History tasks are run once more with mouette.config.display_duplicate_attribute_warning = True (the runner sets and
    restores the switch): create_attribute then hands back whatever attribute of the same name an earlier field left."""
    return bool(task.get("kind") == "history")
