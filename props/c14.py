"""C14 - procedural generators give valid meshes of the promised shape, for all parameters (S2).

Every public generator of mouette.procedural is called on every admissible parameter vector of a box
(each resolution axis independently, minimal values, radii, centres, end points from an integer lattice,
every combination of the boolean switches, ring defects, covers).  The returned mesh is handed to an
oracle that is written from the property statement and shares no code with the library:

  structural chain (stops at the first broken link, orientation excepted: one report per mesh, and a finding on an
  early link never hides a later clause on the meshes that pass the early link)
      C14.valid.indices_in_range     every face index in [0, #vertices)
      C14.valid.well_formed_faces    every face has >= 3 pairwise distinct vertices
      C14.valid.manifold             every edge in <= 2 faces, faces around a vertex form ONE fan
      C14.valid.no_repeated_face     no two faces on the same vertex set
      C14.valid.orientation          no directed edge used twice          (reported, chain goes on)
      C14.topology                   #components, Euler characteristic (used vertices), #border loops
      C14.valid.no_unused_vertex     reported when the rest of the chain held
  C14.type / C14.switch.*            container type, triangulate / volume / colored / uvs / open / caps
  C14.counts.*                       documented vertex / face counts as functions of the parameters
  C14.geometry.*                     vertices on the named surface, requested corners, regular sampling,
                                     the faces cover the named planar shape, apex angle defect

Every case is run in several argument forms / call protocols, all judged by the same oracle with the same
expectations (the statement quantifies over calls, not over first calls on fresh float objects):
  primary            float-typed points, fresh argument objects, one call                (clauses above)
  repeat             the same argument objects handed to the generator twice in a row, the 2nd result is judged
                                                                                          C14.repeat.<clause>
  int_dtype          centres / corners / end points / point arrays given with an integer dtype (lattice points)
  default_argument   centre left to the documented default (origin), called twice         C14.argform.<clause>
  unit:2^e           unit of length: EVERY length-like argument of the case (radius, major / minor radius, centre,
                     corner and end points, point / vector arrays, the vertices of an input mesh or polyline) multiplied
                     by the exact power of two 2^e (quick 2^-12, 2^-24, 2^12), every generator that has such an
                     argument; the oracle divides the returned coordinates by 2^e (exact) and applies the SAME clauses
                     against the unscaled parameters - topology, counts, orientation, switches unchanged, distances
                     to the named surface within the same tolerance relative to the unit
                                                                                          C14.unit.<clause>
  C14.unit.orientation_side  the consistently oriented surface faces the same way (sign of the enclosed volume / of the
                     flux away from the axis of an open tube) as the result of the same case in unit 1
  C14.args.unchanged after every call of every form: each argument object (points, arrays, input meshes) and each
                     array-valued default argument object of the generator is what it was before the call
Documented defaults and call forms (tasks of kind 'defaults'; table SIGNATURES pinned from the unchanged tree, never read
from the library): for every generator with options - the case with EVERY option at its documented default (cylinder N=50,
torus 50 x 30, sphere_uv 30 x 50, icosphere 3, spherify 0.01, cylindrify 0.05 / 50 ...), for every option the cases in which
that option is at its default and the others are not, and the case in which none is - each run as
  omit:<name>        the option whose value is the documented default left out, the others by name
  omit:ALL           every option left out (the all-default case)             C14.defaults.<clause>
  positional         every argument positionally, in the documented order
  keyword            every option by its documented name                      C14.callform.<clause>
with the expectations of the explicit call (the same oracle), and
  C14.defaults.same_as_explicit / C14.callform.same_as_explicit   the returned mesh (type, positions, elements, attributes
                     and their values) is the one the explicit call of the same case returns
  C14.defaults.signature   names, order and default values of inspect.signature() are the pinned, documented ones
Round 5 (dimensions, each for the whole family):
  C14.valid.coherent_object   'returns a mesh': every returned object (every form, every generator) is asked, through the
                     library's own derived containers and queries, for what follows from its element list: face_corners /
                     cell_corners (values and owners), edges = sides of the faces, connectivity.vertex_to_faces /
                     vertex_to_vertices / direct_face, is_vertex_on_border, boundary_edges (surfaces), vertex_to_cell
                     (volumes), vertex_to_vertices / edge_id (polylines) - compared with an incidence structure computed
                     from the element list alone; one report per object (the first question that went wrong)
  direction family   the axis of cylinder runs through every primitive integer direction of the cube |d|_inf <= 3 (290;
                     thorough <= 4: 578) and through the coordinate axes tilted by 2^-k towards another axis; the input of
                     cylindrify_edges has the 'star' of the same directions (unit edges, so the radius clause applies)
  ownership          what the caller keeps, edited later, both ways (FORMS['ownership']): C14.ownership.result_follows_argument,
                     C14.ownership.argument_follows_result, C14.ownership.vertices_own_their_storage
  input:stale / input:warm   history of the input MESH of dual_mesh / cylindrify_edges / spherify_vertices (attributes
                     requested and the generator called on the object before / after its vertices got the tested
                     positions), judged by the same oracle                                  C14.history.<clause>
A finding of a further form is reported only when the primary form of the same case did not show the same clause
with the same witness (so a known finding is not reported a second time under another name; in another unit of length
the witness is expressed in that unit, and scaling by a power of two is exact, so the witnesses coincide).
"""
from __future__ import annotations
import itertools, math
from mc.core import Report, call, exc_kind

ID = "C14"
TECHNIQUE = "bounded-exhaustive sweep of the generators' parameter boxes vs independent topology/geometry oracle"
RULE = ("one case = one (generator, parameter vector): every generator of mouette.procedural x every point of its "
        "parameter box (each resolution axis independently incl. unequal and minimal values, radii, centres, lattice "
        "end points, every combination of boolean switches, ring defects, covers); distinct = distinct (generator, "
        "parameters); non-trivial = the generator returned a mesh that was handed to the oracle; every case is run as "
        "primary (fresh float arguments, one call), repeat (same argument objects, two calls in a row, second result "
        "judged), int_dtype (integer-typed lattice points / arrays, where the generator takes points) and "
        "default_argument (centre omitted, two calls in a row, where the centre has a default) and unit:2^e (every "
        "length-like argument multiplied by an exact power of two, the returned coordinates divided by it before the "
        "oracle sees them, where the generator has a length-like argument), with identical expectations, and all "
        "argument / default-argument objects are compared before and after each call; documented defaults and call "
        "forms: per generator with options the all-default case, per option the cases with that option (only) at its "
        "default, and the no-default case, each called with the option left out / all options left out / all arguments "
        "positional / all options by keyword, judged by the same oracle and compared with the mesh of the explicit call; "
        "the signature of every generator compared with the pinned documented one; round 5: the axis of cylinder and the "
        "edges of the input of cylindrify_edges run through every primitive integer direction of a cube and the tilted "
        "coordinate axes; every returned object is asked its derived containers and connectivity (coherent object); every "
        "case is run once more as 'ownership' (arguments edited in place after the call / result moved in place: neither "
        "follows the other, every vertex moves once) and, for generators that take a mesh, with an input object that has "
        "a past (stale / warm attribute blackboard, the generator's own earlier call)")
ASSUMPTIONS = [
    "admissible = periodic resolutions >= 3 (torus segments, cylinder N, sphere_uv n_long, ring N), sphere_uv n_lat >= 2, "
    "grid / unit_triangle resolutions >= 2, sphere_fibonacci n_pts >= 4, torus minor_radius < major_radius, "
    "non-degenerate lattice end points; dual_mesh 'circumcenter' only on triangle meshes",
    "resolutions, radii, centres and end points restricted to the boxes listed in coverage.bounds; inside the box the "
    "enumeration is exhaustive (full cartesian product, no sampling)",
    "geometry compared in floating point with tolerance 1e-9 (relative to the radius / coordinate scale); the ring apex "
    "defect with the generator's own bisection stop criterion 1e-6 (x2 for rounding)",
    "sphere_fibonacci uses qhull with the 'QJ' joggle: only seed-independent facts (topology, counts, radius) are asserted",
    "spherify_vertices with n_subdiv=0: the radius clause is not asserted (it is icosphere(0), reported under icosphere)",
    "unit_triangle: vertex positions are not examined on outputs whose faces already index outside the vertex list "
    "(counted as geometry_not_examined_on_structurally_broken_mesh)",
    "ring / flat_ring with n_cover = k: 'requested defect' is read per covering, i.e. sum of apex angles = k (2 pi - defect)",
    "an argument object is 'unchanged' when its dtype, shape and values (arrays) / vertex positions and defining element "
    "list (input meshes of dual_mesh, cylindrify_edges, spherify_vertices) are equal before and after the call; "
    "connectivity caches and attributes an input mesh may acquire are not looked at",
    "integer-typed points are admissible arguments (Vec(0,0,0) is an integer vector and is the documented default "
    "centre of icosahedron); only integer-valued lattice points are given that way",
    "a VolumeMesh result (volume=True) is checked for type, cells, indices and an unoriented closed boundary; the "
    "orientation of the faces of a volume mesh is not part of the statement",
    "unit of length: a radius / centre / point is admissible whatever the unit the caller works in; the units are exact "
    "powers of two (2^-12 ~ 2.4e-4, 2^-24 ~ 6e-8, 2^12; thorough also 2^-40, 2^24, 2^40), so the scaled arguments and the "
    "rescaled results are exact and every clause keeps its tolerance relative to the unit. Generators without any "
    "length-like parameter (axis_aligned_cube, octahedron, dodecahedron, unit_grid, unit_triangle, ring, flat_ring) have "
    "no such deviation. Measured on the unchanged tree: every generator is right in every unit from 2^-100 to 2^100, "
    "except the triangulation of sphere_fibonacci(build_surface=True): qhull's 'QJ' joggle has an absolute floor "
    "(30000 x machine epsilon ~ 6.7e-12), the hull is right down to radius 2^-32 (n_pts 4..80, unit 2^-31) and broken "
    "(unused vertices, inconsistent orientation) from unit 2^-32 on; the check therefore runs that one configuration "
    "at 2^-30 instead of 2^-40 (radius >= 4.6e-10) and claims nothing below",
    "C14.unit.orientation_side demands only that the side a closed surface / open tube faces does not depend on the unit "
    "of length (compared with the same case in unit 1), not that it is the outer one",
    "documented default = the default of the signature of the unchanged tree, pinned in SIGNATURES (the docstrings state "
    "the same values); an option left out must behave as that value given explicitly, and arguments given positionally "
    "in the documented order as the same arguments given by name; parameters a generator may have beyond the pinned "
    "ones are not looked at; numeric defaults are compared by value (1 == 1.0), booleans by type and value",
    "quick tier: the large cases of the defaults tasks (torus / sphere_uv above 100 vertices, icosphere(3), cylindrify N=50) "
    "are only compared explicit call vs option left out (same mesh), not handed to the oracle and not run in the "
    "positional / keyword forms; the thorough tier does both",
    "coherent object: 'a mesh' is read as 'an object of the library whose derived containers and connectivity describe "
    "its own element list'; asked only of results whose element list is well formed (where the list is broken the "
    "structural chain reports it and the library documents no connectivity); asking is_vertex_on_border stores the "
    "library's 'border' attribute on the result, which happens after the result was dumped for the call-form comparison",
    "ownership: the generator returns a mesh that owns its data: editing an argument object in place after the call "
    "does not change the mesh, moving the vertices of the mesh in place (v += t, as transform.translate does) changes no "
    "argument object and moves every vertex exactly once (bitwise v + t). Element rows and attributes are not edited. "
    "Argument objects are put back bitwise before the next call",
    "history of the input mesh: an input mesh is admissible whatever was computed on it before (persistent quantities of "
    "mouette.attributes, an earlier call of the generator), also when its vertices were moved afterwards through the "
    "container API (vertices[i] = Vec): the unchanged tree recomputes what it needs from the current positions. The "
    "distortion is one fixed invertible affine map; element containers of the input are not edited",
    "direction family: directions are bounded by the cube (|d|_inf <= 3 quick, <= 4 thorough; ratios p/q of components "
    "with |p|,|q| within the bound) and the tilts by the listed exponents; one (radius, N, caps, start point) per direction "
    "in quick, chosen by rotation with the index (every value of each occurs), both caps settings in thorough",
    "cylindrify_edges in another unit of length: the scaled polyline is one more member of the primary input class "
    "'mean edge length != 1', so a radius mismatch found there is reported in that class of the primary clause (it is the "
    "known finding: the radius is taken relative to the mean edge length), not as a finding of the unit deviation; every "
    "other clause of cylindrify_edges is reported under C14.unit.*",
]
BOUNDS = {
    "quick": "1204 cases, each run as primary + repeat (1204) + ownership (1204) + int_dtype (654, generators taking points) + "
             "default_argument (75, origin-centred cases of generators with a default centre): resolutions 3..6 per axis "
             "independently (unit_grid/unit_triangle 2..6, sphere_uv n_lat 2..6), radii {1/2,1,2}, centres {0,(1,2,3)}, 4 lattice axes + the direction family of cylinder (290 primitive directions of the cube |d|_inf <= 3, 48 coordinate axes tilted by 2^-10, 2^-19, 2^-20, 2^-30; one (radius, N, caps, start) each by rotation) and its star as input of cylindrify_edges (338 unit edges, N 3..6), torus radii {(1,1/4),(2,1/2)}, ring N 3..6 x defects "
             "{0,0.3,pi/2,pi,6,6.2} x open x covers {1,2}, icosphere 0..2, fibonacci 4..12, chains 1..6 vertices, all switch "
             "combinations, dual_mesh of 11 closed + 7 bordered generator outputs x 2 modes; history of the input mesh (stale / warm blackboard + earlier call): the 84 cases of dual_mesh, cylindrify_edges, spherify_vertices(PointCloud) x 2 = 168 runs; coherent object asked of every result of every run; unit of length: the 904 cases of "
             "the 16 generators with a length-like parameter x {2^-12, 2^-24, 2^12} = 2712 runs; "
             "documented defaults / call forms: 80 cases of the 20 generators with options (all-default, one-default, "
             "no-default) run as 72 option-left-out + 70 positional + 70 keyword calls, 23 signatures compared",
    "thorough": "5708 cases, each run as primary + repeat (5708) + ownership (5708) + int_dtype (2400) + default_argument (351): "
                "resolutions 3..12 per axis independently (unit_grid/unit_triangle 2..12, sphere_uv n_lat 2..12), "
                "radii {1/2,1,2}, centres {0,(1,2,3)}, 6 lattice axes + direction family of cylinder (578 primitive directions of |d|_inf <= 4, 108 tilted axes 2^-10..2^-52, x caps) and its star for cylindrify_edges (686 unit edges, N 3..12 x 2 radii), 5 torus radius pairs, ring N 3..12 x defects "
                "{0,0.3,pi/2,pi,5,6,6.2,2pi-0.01} x open x covers {1,2,3}, icosphere 0..4, fibonacci 4..80, chains 1..12 vertices, "
                "tetrahedron on all 24 orderings of a lattice quadruple, all switch combinations, dual_mesh of 18 closed + "
                "12 bordered generator outputs x 2 modes; history of the input mesh: 178 cases x 2 = 356 runs; unit of length: the 4256 cases of the 16 generators with a "
                "length-like parameter x {2^-12, 2^-24, 2^-40 (sphere_fibonacci surface: 2^-30), 2^12, 2^24, 2^40} = 25536 runs; "
                "documented defaults / call forms: the 80 cases of quick (large ones with the oracle too) + the whole quick "
                "box of the 20 generators with options: 787 option-left-out + 932 positional + 932 keyword calls, 23 "
                "signatures compared",
}

TOL = 1e-9
PI = math.pi


# =================================================================================================
# independent topology oracle (array / union-find based; the library is dictionary based)
# =================================================================================================
def _find(par, x):
    while par[x] != x:
        par[x] = par[par[x]]
        x = par[x]
    return x


def _union(par, a, b):
    ra, rb = _find(par, a), _find(par, b)
    if ra != rb:
        par[rb] = ra


def analyse(faces, n):
    """Structural analysis of a face list over n vertices.  Returns a dict with key 'broken' = name of the first broken
    link of the chain (or None) and, when the complex is an (unoriented) manifold, its topology."""
    res = {"broken": None, "orientation_ok": None}
    oob = [(i, list(f)) for i, f in enumerate(faces) if any(v < 0 or v >= n for v in f)]
    if oob:
        res.update(broken="indices_in_range", witness={"n_vertices": n, "face_index": oob[0][0], "face": oob[0][1],
                                                       "n_bad_faces": len(oob)})
        return res
    deg = [(i, list(f)) for i, f in enumerate(faces) if len(f) < 3 or len(set(f)) != len(f)]
    if deg:
        res.update(broken="well_formed_faces", witness={"face_index": deg[0][0], "face": deg[0][1], "n_bad_faces": len(deg)})
        return res
    und, directed_twice = {}, []
    dirs = set()
    for fi, f in enumerate(faces):
        k = len(f)
        for i in range(k):
            a, b = f[i], f[(i + 1) % k]
            und.setdefault((a, b) if a < b else (b, a), []).append(fi)
            if (a, b) in dirs:
                directed_twice.append([a, b])
            dirs.add((a, b))
    over = sorted(e for e, l in und.items() if len(l) > 2)
    if over:
        res.update(broken="manifold", witness={"why": "edge_in_more_than_two_faces", "edge": list(over[0]), "faces": und[over[0]]})
        return res
    # faces around a vertex: one fan <=> the faces incident to v are connected through edges incident to v
    inc = [[] for _ in range(n)]
    for fi, f in enumerate(faces):
        for v in f:
            inc[v].append(fi)
    pairs_at = [[] for _ in range(n)]
    for (a, b), l in und.items():
        if len(l) == 2:
            pairs_at[a].append(l); pairs_at[b].append(l)
    for v in range(n):
        fl = inc[v]
        if len(fl) <= 1:
            continue
        par = {fi: fi for fi in fl}
        for l in pairs_at[v]:
            _union(par, l[0], l[1])
        if len({_find(par, fi) for fi in fl}) > 1:
            res.update(broken="manifold", witness={"why": "vertex_with_several_fans", "vertex": v, "faces": [list(faces[fi]) for fi in fl]})
            return res
    seen = {}
    for i, f in enumerate(faces):
        k = frozenset(f)
        if k in seen:
            res.update(broken="no_repeated_face", witness={"faces": [seen[k], i], "face": list(f)})
            return res
        seen[k] = i
    res["orientation_ok"] = not directed_twice
    if directed_twice:
        res["orientation_witness"] = {"directed_edge_used_twice": directed_twice[0], "n_such_edges": len(directed_twice)}
    used = sorted({v for f in faces for v in f})
    par = {v: v for v in used}
    for (a, b) in und:
        _union(par, a, b)
    comps = len({_find(par, v) for v in used})
    border = [e for e, l in und.items() if len(l) == 1]
    bpar = {}
    for a, b in border:
        bpar.setdefault(a, a); bpar.setdefault(b, b)
        _union(bpar, a, b)
    loops = len({_find(bpar, v) for v in bpar})
    res.update(n_used=len(used), unused=[v for v in range(n) if v not in par], edges=len(und), chi=len(used) - len(und) + len(faces),
               comps=comps, loops=loops, border_vertices=sorted(bpar), und=und)
    return res


SHAPES = {  # name -> (chi per component, border loops per component)
    "sphere": (2, 0), "torus": (0, 0), "disk": (1, 1), "annulus": (0, 2),
}


# =================================================================================================
# small numeric helpers
# =================================================================================================
def _np():
    import numpy as np
    return np


def raw_verts_of(mesh):
    np = _np()
    return np.array([[float(c) for c in v] for v in mesh.vertices], dtype=float).reshape(-1, 3)


def verts_of(mesh):
    """vertex positions in the unit of length of the running case (division by a power of two: exact)"""
    return raw_verts_of(mesh) / _ACTIVE["unit"]


def faces_of(mesh):
    return [tuple(int(v) for v in f) for f in mesh.faces]


def close(a, b, scale=1.0, tol=TOL):
    return abs(a - b) <= tol * max(1.0, abs(scale))


def clusters(values, eps=1e-7):
    """sorted 1-D clustering: list of (mean, count)"""
    vs = sorted(values)
    out = []
    for v in vs:
        if out and v - out[-1][1] <= eps:
            out[-1][0].append(v); out[-1][1] = v
        else:
            out.append([[v], v])
    return [(sum(c[0]) / len(c[0]), len(c[0])) for c in out]


def circular_clusters(angles, eps=1e-7):
    a = [x % (2 * PI) for x in angles]
    a = [0.0 if (2 * PI - x) < eps else x for x in a]
    return clusters(a, eps)


def equally_spaced_circular(angles, k, eps=1e-7):
    """the angles take exactly k distinct values (mod 2pi) separated by 2pi/k"""
    cl = circular_clusters(angles, eps)
    if len(cl) != k:
        return False, [round(c[0], 9) for c in cl]
    vals = [c[0] for c in cl]
    gaps = [vals[(i + 1) % k] - vals[i] + (2 * PI if i == k - 1 else 0.0) for i in range(k)]
    return all(abs(g - 2 * PI / k) <= 10 * eps for g in gaps), [round(v, 9) for v in vals]


def angle_at(P, a, b, c):
    """angle at vertex a in the triangle a b c"""
    np = _np()
    u, w = P[b] - P[a], P[c] - P[a]
    return math.atan2(float(np.linalg.norm(np.cross(u, w))), float(np.dot(u, w)))


def planar_signed_areas(P, faces):
    out = []
    for f in faces:
        s = 0.0
        k = len(f)
        for i in range(k):
            x0, y0 = P[f[i]][0], P[f[i]][1]
            x1, y1 = P[f[(i + 1) % k]][0], P[f[(i + 1) % k]][1]
            s += x0 * y1 - x1 * y0
        out.append(s / 2)
    return out


def flux_sign(P, faces):
    """which way a consistently oriented surface faces: sign of sum_f <centre of f - c, area vector of f>, c = mean of
    the vertices (6 x enclosed volume for a closed surface; > 0 for an open tube whose normals point away from its
    axis); 0 when the sum is negligible against the cube of the extent (planar pieces: no side to speak of)"""
    np = _np()
    if len(P) == 0 or not faces:
        return 0
    c = P.mean(axis=0)
    ext = float(np.abs(P - c).max())
    tot = 0.0
    for f in faces:
        Q = P[list(f)] - c
        area2 = np.zeros(3)
        for i in range(1, len(f) - 1):
            area2 += np.cross(Q[i] - Q[0], Q[i + 1] - Q[0])
        tot += float(Q.mean(axis=0) @ area2)
    if abs(tot) <= 1e-6 * ext ** 3:
        return 0
    return 1 if tot > 0 else -1


def rows_match_as_sets(A, B, tol=TOL):
    """two point lists are equal as multisets (within tol)"""
    np = _np()
    A = np.asarray(A, float).reshape(-1, 3); B = np.asarray(B, float).reshape(-1, 3)
    if A.shape != B.shape:
        return False
    scale = max(1.0, float(np.abs(B).max()) if B.size else 1.0)
    ka = sorted(tuple(round(float(c) / (tol * scale * 10)) for c in r) for r in A)
    kb = sorted(tuple(round(float(c) / (tol * scale * 10)) for c in r) for r in B)
    if ka == kb:
        return True
    # rounding boundaries: fall back to greedy nearest matching
    left = list(range(len(B)))
    for r in A:
        best = None
        for j in left:
            if float(np.abs(B[j] - r).max()) <= tol * scale * 10:
                best = j; break
        if best is None:
            return False
        left.remove(best)
    return True


# =================================================================================================
# the per-case context
# =================================================================================================
# the argument form / call protocol of the case being run (set by run_case only, always restored):
#   primary           float-typed point arguments, fresh argument objects, ONE call
#   repeat            the same argument objects handed to the generator twice in a row, the oracle judges the 2nd result
#   int_dtype         every point / array argument given with an integer dtype (only integer-valued lattice points)
#   default_argument  the centre left to the generator's default (the documented origin), called twice in a row
#   unit:2^e           unit of length: EVERY length-like argument (radii, centres, corner / end points, point arrays, the
#                     vertices of an input mesh) multiplied by the exact power of two 2^e, one call; the oracle divides
#                     the returned coordinates by 2^e (exact) and judges them against the unscaled parameters, i.e. with
#                     the same expectations and tolerances RELATIVE to the unit
FORMS = {"primary": {"calls": 1, "dtype": "float"}, "repeat": {"calls": 2, "dtype": "float"},
         "int_dtype": {"calls": 1, "dtype": "int"}, "default_argument": {"calls": 2, "dtype": "float"}}
FORM_CLAUSE = {"repeat": ("repeat", "2nd_call"), "int_dtype": ("argform", "int_dtype"),
               "default_argument": ("argform", "default_argument")}
UNIT_EXPONENTS = {"quick": [-12, -24, 12], "thorough": [-12, -24, -40, 12, 24, 40]}
FIBONACCI_SURFACE_MIN_EXPONENT = -30      # see ASSUMPTIONS (qhull's joggle has an absolute floor)
for _e in sorted({e for v in UNIT_EXPONENTS.values() for e in v} | {FIBONACCI_SURFACE_MIN_EXPONENT}):
    FORMS["unit:2^%d" % _e] = {"calls": 1, "dtype": "float", "unit": _e}
    FORM_CLAUSE["unit:2^%d" % _e] = ("unit", "unit<1" if _e < 0 else "unit>1")

# ---- call forms: HOW the options are handed over (tasks of kind 'defaults', see DEFAULTS / default_cases below) -----------
# The documented signature of every generator, pinned here from the unchanged tree (signature = documentation: the
# docstrings state the same defaults).  NOT read from the library at run time: a change of a default changes the
# signature too.  REQ = no default.  Point-valued defaults are lists.
REQ = "<required>"
SIGNATURES = {
    "tetrahedron": [("P1", REQ), ("P2", REQ), ("P3", REQ), ("P4", REQ), ("volume", False)],
    "hexahedron": [("P1", REQ), ("P2", REQ), ("P3", REQ), ("P4", REQ), ("P5", REQ), ("P6", REQ), ("P7", REQ), ("P8", REQ),
                   ("colored", False), ("triangulate", False), ("volume", False)],
    "axis_aligned_cube": [("colored", False), ("triangulate", False)],
    "hexahedron_4pts": [("P1", REQ), ("P2", REQ), ("P3", REQ), ("P4", REQ), ("colored", False), ("volume", False)],
    "octahedron": [],
    "dodecahedron": [],
    "icosahedron": [("center", [0, 0, 0]), ("radius", 1.0), ("uv", False)],
    "cylinder": [("P1", REQ), ("P2", REQ), ("radius", 1.0), ("N", 50), ("fill_caps", True)],
    "torus": [("major_segments", 50), ("minor_segments", 30), ("major_radius", 1.0), ("minor_radius", 0.3), ("triangulate", False)],
    "sphere_uv": [("n_lat", 30), ("n_long", 50), ("center", [0, 0, 0]), ("radius", 1.0)],
    "icosphere": [("n_refine", 3), ("center", [0, 0, 0]), ("radius", 1.0)],
    "sphere_fibonacci": [("n_pts", REQ), ("radius", 1.0), ("build_surface", True)],
    "triangle": [("P0", REQ), ("P1", REQ), ("P2", REQ)],
    "quad": [("P0", REQ), ("P1", REQ), ("P2", REQ), ("triangulate", False)],
    "unit_grid": [("nu", REQ), ("nv", REQ), ("triangulate", False), ("generate_uvs", False)],
    "unit_triangle": [("nu", REQ), ("nv", REQ), ("generate_uvs", False)],
    "ring": [("N", REQ), ("defect", REQ), ("open", False), ("n_cover", 1)],
    "flat_ring": [("N", REQ), ("defect", REQ), ("n_cover", 1)],
    "dual_mesh": [("mesh", REQ), ("mode", "barycenter")],
    "chain_of_vertices": [("vertices", REQ), ("loop", False)],
    "vector_field": [("origins", REQ), ("vectors", REQ), ("length_mult", 1.0)],
    "spherify_vertices": [("points", REQ), ("radius", 0.01), ("n_subdiv", 1)],
    "cylindrify_edges": [("mesh", REQ), ("radius", 0.05), ("N", 50)],
}
OPTIONALS = {g: [(n, d) for n, d in sig if d is not REQ] for g, sig in SIGNATURES.items()}
#   positional   every argument handed over positionally, in the documented order
#   keyword      the required arguments positionally, every option by its documented name
#   omit:<name>  the option <name>, whose value in the case IS the documented default, left out (the others by name); run
#                on the cases where not every option is at its default (one at a time, the others away from the default)
#   omit:ALL     every option left out: the case in which every option is at its documented default
# all judged by the same oracle with the same expectations (C14.defaults.<clause> / C14.callform.<clause>), and the
# returned mesh must be THE SAME mesh as the one of the primary call of the case (C14.*.same_as_explicit)
CALL_FORMS = ["positional", "keyword", "omit:ALL"] + sorted({"omit:" + n for opts in OPTIONALS.values() for n, _d in opts})
for _f in CALL_FORMS:
    FORMS[_f] = {"calls": 1, "dtype": "float"}
    FORM_CLAUSE[_f] = ("callform", _f) if not _f.startswith("omit:") else ("defaults", "omitted=" + _f[5:])
# ---- histories (round 5) ---------------------------------------------------------------------------------------------
#   ownership         what the caller keeps, edited later (both ways).  One extra call on the argument objects of the case;
#                     (1) every argument object (point / array arguments, the vertices of an input mesh, array-valued default
#                     argument objects) is edited IN PLACE, the returned mesh must stay what it was; the objects are put back;
#                     (2) every vertex of the returned mesh is moved in place (v += t, what transform.translate does): each
#                     vertex must have moved exactly once (bitwise v + t) and no argument object may have changed.  Then the
#                     generator is called again on the same objects and that result is judged by the oracle.
#                     Cases of a generator with a default centre whose centre is the origin leave the centre out, so that the
#                     default argument object takes part.
#   input:stale       history of the input mesh (generators that take a mesh: dual_mesh, cylindrify_edges, spherify_vertices
#                     on a PointCloud): the mesh is first built on an affinely distorted copy of the geometry, every persistent
#                     quantity of mouette.attributes is requested on it and the generator itself is called on it once; then
#                     the vertices are moved to the tested positions through the container API and the case is run
#   input:warm        the same on the tested geometry (every stored value is right, only its presence can matter)
FORMS["ownership"] = {"calls": 1, "dtype": "float", "ownership": True}
FORM_CLAUSE["ownership"] = ("ownership", "kept_objects_edited_later")
FORMS["input:stale"] = {"calls": 1, "dtype": "float", "input_history": "stale"}
FORM_CLAUSE["input:stale"] = ("history", "stale_attribute_blackboard_on_input")
FORMS["input:warm"] = {"calls": 1, "dtype": "float", "input_history": "warm"}
FORM_CLAUSE["input:warm"] = ("history", "warm_attribute_blackboard_on_input")
OWNERSHIP_SHIFT = (8.0, -4.0, 2.0)
_ACTIVE = {"form": "primary", "rep": None, "log": None, "unit": 1.0, "tier": "quick", "facts": None, "dump": False, "light": False}


class _NotApplicable(Exception):
    """the call form does not apply to the case (the option to leave out is not at its documented default)"""


def _same_value(v, d):
    """the argument value v is the documented default d (bool / number / string / point given as a list)"""
    np = _np()
    if isinstance(d, bool):
        return isinstance(v, (bool, np.bool_)) and bool(v) == d
    if isinstance(d, str):
        return isinstance(v, str) and v == d
    if isinstance(d, (list, tuple)):
        if not isinstance(v, (np.ndarray, list, tuple)):
            return False
        o = np.asarray(v)
        return o.dtype.kind in "iuf" and o.shape == (len(d),) and bool((o == np.asarray(d)).all())
    if isinstance(v, (bool, np.bool_)) or not isinstance(v, (int, float, np.integer, np.floating)):
        return False
    return float(v) == float(d)


def _reshape_call(gen, form, a, k):
    """the call (a, k), in which the driver hands over every argument, in the call form `form`"""
    sig = SIGNATURES[gen]
    names = [n for n, _d in sig]
    assert len(a) <= len(names) and all(n in names[len(a):] for n in k), (gen, len(a), sorted(k))
    bound = dict(zip(names, a))
    bound.update(k)
    assert all(n in bound for n in names), (gen, sorted(bound))
    required = tuple(bound[n] for n, d in sig if d is REQ)
    opts = OPTIONALS[gen]
    at_default = {n: _same_value(bound[n], d) for n, d in opts}
    if form == "positional":
        return tuple(bound[n] for n in names), {}
    if form == "keyword":
        return required, {n: bound[n] for n, _d in opts}
    if form == "omit:ALL":
        if not opts or not all(at_default.values()):
            raise _NotApplicable(form)
        return required, {}
    x = form[5:]
    if not at_default.get(x, False) or (len(opts) > 1 and all(at_default.values())):     # the latter: omit:ALL
        raise _NotApplicable(form)
    return required, {n: bound[n] for n, _d in opts if n != x}


def signature_differences(gen, fn):
    """[(kind, parameter name, pinned, found)]: where the signature of fn differs from the pinned one.  Parameters the
    library has beyond the pinned ones are nobody's business here."""
    import inspect
    out = []
    prms = list(inspect.signature(fn).parameters.values())
    for i, (name, d) in enumerate(SIGNATURES[gen]):
        if i >= len(prms) or prms[i].name != name:
            out.append(("parameter_order", name, [n for n, _d in SIGNATURES[gen]], [q.name for q in prms]))
            return out
        found = prms[i].default
        if d is REQ:
            if found is not inspect.Parameter.empty:
                out.append(("default_value", name, REQ, repr(found)))
        elif found is inspect.Parameter.empty or not _same_value(found, d):
            out.append(("default_value", name, d, "<required>" if found is inspect.Parameter.empty else repr(found)))
    return out


def mesh_dump(m):
    """everything a caller can see of a returned mesh: container type, positions, elements, attributes"""
    out = {"type": type(m).__name__, "vertices": [[float(c) for c in v] for v in m.vertices]}
    out["n_vertices"] = len(out["vertices"])
    for cname in (("edges",) if out["type"] == "PolyLine" else ("faces", "cells")):
        cont = getattr(m, cname, None)
        if cont is not None:
            out[cname] = [[int(v) for v in e] for e in cont]
            out["n_" + cname] = len(out[cname])
    attrs = {}
    for cname in ("vertices", "edges", "faces", "face_corners", "cells", "cell_corners", "cell_faces"):
        cont = getattr(m, cname, None)
        if cont is None or not hasattr(cont, "attributes"):
            continue
        for name in sorted(str(x) for x in cont.attributes):
            attr = cont.get_attribute(name)
            o = call(lambda: attr.as_array(len(cont)).tolist())
            attrs[cname + "." + name] = o.value if o.ok else "raises:" + str(o.exc)
    out["attributes"] = attrs
    return out


DUMP_FIELDS = ("type", "n_vertices", "n_edges", "n_faces", "n_cells", "vertices", "edges", "faces", "cells", "attributes")


def dump_difference(a, b):
    for f in DUMP_FIELDS:
        if a.get(f) != b.get(f):
            return f
    return None


def dump_summary(d):
    return {"type": d["type"], "n_vertices": d["n_vertices"], "n_edges": d.get("n_edges"), "n_faces": d.get("n_faces"),
            "n_cells": d.get("n_cells"), "attributes": sorted(d["attributes"]),
            "first_vertices": d["vertices"][:3], "first_elements": (d.get("faces") or d.get("edges") or [])[:3]}


class Cx:
    def __init__(self, rep: Report, gen, params):
        self.rep, self.gen, self.params = rep, gen, params
        self.callee = "procedural." + gen
        self.form = _ACTIVE["form"]
        self.calls = FORMS[self.form]["calls"]
        self.dtype = FORMS[self.form]["dtype"]
        self.unit = 2.0 ** FORMS[self.form].get("unit", 0)      # exact power of two
        self.ownership = bool(FORMS[self.form].get("ownership"))
        self.input_history = FORMS[self.form].get("input_history")

    def omit_centre(self, p):
        """the centre is left to the generator's default (documented: the origin)"""
        return self.form == "default_argument" or (self.ownership and all(c == 0 for c in p["center"]))

    def input_mesh(self, M, kind, P, elems, earlier_call):
        """the input mesh of a generator that takes one.  kind 'surface' | 'polyline' | 'points', P the vertex positions
        (float array, already in the unit of the case), elems the faces / edges.  In the input-history forms the object
        has a past (see FORMS): attributes requested and the generator called on it, before (stale) or after (warm) the
        vertices got the tested positions."""
        np = _np()
        from mc import c14_more as X

        def build(Q):
            if kind == "points":
                return M.mesh.from_arrays(np.array(Q, float))
            raw = M.mesh.RawMeshData()
            raw.vertices += [M.Vec(*[float(c) for c in q]) for q in Q]
            if kind == "surface":
                raw.faces += [[int(v) for v in f] for f in elems]
                return M.mesh.SurfaceMesh(raw)
            raw.edges += [[int(v) for v in e] for e in elems]
            return M.mesh.PolyLine(raw)
        P = np.array(P, float).reshape(-1, 3)
        if self.input_history is None:
            return build(P)
        mesh = build([X.distort(q) for q in P] if self.input_history == "stale" else P)
        X.request_all_persistent_attributes(mesh)
        o = call(earlier_call, mesh)           # the generator's own earlier call on the object (its outcome is not judged here)
        self.rep.count("input_history_earlier_call:" + ("ok" if o.ok else "raises"))
        if self.input_history == "stale":
            for i, q in enumerate(P):
                mesh.vertices[i] = M.Vec(*[float(c) for c in q])
        if X.n_attributes(mesh) > 0:
            self.rep.count("input_history_attributes_present:" + self.gen)
        return mesh

    def bad(self, sub, kind, icls, callee=None, member_of_primary_class=False, **detail):
        """member_of_primary_class: the finding of a further form is reported under the plain clause and class because
        the deviated input is itself a member of that (computed) class of the primary enumeration"""
        d = {"generator": self.gen, "params": self.params}
        if self.form != "primary":
            d["form"] = self.form
        if self.unit != 1.0:
            d["unit_note"] = ("every length-like argument was multiplied by %s; positions and lengths below are the "
                              "returned ones divided by it" % self.form[5:])
        d.update(detail)
        if _ACTIVE["log"] is not None and self.rep is _ACTIVE["rep"]:
            _ACTIVE["log"].append(("C14." + sub, callee or self.callee, kind, icls, d, bool(member_of_primary_class)))
        self.rep.violation("C14." + sub, callee or self.callee, kind, icls, d)

    # ---------------------------------------------------------------------------------- argument forms
    def pt(self, M, q):
        """a point argument (centre, corner, end point) in the argument form of the case"""
        if self.dtype == "int":
            assert all(float(c) == int(c) for c in q), q
            v = M.Vec(*[int(c) for c in q])
            assert v.dtype.kind == "i"
            return v
        return M.Vec(*[float(c) * self.unit for c in q])

    def ln(self, x):
        """a length argument (radius) in the unit of length of the case"""
        return float(x) * self.unit

    def arr(self, a):
        """a fresh array argument (of positions / vectors) in the argument form of the case"""
        np = _np()
        a = np.array(a, float)
        if self.dtype == "int":
            assert bool((a == np.round(a)).all())
            return a.astype(np.int64)
        return a * self.unit

    def ev(self, n=1):
        self.rep.evaluations += n

    # ---------------------------------------------------------------------------------- generic clauses
    def expect_type(self, mesh, want, icls, sub="type"):
        self.ev()
        got = type(mesh).__name__
        self.rep.outcome("type", got)
        if got != want:
            self.bad(sub, "mismatch:type", icls, got=got, want=want)
            return False
        return True

    def structural(self, mesh, icls, shape, comps=1, oriented=True, faces=None):
        """run the structural chain; returns the analysis dict (res['ok'] True when every link held)"""
        faces = faces_of(mesh) if faces is None else faces
        n = len(mesh.vertices)
        res = analyse(faces, n)
        res["faces"] = faces
        res["ok"] = False
        self.ev(4)
        b = res["broken"]
        if b is not None:
            kind = {"indices_in_range": "mismatch:index_out_of_range", "well_formed_faces": "mismatch:degenerate_face",
                    "no_repeated_face": "mismatch:repeated_face", "manifold": "mismatch:non_manifold"}[b]
            self.bad("valid." + b, kind, icls, **res["witness"])
            return res
        # cross-check my chain against the framework's independent checker (they must agree)
        from mc import families as F
        theirs = F.is_oriented_manifold([tuple(f) for f in faces], n, require_all_used=False)
        if theirs != bool(res["orientation_ok"]):
            raise AssertionError(f"C14 oracle inconsistency: analyse() says orientation_ok={res['orientation_ok']} but "
                                 f"families.is_oriented_manifold says {theirs} for {self.gen} {self.params}")
        good = True
        if oriented:
            self.ev()
            if not res["orientation_ok"]:
                self.bad("valid.orientation", "mismatch:inconsistent_orientation", icls, **res["orientation_witness"])
                good = False
        self.ev(3)
        chi1, loops1 = SHAPES[shape]
        want = {"comps": comps, "chi": chi1 * comps, "loops": loops1 * comps}
        got = {"comps": res["comps"], "chi": res["chi"], "loops": res["loops"]}
        if got != want:
            self.bad("topology", "mismatch:topology", icls, want_shape=shape, want=want, got=got,
                     n_vertices=n, n_faces=len(faces))
            return res
        self.rep.count("topology_ok:" + self.gen)
        self.ev()
        if res["unused"]:
            self.bad("valid.no_unused_vertex", "mismatch:unused_vertices", icls, n_vertices=n, n_unused=len(res["unused"]),
                     unused=res["unused"][:12], chi_counting_all_vertices=res["chi"] + len(res["unused"]))
            return res
        res["ok"] = good
        if good:
            self.rep.flag("shape_ok:" + shape)
            self.rep.count("structurally_valid:" + self.gen)
            if oriented and _ACTIVE.get("facts") is not None and self.rep is _ACTIVE["rep"]:
                _ACTIVE["facts"]["orientation_sign"] = flux_sign(verts_of(mesh), faces)
        return res

    def counts(self, mesh, icls, nv=None, nf=None, faces=None):
        if nv is not None:
            self.ev()
            if len(mesh.vertices) != nv:
                self.bad("counts.vertices", "mismatch:n_vertices", icls, got=len(mesh.vertices), want=nv)
        if nf is not None:
            self.ev()
            got = len(mesh.faces) if faces is None else len(faces)
            if got != nf:
                self.bad("counts.faces", "mismatch:n_faces", icls, got=got, want=nf)

    def arity(self, faces, want, icls, sub="switch.triangulate"):
        self.ev()
        got = sorted({len(f) for f in faces})
        if got != [want]:
            self.bad(sub, "mismatch:face_arity", icls, got=got, want=want)

    def on_sphere(self, P, centre, radius, icls, sub="geometry.on_surface"):
        np = _np()
        self.ev()
        if len(P) == 0:
            return
        d = np.linalg.norm(P - np.asarray(centre, float), axis=1)
        if float(np.abs(d - radius).max()) > TOL * max(1.0, radius):
            self.bad(sub, "mismatch:radius", icls, want_radius=radius, centre=list(centre),
                     got_min=float(d.min()), got_max=float(d.max()))

    def same_points(self, P, want, icls, ordered, sub="geometry.requested_corners"):
        np = _np()
        self.ev()
        want = np.asarray(want, float).reshape(-1, 3)
        if ordered:
            ok = P.shape == want.shape and float(np.abs(P - want).max() if P.size else 0.0) <= TOL * max(1.0, float(np.abs(want).max()))
        else:
            ok = rows_match_as_sets(P, want)
        if not ok:
            self.bad(sub, "mismatch:vertex_positions", icls, got=P.tolist()[:12], want=want.tolist()[:12])
        return ok


def snapshot(x):
    """canonical JSON-able image of an argument object: arrays with dtype / shape / values, meshes with their vertex
    positions and element lists, lists / tuples element-wise, scalars by repr"""
    np = _np()
    if isinstance(x, np.ndarray):
        return {"kind": "array:" + ("int" if x.dtype.kind in "iu" else "float" if x.dtype.kind == "f" else x.dtype.kind),
                "dtype": str(x.dtype), "shape": list(x.shape), "values": np.asarray(x).tolist()}
    if hasattr(x, "vertices") and hasattr(x, "id_vertices"):
        out = {"kind": "mesh", "type": type(x).__name__,
               "vertices": [[float(c) for c in v] for v in x.vertices]}
        for cont in ("faces", "edges"):      # the defining element list only (edges of a surface are derived)
            if hasattr(x, cont) and len(getattr(x, cont)):
                out[cont] = [[int(v) for v in e] for e in getattr(x, cont)]
                break
        return out
    if isinstance(x, (list, tuple)):
        return {"kind": "sequence", "items": [snapshot(y) for y in x]}
    return {"kind": "scalar", "repr": repr(x)}


def _default_objects(fn):
    """the array-valued default argument objects of a generator (created once, shared by all calls)"""
    np = _np()
    import inspect
    out = []
    o = call(inspect.signature, fn)
    if o.ok:
        for name, prm in o.value.parameters.items():
            if isinstance(prm.default, np.ndarray):
                out.append((name, prm.default))
    return out


def _arg_names(fn, a, k):
    import inspect
    o = call(inspect.signature, fn)
    names = list(o.value.parameters) if o.ok else []
    out = [(names[i] if i < len(names) else f"arg{i}", x) for i, x in enumerate(a)]
    return out + [(n, k[n]) for n in sorted(k)]


def coherent_object(cx: Cx, mesh, icls):
    """C14.valid.coherent_object: 'returns a mesh': the returned OBJECT is a mesh of the library, i.e. what it answers
    through its derived containers (edges, face_corners, cell_corners) and its connectivity / border queries is the
    incidence structure of its own face / cell / edge list.  Judged for every result whose element list is well formed
    (indices in range, distinct vertices per element, every edge in <= 2 faces, one fan per vertex): where the list itself
    is broken the structural chain says so and the library documents no connectivity."""
    from mc import c14_more as X
    tname = type(mesh).__name__
    kind = {"SurfaceMesh": "surface", "VolumeMesh": "volume", "PolyLine": "polyline"}.get(tname)
    if kind is None:
        cx.rep.count("coherence_not_applicable:" + tname)
        return
    def well_formed():
        n = len(mesh.vertices)
        if kind == "surface":
            return analyse(faces_of(mesh), n)["broken"] is None
        if kind == "volume":
            return not any(v < 0 or v >= n for c in mesh.cells for v in c)
        return (not any(v < 0 or v >= n for e in mesh.edges for v in e)
                and len({tuple(sorted(map(int, e))) for e in mesh.edges}) == len(mesh.edges))
    w = call(well_formed)
    if not (w.ok and w.value):
        cx.rep.count("coherence_not_examined_on_structurally_broken_mesh")
        return
    o = call(X.coherence_findings, mesh, kind)
    cx.ev(6)
    cx.rep.count("coherence_examined:" + kind)
    if not o.ok:
        cx.bad("valid.coherent_object", exc_kind(o), icls, msg=o.msg[:300], result_type=tname)
        return
    for fkind, witness in o.value[:1]:      # one report per object: the first question that went wrong (containers first)
        cx.rep.outcome("coherence", fkind)
        cx.bad("valid.coherent_object", fkind, icls, result_type=tname, further_findings=[k_ for k_, _w in o.value[1:]], **witness)
    if not o.value:
        cx.rep.outcome("coherence", "coherent")


def _editable_arrays(x, path):
    """[(path, ndarray)]: the arrays a caller can edit in place inside an argument object (arrays themselves, the items
    of sequences, the vertex arrays of an input mesh)"""
    np = _np()
    if isinstance(x, np.ndarray):
        return [(path, x)] if x.flags.writeable and x.dtype.kind in "iuf" and x.size else []
    if hasattr(x, "vertices") and hasattr(x, "id_vertices"):
        out = []
        for i in x.id_vertices:
            v = x.vertices[i]
            if isinstance(v, np.ndarray) and v.flags.writeable:
                out.append((f"{path}.vertices[{i}]", v))
        return out
    if isinstance(x, (list, tuple)):
        return [pa for j, y in enumerate(x) for pa in _editable_arrays(y, f"{path}[{j}]")]
    return []


def ownership_step(cx: Cx, result, before):
    """what the caller keeps is edited later, both ways (see FORMS['ownership']).  `before` = the argument and default
    argument objects with their snapshots.  Everything edited here is put back bitwise before returning."""
    np = _np()
    icls = cx.gen
    o = call(mesh_dump, result)
    if not o.ok:
        cx.rep.count("ownership_dump_failed")
        return
    d0 = o.value
    # (1) edit every argument object in place; the mesh that was returned stays what it was
    for name, x, _snap, is_default in before:
        arrays = _editable_arrays(x, name)
        if not arrays:
            continue
        saved = [np.array(arr, copy=True) for _p, arr in arrays]
        try:
            for _p, arr in arrays:
                arr += arr.dtype.type(5)
            cx.ev()
            cx.rep.count("ownership_argument_edited:" + ("default_argument" if is_default else "mesh" if hasattr(x, "id_vertices") else "array"))
            o = call(mesh_dump, result)
            d1 = o.value if o.ok else {"raises": o.exc}
            field = dump_difference(d0, d1) if o.ok else "dump_raises"
            cx.rep.outcome("ownership:argument_edited", "result_unchanged" if field is None else "result_changed")
            if field is not None:
                cx.bad("ownership.result_follows_argument", "side_effect:result_changed_by_editing_an_argument_object",
                       f"{cx.gen}:" + ("default_argument" if is_default else "argument"), member_of_primary_class=True,
                       argument=name, edit="every entry += 5 (in place), after the generator returned",
                       first_differing_field=field, result_before=dump_summary(d0),
                       result_after=dump_summary(d1) if o.ok else d1)
        finally:
            for (_p, arr), s in zip(arrays, saved):
                np.copyto(arr, s, casting="unsafe")
    # (2) move every vertex of the returned mesh in place: each one moves exactly once, no argument object changes
    if not hasattr(result, "vertices") or len(result.vertices) == 0:
        return
    t = np.array(OWNERSHIP_SHIFT, float)
    V0 = raw_verts_of(result)
    snaps = [(name, x, snapshot(x), is_default) for name, x, _s, is_default in before]
    arrays = [pa for name, x, _s, _d in before for pa in _editable_arrays(x, name)]
    saved = [np.array(arr, copy=True) for _p, arr in arrays]
    try:
        def move():
            for i in result.id_vertices:
                result.vertices[i] += t
        o = call(move)
        cx.ev(2)
        cx.rep.count("ownership_result_moved")
        if not o.ok:
            cx.bad("ownership.result_editable", exc_kind(o), icls, member_of_primary_class=True, msg=o.msg[:200],
                   edit="result.vertices[i] += t for every vertex id")
            return
        V1 = raw_verts_of(result)
        want = V0 + t
        twice = [i for i in range(len(V0)) if not np.array_equal(V1[i], want[i])]
        cx.rep.outcome("ownership:result_moved", "each_vertex_once" if not twice else "some_vertex_not_once")
        if twice:
            i = twice[0]
            cx.bad("ownership.vertices_own_their_storage", "side_effect:vertex_not_moved_exactly_once", icls, member_of_primary_class=True,
                   edit="result.vertices[i] += t for every vertex id", t=list(OWNERSHIP_SHIFT), vertices=twice[:8],
                   vertex=i, before=V0[i].tolist(), after=V1[i].tolist(), want=want[i].tolist())
        for name, x, snap, is_default in snaps:
            now = snapshot(x)
            if now != snap:
                cx.bad("ownership.argument_follows_result", "side_effect:argument_changed_by_editing_the_result",
                       f"{cx.gen}:" + ("default_argument" if is_default else "argument"), member_of_primary_class=True,
                       argument=name, edit="result.vertices[i] += t for every vertex id", t=list(OWNERSHIP_SHIFT),
                       before=snap, after=now)
                break
    finally:
        for (_p, arr), s in zip(arrays, saved):
            np.copyto(arr, s, casting="unsafe")


def run_generator(cx: Cx, fn, icls, *a, **k):
    """call the generator (cx.calls times in a row on the SAME argument objects; the last result goes to the oracle);
    an exception on an admissible input is a violation, and so is any change of an argument object or of a default
    argument object of the generator (C14.args.unchanged).  Default argument objects are put back afterwards."""
    np = _np()
    if cx.form in FORMS and cx.form in CALL_FORMS:
        a, k = _reshape_call(cx.gen, cx.form, a, k)          # _NotApplicable: before anything is counted
        cx.rep.count("callform_run:%s:%s" % (cx.gen, cx.form))
    args = _arg_names(fn, a, k)
    defaults = _default_objects(fn)
    before = [(n, x, snapshot(x), False) for n, x in args] + [(n, x, snapshot(x), True) for n, x in defaults]
    saved_defaults = [(x, np.array(x, copy=True)) for _n, x in defaults]
    result, reported = None, False
    try:
        if cx.ownership:
            cx.rep.transitions += 1
            cx.rep.traces += 1
            o = call(fn, *a, **k)
            cx.rep.outcome("call:" + cx.gen, "ok" if o.ok else o.exc)
            if o.ok and o.value is not None:
                o2 = call(ownership_step, cx, o.value, before)
                if not o2.ok:      # the returned object cannot even be dumped / edited as a mesh
                    cx.bad("ownership.result_editable", exc_kind(o2), cx.gen, member_of_primary_class=True, msg=o2.msg[:300])
        for call_no in range(1, cx.calls + 1):
            cx.rep.transitions += 1
            cx.rep.traces += 1
            o = call(fn, *a, **k)
            cx.rep.outcome("call:" + cx.gen, "ok" if o.ok else o.exc)
            cx.ev(len(before))
            for name, x, snap, is_default in before:
                cx.rep.count("args_compared:" + ("default_argument" if is_default else snap["kind"]))
                now = snapshot(x)
                if now != snap and not reported:
                    reported = True       # one report per case: the first call after which an object differs
                    cls = "default_argument" if is_default else "argument:" + snap["kind"].split(":")[0]
                    cx.bad("args.unchanged", "side_effect:argument_modified", f"{cx.gen}:{cls}", argument=name,
                           after_call_number=call_no, before=snap, after=now)
            if not o.ok:
                cx.bad("returns_a_mesh", exc_kind(o), icls, msg=o.msg[:300], call_number=call_no)
                return None
            if o.value is None:
                cx.bad("returns_a_mesh", "mismatch:returned_None", icls, call_number=call_no)
                return None
            result = o.value
    finally:
        for x, saved in saved_defaults:
            if x.shape == saved.shape and not np.array_equal(x, saved):
                np.copyto(x, saved, casting="unsafe")
    if _ACTIVE.get("dump") and _ACTIVE.get("facts") is not None and cx.rep is _ACTIVE["rep"]:
        o = call(mesh_dump, result)
        _ACTIVE["facts"]["dump"] = o.value if o.ok else {"type": type(result).__name__, "n_vertices": -1, "vertices": [],
                                                         "attributes": {"dump": "raises:" + str(o.exc)}}
    cx.rep.states += 1
    cx.rep.case((cx.gen, cx.form, repr(sorted(cx.params.items()))))
    cx.rep.flag("form:" + cx.form)
    if _ACTIVE.get("light") and cx.rep is _ACTIVE["rep"]:
        # a large case of a 'defaults' task in the quick tier: the returned mesh is only compared with the one of the
        # explicit call of the same case (the oracle sees these sizes in the thorough tier)
        cx.rep.count("callform_light_runs")
        return None
    coherent_object(cx, result, icls)
    if cx.unit != 1.0 and hasattr(result, "vertices") and len(result.vertices):
        # vacuity guard of the unit deviation: the returned coordinates really live at the deviated scale (every box
        # has extents within [0.05, 16] units: below 16*2^-12 < 0.01 resp. above 0.05*2^12 > 100)
        ext = float(np.abs(raw_verts_of(result)).max())
        if (cx.unit < 1.0 and ext < 0.01) or (cx.unit > 1.0 and ext > 100.0):
            cx.rep.count("unit_result_at_scale:" + cx.gen)
    return result


def rel(a, b):
    return "==" if a == b else ("<" if a < b else ">")


def eqne(a, b):
    return "==" if a == b else "!="


# =================================================================================================
# generators: parameter boxes (JSON-pure) and checks
# =================================================================================================
def _res(tier, lo=3):
    return list(range(lo, 7 if tier == "quick" else 13))


CENTRES = [[0.0, 0.0, 0.0], [1.0, 2.0, 3.0]]
RADII = [0.5, 1.0, 2.0]
BOOLS = [False, True]

QUADS4 = [  # P1, P2, P3, P4 (integer lattice, non-coplanar; both orientations)
    [[0, 0, 0], [1, 0, 0], [0, 1, 0], [0, 0, 1]],
    [[0, 0, 0], [0, 1, 0], [1, 0, 0], [0, 0, 1]],
    [[1, 2, 3], [3, 2, 3], [1, 5, 3], [2, 2, 7]],
    [[0, 0, 0], [2, 1, 0], [-1, 2, 0], [1, 1, 3]],
]
CUBE8 = [[0, 0, 0], [1, 0, 0], [1, 1, 0], [0, 1, 0], [0, 0, 1], [1, 0, 1], [1, 1, 1], [0, 1, 1]]
HEX_SIDES = [{0, 1, 2, 3}, {4, 5, 6, 7}, {0, 1, 5, 4}, {1, 2, 6, 5}, {2, 3, 7, 6}, {3, 0, 4, 7}]


def _affine(pts, A, b):
    return [[sum(A[i][j] * p[j] for j in range(3)) + b[i] for i in range(3)] for p in pts]


HEXAS = [CUBE8,
         _affine(CUBE8, [[2, 1, 0], [0, 3, 1], [0, 0, 2]], [1, 2, 3]),
         _affine(CUBE8, [[1, 0, 0], [0, 1, 0], [1, 1, -2]], [0, 0, 0])]   # mirrored


def _fl(p):
    return [float(c) for c in p]


# ------------------------------------------------------------------------------------- tetrahedron
def enum_tetrahedron(tier):
    quads = list(QUADS4)
    if tier == "thorough":   # every ordering of the first quadruple
        quads += [[QUADS4[2][i] for i in perm] for perm in itertools.permutations(range(4)) if perm != (0, 1, 2, 3)]
    return [{"pts": q, "volume": v} for q in quads for v in BOOLS]


def check_tetrahedron(M, p, rep):
    cx = Cx(rep, "tetrahedron", p)
    icls = f"tetrahedron:volume={p['volume']}"
    pts = [cx.pt(M, q) for q in p["pts"]]
    m = run_generator(cx, M.procedural.tetrahedron, icls, *pts, volume=p["volume"])
    if m is None:
        return
    P = verts_of(m)
    cx.counts(m, icls, nv=4, nf=4)
    cx.same_points(P, p["pts"], icls, ordered=True)
    if p["volume"]:
        if cx.expect_type(m, "VolumeMesh", icls, "switch.volume"):
            check_cells(cx, m, icls, n_cells=1, cell_size=4)
        cx.structural(m, icls, "sphere", oriented=False)
        rep.flag("volume=True")
    else:
        cx.expect_type(m, "SurfaceMesh", icls, "switch.volume")
        cx.structural(m, icls, "sphere")
        cx.arity(faces_of(m), 3, icls, "counts.face_arity")


def check_cells(cx, m, icls, n_cells, cell_size):
    cx.ev(2)
    cells = [tuple(int(v) for v in c) for c in m.cells]
    n = len(m.vertices)
    if len(cells) != n_cells:
        cx.bad("switch.volume", "mismatch:n_cells", icls, got=len(cells), want=n_cells)
        return
    for c in cells:
        if any(v < 0 or v >= n for v in c) or len(set(c)) != len(c) or len(c) != cell_size:
            cx.bad("switch.volume", "mismatch:cell", icls, cell=list(c), n_vertices=n)
            return
    if {v for c in cells for v in c} != set(range(n)):
        cx.bad("valid.no_unused_vertex", "mismatch:unused_vertices", icls, cells=[list(c) for c in cells], n_vertices=n)


# ------------------------------------------------------------------------------------- hexahedron family
def enum_hexahedron(tier):
    return [{"pts": h, "colored": c, "triangulate": t, "volume": v}
            for h in HEXAS for c in BOOLS for t in BOOLS for v in BOOLS]


def _hexa_surface_checks(cx, m, icls, triangulate, colored):
    faces = faces_of(m)
    cx.structural(m, icls, "sphere", faces=faces)
    cx.counts(m, icls, nv=8, nf=12 if triangulate else 6, faces=faces)
    cx.arity(faces, 3 if triangulate else 4, icls)
    cx.ev()
    has = bool(m.faces.has_attribute("color"))
    cx.rep.outcome("colored", (colored, has))
    if has != bool(colored):
        cx.bad("switch.colored", "mismatch:color_attribute", icls, colored=colored, has_color_attribute=has)
    elif has:
        # a colour attribute *on faces*: every entry belongs to a face of the mesh (axis_aligned_cube and
        # hexahedron_4pts are documented thin wrappers of hexahedron, which owns the colouring)
        cx.ev()
        attr = m.faces.get_attribute("color")
        keys = sorted(int(k) for k in attr) if type(attr).__name__ == "Attribute" else list(range(len(attr)))
        stray = [k for k in keys if k < 0 or k >= len(faces)]
        if stray:
            o = call(lambda: attr.as_array(len(faces)))
            cx.bad("switch.colored", "mismatch:color_entries_for_nonexistent_faces", "hexahedron:colored:" + ("triangles" if triangulate else "quads"),
                   callee="procedural.hexahedron", n_faces=len(faces), stray_face_indices=stray,
                   as_array="ok" if o.ok else o.exc + ": " + o.msg[:80])
    return faces


def check_hexahedron(M, p, rep):
    cx = Cx(rep, "hexahedron", p)
    icls = "hexahedron:volume" if p["volume"] else ("hexahedron:surface:triangles" if p["triangulate"] else "hexahedron:surface:quads")
    pts = [cx.pt(M, q) for q in p["pts"]]
    m = run_generator(cx, M.procedural.hexahedron, icls, *pts, colored=p["colored"], triangulate=p["triangulate"], volume=p["volume"])
    if m is None:
        return
    cx.same_points(verts_of(m), p["pts"], icls, ordered=True)
    if p["volume"]:
        rep.flag("volume=True")
        if cx.expect_type(m, "VolumeMesh", icls, "switch.volume"):
            check_cells(cx, m, icls, n_cells=1, cell_size=8)
        cx.counts(m, icls, nv=8)
        if len(m.faces):
            cx.structural(m, icls, "sphere", oriented=False)
        return
    if not cx.expect_type(m, "SurfaceMesh", icls, "switch.volume"):
        return
    faces = _hexa_surface_checks(cx, m, icls, p["triangulate"], p["colored"])
    cx.ev()
    off = [list(f) for f in faces if not any(set(f) <= s for s in HEX_SIDES)]
    if off:
        cx.bad("geometry.requested_corners", "mismatch:face_not_a_documented_side", icls, faces=off[:4])


def enum_axis_aligned_cube(tier):
    return [{"colored": c, "triangulate": t} for c in BOOLS for t in BOOLS]


def check_axis_aligned_cube(M, p, rep):
    np = _np()
    cx = Cx(rep, "axis_aligned_cube", p)
    icls = "axis_aligned_cube:" + ("triangles" if p["triangulate"] else "quads")
    m = run_generator(cx, M.procedural.axis_aligned_cube, icls, colored=p["colored"], triangulate=p["triangulate"])
    if m is None or not cx.expect_type(m, "SurfaceMesh", icls):
        return
    P = verts_of(m)
    faces = _hexa_surface_checks(cx, m, icls, p["triangulate"], p["colored"])
    cx.same_points(P, [[x, y, z] for x in (-.5, .5) for y in (-.5, .5) for z in (-.5, .5)], icls, ordered=False)
    cx.ev()
    if not any(v < 0 or v >= len(P) for f in faces for v in f):
        off = [list(f) for f in faces if not any(float(np.ptp(P[list(f), ax])) <= TOL for ax in range(3))]
        if off:
            cx.bad("geometry.on_surface", "mismatch:face_not_axis_aligned", icls, faces=off[:4])


def enum_hexahedron_4pts(tier):
    return [{"pts": q, "colored": c, "volume": v} for q in QUADS4 for c in BOOLS for v in BOOLS]


def check_hexahedron_4pts(M, p, rep):
    np = _np()
    cx = Cx(rep, "hexahedron_4pts", p)
    icls = f"hexahedron_4pts:volume={p['volume']}"
    pts = [cx.pt(M, q) for q in p["pts"]]
    m = run_generator(cx, M.procedural.hexahedron_4pts, icls, *pts, colored=p["colored"], volume=p["volume"])
    if m is None:
        return
    P1, P2, P3, P4 = (np.array(q, float) for q in p["pts"])
    X, Y, Z = P2 - P1, P3 - P1, P4 - P1
    want = [P1 + a * X + b * Y + c * Z for c in (0, 1) for a in (0, 1) for b in (0, 1)]
    cx.same_points(verts_of(m), want, icls, ordered=False)
    cx.counts(m, icls, nv=8)
    if p["volume"]:
        rep.flag("volume=True")
        if cx.expect_type(m, "VolumeMesh", icls, "switch.volume"):
            check_cells(cx, m, icls, n_cells=1, cell_size=8)
            if len(m.faces):
                cx.structural(m, icls, "sphere", oriented=False)
        else:   # still a mesh of the promised shape?
            cx.structural(m, icls, "sphere")
        return
    if cx.expect_type(m, "SurfaceMesh", icls, "switch.volume"):
        _hexa_surface_checks(cx, m, icls, False, p["colored"])


# ------------------------------------------------------------------------------------- platonic solids
def _regular_solid(cx, m, icls, centre, nv, nf, arity_):
    np = _np()
    res = cx.structural(m, icls, "sphere")
    cx.counts(m, icls, nv=nv, nf=nf)
    cx.arity(res["faces"], arity_, icls, "counts.face_arity")
    P = verts_of(m)
    cx.ev(2)
    d = np.linalg.norm(P - np.asarray(centre, float), axis=1)
    if float(d.max() - d.min()) > TOL * max(1.0, float(d.max())):
        cx.bad("geometry.on_surface", "mismatch:not_equidistant_from_centre", icls, got_min=float(d.min()), got_max=float(d.max()))
    if res["broken"] is None:
        L = [float(np.linalg.norm(P[a] - P[b])) for (a, b) in res["und"]]
        if max(L) - min(L) > TOL * max(1.0, max(L)):
            cx.bad("geometry.on_surface", "mismatch:edges_not_equal", icls, min_edge=min(L), max_edge=max(L))
    return P


def enum_octahedron(tier):
    return [{}]


def check_octahedron(M, p, rep):
    cx = Cx(rep, "octahedron", p)
    m = run_generator(cx, M.procedural.octahedron, "octahedron")
    if m is not None and cx.expect_type(m, "SurfaceMesh", "octahedron"):
        _regular_solid(cx, m, "octahedron", [0, 0, 0], 6, 8, 3)


def enum_dodecahedron(tier):
    return [{}]


def check_dodecahedron(M, p, rep):
    cx = Cx(rep, "dodecahedron", p)
    m = run_generator(cx, M.procedural.dodecahedron, "dodecahedron")
    if m is not None and cx.expect_type(m, "SurfaceMesh", "dodecahedron"):
        _regular_solid(cx, m, "dodecahedron", [0, 0, 0], 20, 12, 5)


def enum_icosahedron(tier):
    return [{"center": c, "radius": r, "uv": uv} for c in CENTRES for r in RADII for uv in BOOLS]


def check_icosahedron(M, p, rep):
    cx = Cx(rep, "icosahedron", p)
    icls = "icosahedron"
    if cx.omit_centre(p):      # the documented default centre is the origin
        m = run_generator(cx, M.procedural.icosahedron, icls, radius=p["radius"], uv=p["uv"])
    else:
        m = run_generator(cx, M.procedural.icosahedron, icls, cx.pt(M, p["center"]), cx.ln(p["radius"]), p["uv"])
    if m is None or not cx.expect_type(m, "SurfaceMesh", icls):
        return
    P = _regular_solid(cx, m, icls, p["center"], 12, 20, 3)
    cx.on_sphere(P, p["center"], p["radius"], icls)
    if p["uv"]:
        cx.ev()
        names = [str(a) for cont in (m.vertices, m.face_corners, m.faces) for a in cont.attributes]
        if not any("uv" in a.lower() for a in names):
            cx.bad("switch.uv", "mismatch:no_uv_attribute", "icosahedron:uv=True", attributes=names)


# ------------------------------------------------------------------------------------- cylinder
AXES = [[[0, 0, 0], [0, 0, 1]], [[0, 0, 0], [1, 0, 0]], [[1, 2, 3], [2, 0, 5]], [[0, 0, 0], [0, 0, -2]],
        [[1, 1, 1], [1, 4, 1]], [[-1, 0, 2], [2, 3, -1]]]


# direction family (round 5): the axis of a cylinder runs through EVERY primitive integer direction of the cube
# |d|_inf <= 2 (98 directions; thorough <= 3: 290) - all sign patterns, every ratio of two components, every angle to
# each coordinate axis that the cube offers - and through the coordinate axes tilted by 2^-k towards another axis
# (k = 10, 19, 20, 30 - around the 1e-6 below which a generator may have to pick another auxiliary vector; thorough more);
# radius, N, caps and the starting point rotate with the index of the direction (a rule, every value of each occurs)
TILT_EXPONENTS = {"quick": [10, 19, 20, 30], "thorough": [10, 15, 19, 20, 21, 25, 30, 40, 52]}
DIRECTION_CUBE = {"quick": 3, "thorough": 4}


def direction_family(tier):
    from mc import c14_more as X
    return ([(d, "lattice") for d in X.primitive_directions(DIRECTION_CUBE[tier])] + X.tilted_axes(TILT_EXPONENTS[tier]))


def enum_cylinder(tier):
    axes = AXES[:4] if tier == "quick" else AXES
    out = [{"P1": a[0], "P2": a[1], "radius": r, "N": n, "fill_caps": fc}
           for a in axes for r in RADII for n in _res(tier) for fc in BOOLS]
    for i, (d, label) in enumerate(direction_family(tier)):
        P1 = [0, 0, 0] if (i // 24) % 2 == 0 else [1, 2, 3]
        for fc in ([bool((i // 12) % 2)] if tier == "quick" else BOOLS):
            out.append({"P1": P1, "P2": [P1[j] + d[j] for j in range(3)], "radius": RADII[i % 3], "N": 3 + (i // 3) % 4,
                        "fill_caps": fc, "family": "direction:" + label})
    return out


def _cylinder_geometry(cx, P, idx, P1, P2, radius, N, icls, caps):
    """vertices idx of P form a cylinder of the given radius around segment P1P2 with N regularly spaced points per end"""
    np = _np()
    P1, P2 = np.asarray(P1, float), np.asarray(P2, float)
    L = float(np.linalg.norm(P2 - P1))
    d = (P2 - P1) / L
    Q = P[idx] - P1
    t = Q @ d
    radial = Q - np.outer(t, d)
    rho = np.linalg.norm(radial, axis=1)
    scale = max(1.0, radius, L)
    cx.ev(3)
    # with caps the two vertices on the axis are the cap centres; without caps every vertex is a vertex of the wall
    # (one that sits on the axis is then simply not at the radius)
    ring = (rho > 1e-6 * scale) if caps else np.ones(len(idx), bool)
    centres = [i for i in range(len(idx)) if not ring[i]]
    if caps:
        cs = sorted(round(float(t[i]) / L, 9) for i in centres)
        if cs != [0.0, 1.0]:
            cx.bad("geometry.requested_corners", "mismatch:cap_centres", icls, axial_positions_of_axis_vertices=cs)
    if ring.any():
        bad_r = float(np.abs(rho[ring] - radius).max())
        if bad_r > TOL * scale:
            cx.bad("geometry.on_surface", "mismatch:radius", icls, want_radius=radius,
                   got_min=float(rho[ring].min()), got_max=float(rho[ring].max()))
            return
    ends = {0: [], 1: []}
    for i in range(len(idx)):
        if ring[i]:
            if abs(t[i]) <= TOL * scale:
                ends[0].append(i)
            elif abs(t[i] - L) <= TOL * scale:
                ends[1].append(i)
            else:
                cx.bad("geometry.on_surface", "mismatch:not_on_end_planes", icls, axial=float(t[i]), length=L)
                return
    # regular sampling: angles in an orthonormal frame of the plane orthogonal to the axis
    e1 = radial[ends[0][0]] / rho[ends[0][0]] if ends[0] else None
    if e1 is None:
        cx.bad("counts.vertices", "mismatch:empty_end_ring", icls)
        return
    e2 = np.cross(d, e1)
    for k in (0, 1):
        ang = [math.atan2(float(radial[i] @ e2), float(radial[i] @ e1)) for i in ends[k]]
        ok, vals = equally_spaced_circular(ang, N)
        cx.ev()
        if len(ends[k]) != N or not ok:
            cx.bad("geometry.regular_sampling", "mismatch:ring_angles", icls, end=k, n_points=len(ends[k]), want_N=N, angles=vals)
            return


def check_cylinder(M, p, rep):
    cx = Cx(rep, "cylinder", p)
    icls = "cylinder:" + ("caps" if p["fill_caps"] else "open")
    N = p["N"]
    m = run_generator(cx, M.procedural.cylinder, icls, cx.pt(M, p["P1"]), cx.pt(M, p["P2"]), cx.ln(p["radius"]), N, p["fill_caps"])
    if m is None or not cx.expect_type(m, "SurfaceMesh", icls):
        return
    rep.flag(f"fill_caps={p['fill_caps']}")
    if "family" in p and cx.form == "primary":
        rep.count("direction_cases:" + p["family"].split(":")[1])
    res = cx.structural(m, icls, "sphere" if p["fill_caps"] else "annulus")
    cx.counts(m, icls, nv=2 * N + (2 if p["fill_caps"] else 0), nf=4 * N if p["fill_caps"] else 2 * N)
    cx.arity(res["faces"], 3, icls, "counts.face_arity")
    P = verts_of(m)
    _cylinder_geometry(cx, P, list(range(len(P))), p["P1"], p["P2"], p["radius"], N, icls, p["fill_caps"])


# ------------------------------------------------------------------------------------- torus
TORUS_RADII = [[1.0, 0.25], [2.0, 0.5], [1.0, 0.5], [2.0, 1.0], [0.5, 0.25]]


def enum_torus(tier):
    rr = TORUS_RADII[:2] if tier == "quick" else TORUS_RADII
    return [{"major": a, "minor": b, "R": R, "r": r, "triangulate": t}
            for a in _res(tier) for b in _res(tier) for (R, r) in rr for t in BOOLS]


def check_torus(M, p, rep):
    np = _np()
    cx = Cx(rep, "torus", p)
    a, b, R, r = p["major"], p["minor"], p["R"], p["r"]
    icls = f"torus:major{eqne(a, b)}minor"
    m = run_generator(cx, M.procedural.torus, icls, a, b, cx.ln(R), cx.ln(r), p["triangulate"])
    if m is None or not cx.expect_type(m, "SurfaceMesh", icls):
        return
    rep.flag("unequal_resolutions" if a != b else "equal_resolutions")
    res = cx.structural(m, icls, "torus")
    cx.counts(m, icls, nv=a * b, nf=a * b * (2 if p["triangulate"] else 1))
    cx.arity(res["faces"], 3 if p["triangulate"] else 4, icls)
    P = verts_of(m)
    cx.ev(2)
    rxy = np.hypot(P[:, 0], P[:, 1])
    dev = np.abs(np.hypot(rxy - R, P[:, 2]) - r)
    if float(dev.max()) > TOL * max(1.0, R):
        cx.bad("geometry.on_surface", "mismatch:radius", icls, major_radius=R, minor_radius=r, max_deviation=float(dev.max()))
        return
    u = np.arctan2(P[:, 1], P[:, 0])
    v = np.arctan2(P[:, 2], rxy - R)
    ok, vals = equally_spaced_circular(u.tolist(), a)
    if not ok:
        cx.bad("geometry.regular_sampling", "mismatch:major_angles", icls, want=a, angles=vals)
        return
    ucl = [c[0] for c in circular_clusters(u.tolist())]
    for uc in ucl:
        sel = [i for i in range(len(P)) if min(abs((u[i] - uc) % (2 * PI)), abs((uc - u[i]) % (2 * PI))) < 1e-6]
        ok, vals = equally_spaced_circular([float(v[i]) for i in sel], b)
        if not ok or len(sel) != b:
            cx.bad("geometry.regular_sampling", "mismatch:minor_angles", icls, want=b, n_points=len(sel), angles=vals)
            return


# ------------------------------------------------------------------------------------- spheres
def enum_sphere_uv(tier):
    return [{"n_lat": a, "n_long": b, "center": c, "radius": r}
            for a in _res(tier, 2) for b in _res(tier) for c in CENTRES for r in RADII]


def check_sphere_uv(M, p, rep):
    np = _np()
    cx = Cx(rep, "sphere_uv", p)
    a, b = p["n_lat"], p["n_long"]
    icls = "sphere_uv"
    if cx.omit_centre(p):
        m = run_generator(cx, M.procedural.sphere_uv, icls, a, b, radius=p["radius"])
    else:
        m = run_generator(cx, M.procedural.sphere_uv, icls, a, b, cx.pt(M, p["center"]), cx.ln(p["radius"]))
    if m is None or not cx.expect_type(m, "SurfaceMesh", icls):
        return
    rep.flag("unequal_resolutions" if a != b else "equal_resolutions")
    cx.structural(m, icls, "sphere")
    cx.counts(m, icls, nv=a * b + 2)       # tests/test_procedural.py::test_sphere_uv, "don't forget the poles"
    P = verts_of(m)
    cx.on_sphere(P, p["center"], p["radius"], icls)
    Q = P - np.asarray(p["center"], float)
    rho = np.hypot(Q[:, 0], Q[:, 1])
    sel = rho > 1e-6 * p["radius"]
    cx.ev()
    ok, vals = equally_spaced_circular(np.arctan2(Q[sel, 1], Q[sel, 0]).tolist(), b)
    if not ok:
        cx.bad("geometry.regular_sampling", "mismatch:longitudes", icls, want=b, angles=vals)


def enum_icosphere(tier):
    ks = [0, 1, 2] if tier == "quick" else [0, 1, 2, 3, 4]
    return [{"n_refine": k, "center": c, "radius": r} for k in ks for c in CENTRES for r in RADII]


def check_icosphere(M, p, rep):
    cx = Cx(rep, "icosphere", p)
    k = p["n_refine"]
    icls = "icosphere:n_refine=0" if k == 0 else "icosphere:n_refine>0"
    if cx.omit_centre(p):
        m = run_generator(cx, M.procedural.icosphere, icls, k, radius=p["radius"])
    else:
        m = run_generator(cx, M.procedural.icosphere, icls, k, cx.pt(M, p["center"]), cx.ln(p["radius"]))
    if m is None or not cx.expect_type(m, "SurfaceMesh", icls):
        return
    res = cx.structural(m, icls, "sphere")
    cx.counts(m, icls, nv=10 * 4 ** k + 2, nf=20 * 4 ** k)
    cx.arity(res["faces"], 3, icls, "counts.face_arity")
    cx.on_sphere(verts_of(m), p["center"], p["radius"], icls)


def enum_sphere_fibonacci(tier):
    ns = list(range(4, 13)) if tier == "quick" else list(range(4, 81))
    return [{"n_pts": n, "radius": r, "build_surface": bs} for n in ns for r in RADII for bs in BOOLS]


def check_sphere_fibonacci(M, p, rep):
    np = _np()
    cx = Cx(rep, "sphere_fibonacci", p)
    icls = f"sphere_fibonacci:build_surface={p['build_surface']}"
    m = run_generator(cx, M.procedural.sphere_fibonacci, icls, p["n_pts"], cx.ln(p["radius"]), p["build_surface"])
    if m is None:
        return
    rep.flag(f"build_surface={p['build_surface']}")
    P = verts_of(m)
    cx.counts(m, icls, nv=p["n_pts"])
    cx.on_sphere(P, [0, 0, 0], p["radius"], icls)
    cx.ev()
    if len(P) > 1:
        D = np.linalg.norm(P[:, None, :] - P[None, :, :], axis=2) + np.eye(len(P))
        if float(D.min()) < 1e-6 * p["radius"]:
            cx.bad("geometry.regular_sampling", "mismatch:coincident_points", icls, min_distance=float(D.min()))
    if p["build_surface"]:
        if cx.expect_type(m, "SurfaceMesh", icls, "switch.build_surface"):
            res = cx.structural(m, icls, "sphere")
            cx.arity(res["faces"], 3, icls, "counts.face_arity")
    else:
        cx.ev()
        got = type(m).__name__
        rep.outcome("type", got)
        if got not in ("PointCloud",) and len(getattr(m, "faces", [])) > 0:
            cx.bad("switch.build_surface", "mismatch:faces_built", icls, type=got)


# ------------------------------------------------------------------------------------- flat
TRIS = [[[0, 0, 0], [1, 0, 0], [0, 1, 1]], [[1, 2, 3], [4, 2, 3], [1, 2, 7]], [[1, 0, 0], [2, 0, 0], [0, 1, 1]],
        [[0, 0, 0], [0, 1, 0], [1, 0, 0]]]


def enum_triangle(tier):
    return [{"pts": t} for t in TRIS]


def check_triangle(M, p, rep):
    cx = Cx(rep, "triangle", p)
    icls = "triangle"
    m = run_generator(cx, M.procedural.triangle, icls, *[cx.pt(M, q) for q in p["pts"]])
    if m is None or not cx.expect_type(m, "SurfaceMesh", icls):
        return
    cx.structural(m, icls, "disk")
    cx.counts(m, icls, nv=3, nf=1)
    cx.same_points(verts_of(m), p["pts"], icls, ordered=False)


def enum_quad(tier):
    return [{"pts": t, "triangulate": tr} for t in TRIS for tr in BOOLS]


def check_quad(M, p, rep):
    np = _np()
    cx = Cx(rep, "quad", p)
    icls = "quad:" + ("triangles" if p["triangulate"] else "quads")
    m = run_generator(cx, M.procedural.quad, icls, *[cx.pt(M, q) for q in p["pts"]], triangulate=p["triangulate"])
    if m is None or not cx.expect_type(m, "SurfaceMesh", icls):
        return
    res = cx.structural(m, icls, "disk")
    cx.counts(m, icls, nv=4, nf=2 if p["triangulate"] else 1)
    cx.arity(res["faces"], 3 if p["triangulate"] else 4, icls)
    P0, P1, P2 = (np.array(q, float) for q in p["pts"])
    P = verts_of(m)
    ok = cx.same_points(P, [P0, P1, P2, P1 + P2 - P0], icls, ordered=False)   # tests/test_procedural.py::test_quad
    if ok and res["ok"]:
        # the documented picture: P0-P1 and P0-P2 are sides of the parallelogram
        cx.ev()
        def idx(q):
            return int(np.argmin(np.abs(P - q).sum(axis=1)))
        i0, i1, i2 = idx(P0), idx(P1), idx(P2)
        border = {e for e, l in res["und"].items() if len(l) == 1}
        need = {(min(i0, i1), max(i0, i1)), (min(i0, i2), max(i0, i2))}
        if not need <= border:
            cx.bad("geometry.requested_corners", "mismatch:sides", icls, border=sorted(map(list, border)), corners=[i0, i1, i2])


def enum_unit_grid(tier):
    return [{"nu": a, "nv": b, "triangulate": t, "generate_uvs": g}
            for a in _res(tier, 2) for b in _res(tier, 2) for t in BOOLS for g in BOOLS]


def _uv_check(cx, m, P, want_attr, icls):
    np = _np()
    cx.ev()
    has = bool(m.vertices.has_attribute("uv_coords"))
    cx.rep.outcome("generate_uvs", (want_attr, has))
    if has != bool(want_attr):
        cx.bad("switch.generate_uvs", "mismatch:uv_attribute_presence", icls, generate_uvs=want_attr, has_uv_coords=has)
        return
    if not has:
        return
    attr = m.vertices.get_attribute("uv_coords")
    cx.ev()
    wrong = []
    for i in range(len(P)):
        o = call(lambda: [float(c) for c in attr[i]])
        if (not o.ok) or len(o.value) != 2 or abs(o.value[0] - P[i][0]) > TOL or abs(o.value[1] - P[i][1]) > TOL:
            wrong.append({"vertex": i, "position": P[i].tolist(), "uv": o.value if o.ok else o.exc})
    if wrong:
        cx.bad("switch.generate_uvs", "mismatch:uv_values", icls, n_wrong=len(wrong), first=wrong[:3])


def _planar_cover(cx, P, res, icls, want_area, corners):
    """z = 0, faces consistently oriented in the plane, they tile a region of the documented area and the documented
    corners are vertices"""
    np = _np()
    cx.ev(3)
    if float(np.abs(P[:, 2]).max()) > TOL:
        cx.bad("geometry.on_surface", "mismatch:not_in_plane_z=0", icls, max_abs_z=float(np.abs(P[:, 2]).max()))
        return
    missing = [c for c in corners if float(np.abs(P[:, :2] - np.array(c, float)).sum(axis=1).min()) > TOL]
    if missing:
        cx.bad("geometry.requested_corners", "mismatch:corner_missing", icls, missing_corners=missing,
               bounding_box=[P[:, :2].min(axis=0).tolist(), P[:, :2].max(axis=0).tolist()])
        return
    if not res["ok"]:
        return
    A = planar_signed_areas(P, res["faces"])
    if min(A) * max(A) <= 0 or abs(abs(sum(A)) - want_area) > TOL:
        cx.bad("geometry.covers_shape", "mismatch:area", icls, want_area=want_area, sum_signed_area=sum(A),
               min_face_area=min(A), max_face_area=max(A))


def check_unit_grid(M, p, rep):
    np = _np()
    cx = Cx(rep, "unit_grid", p)
    nu, nv = p["nu"], p["nv"]
    icls = f"unit_grid:nu{eqne(nu, nv)}nv"
    m = run_generator(cx, M.procedural.unit_grid, icls, nu, nv, p["triangulate"], p["generate_uvs"])
    if m is None or not cx.expect_type(m, "SurfaceMesh", icls):
        return
    rep.flag("unequal_resolutions" if nu != nv else "equal_resolutions")
    rep.flag(f"generate_uvs={p['generate_uvs']}"); rep.flag(f"triangulate={p['triangulate']}")
    res = cx.structural(m, icls, "disk")
    k = 2 if p["triangulate"] else 1
    cx.counts(m, icls, nv=nu * nv, nf=(nu - 1) * (nv - 1) * k)
    if res["faces"]:
        cx.arity(res["faces"], 3 if p["triangulate"] else 4, icls)
    P = verts_of(m)
    want = [[i / (nu - 1), j / (nv - 1), 0.0] for i in range(nu) for j in range(nv)]
    if cx.same_points(P, want, icls, ordered=False, sub="geometry.on_surface"):
        _planar_cover(cx, P, res, icls, 1.0, [[0, 0], [1, 0], [0, 1], [1, 1]])
    _uv_check(cx, m, P, p["generate_uvs"], icls)


def enum_unit_triangle(tier):
    return [{"nu": a, "nv": b, "generate_uvs": g} for a in _res(tier, 2) for b in _res(tier, 2) for g in BOOLS]


def check_unit_triangle(M, p, rep):
    np = _np()
    cx = Cx(rep, "unit_triangle", p)
    nu, nv = p["nu"], p["nv"]
    icls = f"unit_triangle:nu{rel(nu, nv)}nv"
    m = run_generator(cx, M.procedural.unit_triangle, icls, nu, nv, p["generate_uvs"])
    if m is None or not cx.expect_type(m, "SurfaceMesh", icls):
        return
    rep.flag("unequal_resolutions" if nu != nv else "equal_resolutions")
    res = cx.structural(m, icls, "disk")
    if nu == nv:
        cx.counts(m, icls, nv=nu * (nu + 1) // 2)      # tests/test_procedural.py::test_unit_triangle
    cx.arity(res["faces"], 3, icls, "counts.face_arity")
    P = verts_of(m)
    cx.ev()
    out = [P[i].tolist() for i in range(len(P)) if P[i][0] < -TOL or P[i][1] < -TOL or P[i][0] + P[i][1] > 1 + TOL]
    if res["broken"] is not None:
        rep.count("geometry_not_examined_on_structurally_broken_mesh")
    elif out:
        cx.bad("geometry.on_surface", "mismatch:vertex_outside_unit_triangle", icls, outside=out[:4])
    else:
        _planar_cover(cx, P, res, icls, 0.5, [[0, 0], [1, 0], [0, 1]])
    _uv_check(cx, m, P, p["generate_uvs"], icls)


# ------------------------------------------------------------------------------------- rings
def _defects(tier):
    # 6.0 and 6.2 lie beyond what the initial search interval of the apex bisection reaches (apex height 10 gives
    # a defect of about 5.7): they exercise the branch that grows the interval. The admissible maximum is 2*pi-0.01.
    return [0.0, 0.3, PI / 2, PI, 6.0, 6.2] + ([5.0, 2 * PI - 0.01] if tier == "thorough" else [])


def enum_ring(tier):
    covers = [1, 2] if tier == "quick" else [1, 2, 3]
    return [{"N": n, "defect": d, "open": o, "n_cover": c} for n in _res(tier) for d in _defects(tier) for o in BOOLS for c in covers]


def _fan_checks(cx, m, icls, n_tri, nv_want, defect, n_cover, tol_defect, apex_interior, icls_geom):
    res = cx.structural(m, icls, "disk")
    cx.counts(m, icls, nv=nv_want, nf=n_tri)
    cx.arity(res["faces"], 3, icls, "counts.face_arity")
    if res["broken"] is not None:
        return None, None
    faces = res["faces"]
    common = set(faces[0])
    for f in faces:
        common &= set(f)
    cx.ev(2)
    if len(common) != 1:
        cx.bad("topology", "mismatch:no_single_apex", icls, common_vertices=sorted(common))
        return None, None
    apex = next(iter(common))
    on_border = apex in res["border_vertices"]
    if apex_interior is not None and on_border == apex_interior:
        cx.bad("switch.open", "mismatch:apex_on_border", icls, apex_on_border=on_border, want_interior=apex_interior)
    P = verts_of(m)
    total = 0.0
    for f in faces:
        i = f.index(apex)
        total += angle_at(P, apex, f[(i + 1) % 3], f[(i + 2) % 3])
    got = 2 * PI - total / n_cover
    if abs(got - defect) > tol_defect:
        cx.bad("geometry.angle_defect", "mismatch:apex_defect", icls_geom, want_defect=defect, got_defect_per_cover=got,
               sum_of_apex_angles=total, n_cover=n_cover)
    return P, apex


def check_ring(M, p, rep):
    cx = Cx(rep, "ring", p)
    N, c = p["N"], p["n_cover"]
    icls = "ring:" + ("open" if p["open"] else "closed") + (":n_cover=1" if c == 1 else ":n_cover>1")
    m = run_generator(cx, M.procedural.ring, icls, N, p["defect"], p["open"], c)
    if m is None or not cx.expect_type(m, "SurfaceMesh", icls):
        return
    rep.flag(f"open={p['open']}")
    _fan_checks(cx, m, icls, N * c, N * c + 1 + (1 if p["open"] else 0), p["defect"], c, 2e-6, not p["open"], "ring")


def enum_flat_ring(tier):
    covers = [1, 2] if tier == "quick" else [1, 2, 3]
    return [{"N": n, "defect": d, "n_cover": c} for n in _res(tier) for d in _defects(tier) for c in covers]


def check_flat_ring(M, p, rep):
    np = _np()
    cx = Cx(rep, "flat_ring", p)
    N, c = p["N"], p["n_cover"]
    icls = "flat_ring:" + ("n_cover=1" if c == 1 else "n_cover>1")
    m = run_generator(cx, M.procedural.flat_ring, icls, N, p["defect"], c)
    if m is None or not cx.expect_type(m, "SurfaceMesh", icls):
        return
    P, apex = _fan_checks(cx, m, icls, N * c, N * c + 2, p["defect"], c, 1e-9, None, "flat_ring")
    if P is not None:
        cx.ev()
        if float(np.abs(P[:, 2]).max()) > TOL:
            cx.bad("geometry.on_surface", "mismatch:not_flat", icls, max_abs_z=float(np.abs(P[:, 2]).max()))


# ------------------------------------------------------------------------------------- dual
def _sources(M):
    V, Pr = M.Vec, M.procedural
    z0, z1 = V(0., 0., 0.), V(0., 0., 1.)
    return {
        # closed
        "cube": lambda: Pr.axis_aligned_cube(),
        "cube_tri": lambda: Pr.axis_aligned_cube(triangulate=True),
        "icosahedron": lambda: Pr.icosahedron(),
        "octahedron": lambda: Pr.octahedron(),
        "dodecahedron": lambda: Pr.dodecahedron(),
        "torus_3x4": lambda: Pr.torus(3, 4, 1., .25),
        "torus_4x3_tri": lambda: Pr.torus(4, 3, 1., .25, True),
        "torus_5x5_tri": lambda: Pr.torus(5, 5, 2., .5, True),
        "torus_6x3": lambda: Pr.torus(6, 3, 2., .5),
        "icosphere_1": lambda: Pr.icosphere(1),
        "icosphere_2": lambda: Pr.icosphere(2),
        "fibonacci_7": lambda: Pr.sphere_fibonacci(7),
        "fibonacci_8": lambda: Pr.sphere_fibonacci(8),
        "fibonacci_12": lambda: Pr.sphere_fibonacci(12),
        "fibonacci_25": lambda: Pr.sphere_fibonacci(25),
        "cylinder_caps_3": lambda: Pr.cylinder(z0, z1, 1., 3),
        "cylinder_caps_4": lambda: Pr.cylinder(z0, z1, 1., 4),
        "cylinder_caps_6": lambda: Pr.cylinder(V(1., 2., 3.), V(2., 0., 5.), .5, 6),
        # bordered
        "grid_3x3": lambda: Pr.unit_grid(3, 3),
        "grid_4x4_tri": lambda: Pr.unit_grid(4, 4, True),
        "grid_2x2": lambda: Pr.unit_grid(2, 2),
        "grid_5x5": lambda: Pr.unit_grid(5, 5),
        "ring_5": lambda: Pr.ring(5, 0.3),
        "ring_4_open": lambda: Pr.ring(4, 0.3, True),
        "flat_ring_4": lambda: Pr.flat_ring(4, 0.3),
        "cylinder_open_4": lambda: Pr.cylinder(z0, z1, 1., 4, False),
        "cylinder_open_5": lambda: Pr.cylinder(z0, z1, 1., 5, False),
        "triangle": lambda: Pr.triangle(z0, V(1., 0., 0.), V(0., 1., 0.)),
        "quad_tri": lambda: Pr.quad(z0, V(1., 0., 0.), V(0., 1., 0.), True),
        "unit_triangle_4": lambda: Pr.unit_triangle(4, 4),
    }


DUAL_CLOSED_QUICK = ["cube", "cube_tri", "icosahedron", "octahedron", "dodecahedron", "torus_3x4", "torus_4x3_tri",
                     "icosphere_1", "fibonacci_7", "fibonacci_12", "cylinder_caps_4"]
DUAL_CLOSED_MORE = ["torus_5x5_tri", "torus_6x3", "icosphere_2", "fibonacci_8", "fibonacci_25", "cylinder_caps_3", "cylinder_caps_6"]
DUAL_BORDERED_QUICK = ["grid_3x3", "grid_4x4_tri", "ring_5", "cylinder_open_4", "triangle", "unit_triangle_4", "flat_ring_4"]
DUAL_BORDERED_MORE = ["grid_2x2", "grid_5x5", "ring_4_open", "cylinder_open_5", "quad_tri"]


def enum_dual_mesh(tier):
    closed = DUAL_CLOSED_QUICK + (DUAL_CLOSED_MORE if tier == "thorough" else [])
    bordered = DUAL_BORDERED_QUICK + (DUAL_BORDERED_MORE if tier == "thorough" else [])
    out = []
    for s in closed + bordered:
        for mode in ("barycenter", "circumcenter"):
            out.append({"src": s, "mode": mode, "bordered": s in bordered})
    return out


def _circumcentre(a, b, c):
    np = _np()
    ab, ac = b - a, c - a
    n = np.cross(ab, ac)
    return a + (np.cross(n, ab) * float(ac @ ac) + np.cross(ac, n) * float(ab @ ab)) / (2 * float(n @ n))


def check_dual_mesh(M, p, rep):
    np = _np()
    cx = Cx(rep, "dual_mesh", p)
    src = _sources(M)[p["src"]]()
    if cx.unit != 1.0:      # the same surface in another unit of length (a fresh mesh, nothing cached)
        raw = M.mesh.RawMeshData()
        raw.vertices += [M.Vec(*[float(c) * cx.unit for c in v]) for v in src.vertices]
        raw.faces += [[int(v) for v in f] for f in src.faces]
        src = M.mesh.SurfaceMesh(raw)
    if cx.input_history is not None:      # the same surface as an object with a past
        if p["mode"] == "circumcenter" and any(len(f) != 3 for f in src.faces):
            rep.count("dual_circumcenter_on_non_triangles_skipped")
            return
        src = cx.input_mesh(M, "surface", raw_verts_of(src), faces_of(src), lambda m_: M.procedural.dual_mesh(m_, p["mode"]))
    Fp = faces_of(src)
    Pp = verts_of(src)
    if p["mode"] == "circumcenter" and any(len(f) != 3 for f in Fp):
        rep.count("dual_circumcenter_on_non_triangles_skipped")       # documented rejection, not admissible
        return
    pa = analyse(Fp, len(Pp))
    if pa["broken"] is not None or not pa["orientation_ok"] or pa["unused"]:
        raise AssertionError(f"dual_mesh source {p['src']} is not a valid input: {pa['broken']}")
    icls = "dual_mesh:" + ("bordered_input" if p["bordered"] else "closed_input")
    assert (pa["loops"] > 0) == p["bordered"]
    m = run_generator(cx, M.procedural.dual_mesh, icls, src, p["mode"])
    if m is None or not cx.expect_type(m, "SurfaceMesh", icls):
        return
    rep.flag("dual:" + ("bordered" if p["bordered"] else "closed"))
    faces = faces_of(m)
    P = verts_of(m)
    # positions: dual vertices are the centres of the primal faces
    if p["mode"] == "barycenter":
        C = np.array([Pp[list(f)].mean(axis=0) for f in Fp])
    else:
        C = np.array([_circumcentre(*(Pp[v] for v in f)) for f in Fp])
    cx.counts(m, icls, nv=len(Fp))
    cx.ev()
    by_index = P.shape == C.shape and float(np.abs(P - C).max()) <= 1e-9 * max(1.0, float(np.abs(C).max()))
    if not by_index and not rows_match_as_sets(P, C):
        cx.bad("geometry.on_surface", "mismatch:dual_vertex_positions", "dual_mesh:mode=" + p["mode"], source=p["src"],
               got=P.tolist()[:3], want=C.tolist()[:3])
    if p["bordered"]:
        # the statement promises a valid mesh; which faces the dual of a bordered mesh has is not documented
        res = analyse(faces, len(P))
        cx.ev(2)
        if res["broken"] is not None:
            kind = {"indices_in_range": "mismatch:index_out_of_range", "well_formed_faces": "mismatch:degenerate_face",
                    "no_repeated_face": "mismatch:repeated_face", "manifold": "mismatch:non_manifold"}[res["broken"]]
            cx.bad("valid." + res["broken"], kind, icls, **res["witness"])
        elif not res["orientation_ok"]:
            cx.bad("valid.orientation", "mismatch:inconsistent_orientation", icls, **res["orientation_witness"])
        return
    # closed input of Euler characteristic chi: the dual is closed, same chi, V <-> F swapped
    shape = {2: "sphere", 0: "torus"}[pa["chi"]]
    res = cx.structural(m, icls, shape, faces=faces)
    cx.counts(m, icls, nf=len(Pp), faces=faces)
    if res["broken"] is None and by_index:
        cx.ev()
        inc = [set() for _ in range(len(Pp))]
        for fi, f in enumerate(Fp):
            for v in f:
                inc[v].add(fi)
        want = sorted(sorted(s) for s in inc)
        got = sorted(sorted(f) for f in faces)
        if want != got:
            cx.bad("topology", "mismatch:dual_faces_are_not_vertex_stars", icls, got=got[:4], want=want[:4])
        if res["edges"] != pa["edges"]:
            cx.bad("topology", "mismatch:dual_edge_count", icls, got=res["edges"], want=pa["edges"])


# ------------------------------------------------------------------------------------- polylines
def _lattice_path(n):
    return [[float(i), float(i * i % 5), float((3 * i) % 4)] for i in range(n)]


def enum_chain_of_vertices(tier):
    hi = 7 if tier == "quick" else 13
    return ([{"n": n, "loop": False} for n in range(1, hi)] + [{"n": n, "loop": True} for n in range(3, hi)])


def _polyline_basic(cx, m, icls, nv, want_edges):
    cx.counts(m, icls, nv=nv)
    cx.ev(3)
    edges = [tuple(int(v) for v in e) for e in m.edges]
    if any(v < 0 or v >= nv for e in edges for v in e):
        cx.bad("valid.indices_in_range", "mismatch:index_out_of_range", icls, edges=edges[:8], n_vertices=nv)
        return None
    norm = [tuple(sorted(e)) for e in edges]
    if len(set(norm)) != len(norm) or any(a == b for a, b in norm):
        cx.bad("valid.no_repeated_face", "mismatch:repeated_or_degenerate_edge", icls, edges=edges[:12])
        return None
    if sorted(norm) != sorted(want_edges):
        cx.bad("topology", "mismatch:edges", icls, got=sorted(norm)[:12], want=sorted(want_edges)[:12])
        return None
    if nv > 1 and {v for e in norm for v in e} != set(range(nv)):
        cx.bad("valid.no_unused_vertex", "mismatch:unused_vertices", icls, n_vertices=nv)
    cx.rep.count("structurally_valid:" + cx.gen)
    cx.rep.count("topology_ok:" + cx.gen)
    return norm


def check_chain_of_vertices(M, p, rep):
    np = _np()
    cx = Cx(rep, "chain_of_vertices", p)
    n = p["n"]
    icls = "chain_of_vertices:" + ("loop" if p["loop"] else "open")
    pts = _lattice_path(n)
    m = run_generator(cx, M.procedural.chain_of_vertices, icls, cx.arr(pts).reshape(n, 3), p["loop"])
    if m is None or not cx.expect_type(m, "PolyLine", icls):
        return
    rep.flag(f"loop={p['loop']}")
    want = [(i, i + 1) for i in range(n - 1)] + ([(0, n - 1)] if p["loop"] else [])
    _polyline_basic(cx, m, icls, n, want)
    cx.same_points(verts_of(m), pts, icls, ordered=True)


def enum_vector_field(tier):
    return [{"n": n, "K": K, "mult": mu} for n in (1, 2, 3, 4) for K in (1, 2, 3) for mu in (1.0, 0.5, 2.0)]


def check_vector_field(M, p, rep):
    np = _np()
    cx = Cx(rep, "vector_field", p)
    n, K = p["n"], p["K"]
    icls = "vector_field:K=3" if K == 3 else "vector_field:K<3"
    O = np.array([[float((2 * i + 3 * k) % 5) for k in range(K)] for i in range(n)], float)
    W = np.array([[float(1 + (i + 2 * k) % 3) * (-1) ** (i + k) for k in range(K)] for i in range(n)], float)
    m = run_generator(cx, M.procedural.vector_field, icls, cx.arr(O), cx.arr(W), p["mult"])
    if m is None or not cx.expect_type(m, "PolyLine", icls):
        return
    _polyline_basic(cx, m, icls, 2 * n, [(2 * i, 2 * i + 1) for i in range(n)])
    O3 = np.zeros((n, 3)); O3[:, :K] = O
    W3 = np.zeros((n, 3)); W3[:, :K] = W
    want = np.empty((2 * n, 3)); want[0::2] = O3; want[1::2] = O3 + p["mult"] * W3
    cx.same_points(verts_of(m), want, icls, ordered=True)


# ------------------------------------------------------------------------------------- transformations
POINT_SETS = [[[0, 0, 0]], [[0, 0, 0], [1, 2, 3]], [[1, 0, 0], [0, 4, 0], [0, 0, -3]]]


def enum_spherify_vertices(tier):
    ks = [0, 1] if tier == "quick" else [0, 1, 2]
    return [{"pts": ps, "radius": r, "n_subdiv": k, "as": a}
            for ps in POINT_SETS for r in (0.5, 0.25) for k in ks for a in ("PointCloud", "ndarray")]


def check_spherify_vertices(M, p, rep):
    np = _np()
    cx = Cx(rep, "spherify_vertices", p)
    k = p["n_subdiv"]
    icls = "spherify_vertices:n_subdiv=0" if k == 0 else "spherify_vertices:n_subdiv>0"
    pts = np.array(p["pts"], float)
    if p["as"] == "PointCloud" and cx.input_history is not None:
        arg = cx.input_mesh(M, "points", pts * cx.unit, None,
                            lambda m_: M.procedural.spherify_vertices(m_, cx.ln(p["radius"]), k))
    else:
        arg = M.mesh.from_arrays(pts * cx.unit) if p["as"] == "PointCloud" else cx.arr(pts)
    m = run_generator(cx, M.procedural.spherify_vertices, icls, arg, cx.ln(p["radius"]), k)
    if m is None or not cx.expect_type(m, "SurfaceMesh", icls):
        return
    npts = len(pts)
    res = cx.structural(m, icls, "sphere", comps=npts)
    cx.counts(m, icls, nv=npts * (10 * 4 ** k + 2), nf=npts * 20 * 4 ** k)
    if k == 0:
        rep.count("spherify_radius_clause_skipped_n_subdiv=0")
        return
    P = verts_of(m)
    cx.ev()
    D = np.linalg.norm(P[:, None, :] - pts[None, :, :], axis=2)
    near = D.argmin(axis=1)
    dev = np.abs(D[np.arange(len(P)), near] - p["radius"])
    per = [int((near == j).sum()) for j in range(npts)]
    if float(dev.max()) > TOL or per != [10 * 4 ** k + 2] * npts:
        cx.bad("geometry.on_surface", "mismatch:radius", icls, want_radius=p["radius"], max_deviation=float(dev.max()),
               vertices_per_input_point=per)


POLYLINES = [  # (points, edges); the first two have mean edge length 1
    [[[0, 0, 0], [1, 0, 0]], [[0, 1]]],
    [[[0, 0, 0], [1, 0, 0], [1, 1, 0], [1, 1, 1]], [[0, 1], [1, 2], [2, 3]]],
    [[[0, 0, 0], [1, 0, 0], [1, 2, 0]], [[0, 1], [1, 2]]],
    [[[1, 2, 3], [1, 2, 7], [4, 2, 3]], [[0, 1], [0, 2], [1, 2]]],
]


def _polyline(key, tier):
    """(points, edges) of the input polyline of a case: a member of POLYLINES or the 'star' of the direction family:
    vertex 0 at the origin joined to d / |d| for every direction d of direction_family(tier) - every edge has length 1
    (mean edge length 1 within rounding), so the radius clause applies to it as documented"""
    if key != "star":
        return POLYLINES[key]
    pts, edges = [[0.0, 0.0, 0.0]], []
    for d, _label in direction_family(tier):
        L = math.sqrt(sum(c * c for c in d))
        pts.append([c / L for c in d])
        edges.append([0, len(pts) - 1])
    return pts, edges


def enum_cylindrify_edges(tier):
    out = [{"poly": i, "radius": r, "N": n} for i in range(len(POLYLINES)) for r in (0.05, 0.25) for n in _res(tier)]
    # the star of the direction family (338 edges in quick): every N; quick: the two radii alternate with N (a rotation)
    out += [{"poly": "star", "radius": r, "N": n} for j, n in enumerate(_res(tier)) for r in ((0.05, 0.25) if tier == "thorough" else ((0.05, 0.25)[j % 2],))]
    return out


def check_cylindrify_edges(M, p, rep):
    np = _np()
    cx = Cx(rep, "cylindrify_edges", p)
    pts, edges = _polyline(p["poly"], _ACTIVE["tier"])
    pts = np.array(pts, float)
    lens = [float(np.linalg.norm(pts[a] - pts[b])) for a, b in edges]
    mean_len = sum(lens) / len(lens) * cx.unit          # of the polyline that is handed over
    icls = "cylindrify_edges:mean_edge_length" + ("==1" if abs(mean_len - 1) < 1e-12 else "!=1")
    if cx.input_history is not None:
        pl = cx.input_mesh(M, "polyline", pts * cx.unit, edges,
                           lambda m_: M.procedural.cylindrify_edges(m_, cx.ln(p["radius"]), p["N"]))
    else:
        pl = M.mesh.from_arrays(pts * cx.unit, E=np.array(edges))
    assert type(pl).__name__ == "PolyLine" and sorted(tuple(sorted(map(int, e))) for e in pl.edges) == sorted(map(tuple, edges))
    N = p["N"]
    m = run_generator(cx, M.procedural.cylindrify_edges, icls, pl, cx.ln(p["radius"]), N)
    if m is None or not cx.expect_type(m, "SurfaceMesh", icls):
        return
    rep.flag("cylindrify:" + icls.split(":")[1])
    ne = len(edges)
    res = cx.structural(m, icls, "annulus", comps=ne)
    cx.counts(m, icls, nv=2 * N * ne, nf=2 * N * ne)
    if res["broken"] is not None or res["comps"] != ne:
        return
    # one open cylinder of the requested radius around every edge
    P = verts_of(m)
    par = {v: v for v in range(len(P))}
    for (a, b) in res["und"]:
        _union(par, a, b)
    groups = {}
    for v in range(len(P)):
        groups.setdefault(_find(par, v), []).append(v)
    left = list(range(ne))
    mids = np.array([(pts[a] + pts[b]) / 2 for a, b in edges])
    for g in groups.values():
        cen = P[g].mean(axis=0)
        j = left[int(np.linalg.norm(mids[left] - cen, axis=1).argmin())]
        left.remove(j)
        a, b = edges[j]
        # the generator may orient the cylinder either way along the edge
        sub = Cx(Report(), cx.gen, cx.params)
        _cylinder_geometry(sub, P, g, pts[a], pts[b], p["radius"], N, icls, False)
        cx.ev(5)
        if sub.rep.violations:
            v = sub.rep.violations[0]
            d = dict(v["detail"]); d.pop("generator", None); d.pop("params", None)
            d.update(edge=[int(a), int(b)], mean_edge_length=mean_len)
            # in another unit of length the polyline is one more member of the class "mean edge length != 1" of the
            # primary enumeration: its radius clause is reported there (see ASSUMPTIONS)
            cx.bad(v["subcheck"][4:], v["kind"], icls,
                   member_of_primary_class=(cx.unit != 1.0 and v["kind"] == "mismatch:radius" and icls.endswith("!=1")), **d)
            return


# =================================================================================================
GENERATORS = {
    "tetrahedron": (enum_tetrahedron, check_tetrahedron, 16),
    "hexahedron": (enum_hexahedron, check_hexahedron, 12),
    "axis_aligned_cube": (enum_axis_aligned_cube, check_axis_aligned_cube, 4),
    "hexahedron_4pts": (enum_hexahedron_4pts, check_hexahedron_4pts, 16),
    "octahedron": (enum_octahedron, check_octahedron, 1),
    "dodecahedron": (enum_dodecahedron, check_dodecahedron, 1),
    "icosahedron": (enum_icosahedron, check_icosahedron, 12),
    "cylinder": (enum_cylinder, check_cylinder, 24),
    "torus": (enum_torus, check_torus, 12),
    "sphere_uv": (enum_sphere_uv, check_sphere_uv, 18),
    "icosphere": (enum_icosphere, check_icosphere, 1),
    "sphere_fibonacci": (enum_sphere_fibonacci, check_sphere_fibonacci, 18),
    "triangle": (enum_triangle, check_triangle, 8),
    "quad": (enum_quad, check_quad, 8),
    "unit_grid": (enum_unit_grid, check_unit_grid, 16),
    "unit_triangle": (enum_unit_triangle, check_unit_triangle, 16),
    "ring": (enum_ring, check_ring, 24),
    "flat_ring": (enum_flat_ring, check_flat_ring, 24),
    "dual_mesh": (enum_dual_mesh, check_dual_mesh, 4),
    "chain_of_vertices": (enum_chain_of_vertices, check_chain_of_vertices, 16),
    "vector_field": (enum_vector_field, check_vector_field, 18),
    "spherify_vertices": (enum_spherify_vertices, check_spherify_vertices, 4),
    "cylindrify_edges": (enum_cylindrify_edges, check_cylindrify_edges, 8),
}

# size of every parameter box (pinned: a change of the enumeration must be deliberate)
PINNED = {
    "quick": {'tetrahedron': 8, 'hexahedron': 24, 'axis_aligned_cube': 4, 'hexahedron_4pts': 16, 'octahedron': 1,
              'dodecahedron': 1, 'icosahedron': 12, 'cylinder': 434, 'torus': 64, 'sphere_uv': 120, 'icosphere': 18,
              'sphere_fibonacci': 54, 'triangle': 4, 'quad': 8, 'unit_grid': 100, 'unit_triangle': 50, 'ring': 96,
              'flat_ring': 48, 'dual_mesh': 36, 'chain_of_vertices': 10, 'vector_field': 36, 'spherify_vertices': 24,
              'cylindrify_edges': 36},                                                             # 1204 cases
    "thorough": {'tetrahedron': 54, 'hexahedron': 24, 'axis_aligned_cube': 4, 'hexahedron_4pts': 16, 'octahedron': 1,
                 'dodecahedron': 1, 'icosahedron': 12, 'cylinder': 1732, 'torus': 1000, 'sphere_uv': 660, 'icosphere': 30,
                 'sphere_fibonacci': 462, 'triangle': 4, 'quad': 8, 'unit_grid': 484, 'unit_triangle': 242, 'ring': 480,
                 'flat_ring': 240, 'dual_mesh': 60, 'chain_of_vertices': 22, 'vector_field': 36, 'spherify_vertices': 36,
                 'cylindrify_edges': 100},                                                         # 5708 cases
}


# -------------------------------------------------------------------------------------------------
# argument forms / call protocols of one case
# -------------------------------------------------------------------------------------------------
INT_POINT_KEYS = {"tetrahedron": ["pts"], "hexahedron": ["pts"], "hexahedron_4pts": ["pts"], "icosahedron": ["center"],
                  "cylinder": ["P1", "P2"], "sphere_uv": ["center"], "icosphere": ["center"], "triangle": ["pts"],
                  "quad": ["pts"]}
ORIGIN_DEFAULT = ("icosahedron", "sphere_uv", "icosphere")     # generators whose centre defaults to the origin


# generators with at least one length-like parameter (radius, centre, corner / end points, point arrays, input mesh);
# the others (axis_aligned_cube, octahedron, dodecahedron, unit_grid, unit_triangle, ring, flat_ring) have none
UNIT_GENERATORS = ("tetrahedron", "hexahedron", "hexahedron_4pts", "icosahedron", "cylinder", "torus", "sphere_uv",
                   "icosphere", "sphere_fibonacci", "triangle", "quad", "dual_mesh", "chain_of_vertices", "vector_field",
                   "spherify_vertices", "cylindrify_edges")


def takes_mesh(gen, p):
    """the generator is handed a mesh object (which may have a past)"""
    return gen in ("dual_mesh", "cylindrify_edges") or (gen == "spherify_vertices" and p["as"] == "PointCloud")


def unit_exponents(gen, p, tier):
    """the units of length 2^e in which the case is run besides the unit one.  Every generator is run in every unit of
    the tier except the qhull triangulation of sphere_fibonacci, which stops at 2^-30 (bound measured on the unchanged
    tree, see ASSUMPTIONS)"""
    es = UNIT_EXPONENTS[tier]
    if gen == "sphere_fibonacci" and p["build_surface"]:
        es = sorted({max(e, FIBONACCI_SURFACE_MIN_EXPONENT) for e in es})
    return list(es)


def _integral(x):
    if isinstance(x, (list, tuple)):
        return all(_integral(y) for y in x)
    return float(x) == int(x)


def forms_of(gen, p):
    """the further forms in which the case (gen, p) is run after the primary one"""
    out = ["repeat"]
    if gen in INT_POINT_KEYS and all(_integral(p[k]) for k in INT_POINT_KEYS[gen]):
        out.append("int_dtype")
    if gen in ("chain_of_vertices", "vector_field") or (gen == "spherify_vertices" and p["as"] == "ndarray"):
        out.append("int_dtype")
    if gen in ORIGIN_DEFAULT and all(c == 0 for c in p["center"]):
        out.append("default_argument")
    if gen in UNIT_GENERATORS:
        out += ["unit:2^%d" % e for e in unit_exponents(gen, p, _ACTIVE["tier"])]
    out.append("ownership")
    if takes_mesh(gen, p):
        out += ["input:stale", "input:warm"]
    return out


def _canon_detail(d):
    def r(x):
        if isinstance(x, float):
            return float("%.9g" % x) if x == x and abs(x) != float("inf") else repr(x)
        if isinstance(x, dict):
            return {str(k): r(v) for k, v in x.items() if k not in ("params", "form", "generator", "unit_note")}
        if isinstance(x, (list, tuple)):
            return [r(v) for v in x]
        return x
    import json
    from mc.core import jsonable
    return json.dumps(r(jsonable(d)), sort_keys=True)


def _run_form(form, chk, M, p, rep, log, dump=False, light=False):
    old = dict(_ACTIVE)
    facts = {}
    _ACTIVE.update(form=form, rep=rep, log=log, unit=2.0 ** FORMS[form].get("unit", 0), facts=facts, dump=dump, light=light)
    try:
        chk(M, p, rep)
    finally:
        _ACTIVE.update(old)
    return facts


def run_case(M, gen, chk, p, rep, forms=None, same_mesh=False, light=False):
    """primary form into the report; every further form into a scratch report, with the SAME expectations: what the
    oracle finds there and did not find (same clause, same witness) on the primary form is reported under the clause
    of the form (C14.repeat.* / C14.argform.*)"""
    prim = []
    prim_facts = _run_form("primary", chk, M, p, rep, prim, dump=same_mesh, light=light)
    explained = {(s, c, k, i, _canon_detail(d)) for (s, c, k, i, d, _m) in prim}
    for form in (forms_of(gen, p) if forms is None else forms):
        scratch, log = Report(), []
        try:
            facts = _run_form(form, chk, M, p, scratch, log, dump=same_mesh, light=light)
        except _NotApplicable:
            rep.count("call_form_not_applicable")
            continue
        if form.startswith("unit:") and prim_facts.get("orientation_sign") and facts.get("orientation_sign"):
            # C14.unit.orientation_side: the surface faces the same way in every unit of length (both results are
            # consistently oriented surfaces of the promised shape with a side to speak of)
            rep.evaluations += 1
            rep.count("unit_orientation_side_compared")
            rep.outcome("orientation_side", prim_facts["orientation_sign"])
            if facts["orientation_sign"] != prim_facts["orientation_sign"]:
                rep.violation("C14.unit.orientation_side", "procedural." + gen, "mismatch:surface_turned_inside_out",
                              gen + ":" + FORM_CLAUSE[form][1],
                              {"generator": gen, "params": p, "form": form, "side_in_unit_1": prim_facts["orientation_sign"],
                               "side_in_this_unit": facts["orientation_sign"],
                               "side": "sign of sum_f <centre of f - mean vertex, area vector of f>"})
        rep.count("runs:" + form.split(":")[0])
        rep.states += scratch.states; rep.transitions += scratch.transitions
        rep.traces += scratch.traces; rep.evaluations += scratch.evaluations
        rep.distinct |= scratch.distinct
        for kind, labels in scratch.outcomes.items():
            for lab in sorted(labels):
                rep.outcome(kind, lab)
        for f in scratch.flags:
            if f.startswith("form:"):
                rep.flag(f)
        for name, n in scratch.counters.items():
            if name.startswith(("args_compared:", "unit_result_at_scale:", "callform_run:", "coherence_", "ownership_", "input_history_")):
                rep.count(name, n)
        clause, tag = FORM_CLAUSE[form]
        new_findings = 0
        for (s, c, k, i, d, member) in log:
            if (s, c, k, i, _canon_detail(d)) in explained:
                rep.count("finding_of_primary_form_seen_again:" + form.split(":")[0])
                continue
            new_findings += 1
            if s == "C14.args.unchanged" or member:      # the class already says which inputs are concerned
                rep.violation(s, c, k, i, d)
            else:
                rep.violation("C14." + clause + "." + s[4:], c, k, i + ":" + tag, d)
        if same_mesh and "dump" in prim_facts and "dump" in facts:
            # C14.defaults.same_as_explicit / C14.callform.same_as_explicit: however the options are handed over, the
            # generator returns the mesh it returns when every argument is given explicitly
            rep.evaluations += 1
            rep.count("same_mesh_compared:" + form.split(":")[0])
            field = dump_difference(prim_facts["dump"], facts["dump"])
            rep.outcome("same_as_explicit", "same" if field is None else "differs:" + field)
            if field is not None and not new_findings:      # (what the oracle reported on this form says it already)
                rep.violation("C14." + FORM_CLAUSE[form][0] + ".same_as_explicit", "procedural." + gen, "mismatch:" + field,
                              gen + ":" + FORM_CLAUSE[form][1],
                              {"generator": gen, "params": p, "form": form, "first_differing_field": field,
                               "documented_signature": [[n, d] for n, d in SIGNATURES[gen]],
                               "every_argument_explicit": dump_summary(prim_facts["dump"]),
                               "this_call_form": dump_summary(facts["dump"])})


def _selftest(M, rep):
    """the argument / default-argument comparison of run_generator notices a generator that writes through a view"""
    def fake(n, center=M.Vec(0., 0., 0.)):
        c = M.Vec(center)
        c[2] -= n
        return n
    for how in ("argument", "default_argument"):
        s, log = Report(), []
        old = dict(_ACTIVE)
        _ACTIVE.update(form="primary", rep=s, log=log, unit=1.0)
        try:
            cx = Cx(s, "selftest", {})
            if how == "argument":
                run_generator(cx, fake, "selftest", 1, M.Vec(0., 0., 0.))
            else:
                run_generator(cx, fake, "selftest", 1)
        finally:
            _ACTIVE.update(old)
        if [e[3] for e in log if e[0] == "C14.args.unchanged"] == ["selftest:" + ("argument:array" if how == "argument" else how)]:
            rep.flag("selftest:args_unchanged:" + how)
    if [float(c) for c in fake.__defaults__[0]] == [0.0, 0.0, 0.0]:
        rep.flag("selftest:default_argument_put_back")

    # the unit deviation notices a generator with an absolute threshold on a length (and only away from the unit)
    def snapping_triangle(P0, P1, P2):
        snap = lambda P: M.Vec(*[0.0 if abs(float(c)) < 1e-6 else float(c) for c in P])
        return M.procedural.triangle(snap(P0), snap(P1), snap(P2))

    def chk(M_, p, r):
        cx = Cx(r, "triangle", p)
        m = run_generator(cx, snapping_triangle, "selftest", *[cx.pt(M_, q) for q in p["pts"]])
        cx.same_points(verts_of(m), p["pts"], "selftest", ordered=False)

    seen = {}
    for form in ("primary", "unit:2^-12", "unit:2^-24", "unit:2^12"):
        s, log = Report(), []
        _run_form(form, chk, M, {"pts": TRIS[1]}, s, log)
        seen[form] = [e[0] for e in log]
    if seen == {"primary": [], "unit:2^-12": [], "unit:2^-24": ["C14.geometry.requested_corners"], "unit:2^12": []}:
        rep.flag("selftest:unit_deviation")


def _selftest_round5(M, rep):
    """the observations added in round 5 can fail: an incoherent object, results that alias an argument / share the
    storage of two vertices, a generator that reads a quantity stored on its input mesh"""
    import types
    from mc import c14_more as X
    # --- coherent object
    good = M.procedural.icosahedron()
    gutted = M.procedural.icosahedron()
    gutted.face_corners.clear()
    o = call(X.coherence_findings, gutted, "surface")
    if X.coherence_findings(good, "surface") == [] and o.ok and "mismatch:face_corners" in [k for k, _w in o.value]:
        rep.flag("selftest:coherent_object")

    # --- ownership
    def aliasing_triangle(P0, P1, P2):
        m = M.procedural.triangle(P0, P1, P2)
        m.vertices[0] = P0            # the caller's object itself
        return m

    def sharing_triangle(P0, P1, P2):
        m = M.procedural.triangle(P0, P1, P2)
        m.vertices[2] = m.vertices[1]  # two vertices, one storage
        return m

    def chk_with(fake):
        def chk(M_, p, r):
            cx = Cx(r, "triangle", p)
            run_generator(cx, fake, "selftest", *[cx.pt(M_, q) for q in p["pts"]])
        return chk
    seen = {}
    for name, fake in (("real", M.procedural.triangle), ("aliasing", aliasing_triangle), ("sharing", sharing_triangle)):
        s_, log = Report(), []
        _run_form("ownership", chk_with(fake), M, {"pts": TRIS[1]}, s_, log)
        seen[name] = sorted({e[0] for e in log})
    if seen == {"real": [], "aliasing": ["C14.ownership.argument_follows_result", "C14.ownership.result_follows_argument"],
                "sharing": ["C14.ownership.vertices_own_their_storage"]}:
        rep.flag("selftest:ownership")

    # --- history of the input mesh
    def remembering_cylindrify(mesh, radius=0.05, N=50):
        if mesh.edges.has_attribute("length"):
            att = mesh.edges.get_attribute("length")
            L = sum(float(att[e]) for e in mesh.id_edges) / len(mesh.edges)
        else:
            L = M.attributes.mean_edge_length(mesh)
        return M.mesh.merge([M.procedural.cylinder(mesh.vertices[a], mesh.vertices[b], L * radius, N, fill_caps=False)
                             for a, b in mesh.edges])

    class _Shim:
        def __getattr__(self, n):
            return getattr(M, n)
    shim = _Shim()
    shim.procedural = types.SimpleNamespace(**{n: getattr(M.procedural, n) for n in dir(M.procedural) if not n.startswith("_")})
    shim.procedural.cylindrify_edges = remembering_cylindrify
    seen = {}
    for form in ("primary", "input:warm", "input:stale"):
        s_, log = Report(), []
        _run_form(form, check_cylindrify_edges, shim, {"poly": 1, "radius": 0.25, "N": 4}, s_, log)
        seen[form] = sorted({e[0] + "|" + e[2] for e in log})
    if seen == {"primary": [], "input:warm": [], "input:stale": ["C14.geometry.on_surface|mismatch:radius"]}:
        rep.flag("selftest:input_history")


# -------------------------------------------------------------------------------------------------
# tasks of kind 'defaults': documented defaults and call forms
# -------------------------------------------------------------------------------------------------
def default_cases(tier):
    """generator -> [{"p": case, "big": bool}]: for every generator with options the case in which EVERY option is at its
    documented default (whatever size that means: cylinder N=50, torus 50 x 30, sphere_uv 30 x 50, icosphere 3), for every
    option the case(s) in which that option is at its default and the others are not, and the case in which none is.
    big (quick tier only): the case is large - it is run without the positional / keyword forms, and the meshes it
    returns are compared with each other (explicit call vs option left out) but not handed to the oracle, which sees
    these sizes in the thorough tier.  Thorough adds the whole quick box of the generator."""
    T, F = True, False
    C0, C1 = CENTRES
    P1, P2 = AXES[2]
    out = {
        "tetrahedron": [dict(pts=QUADS4[2], volume=v) for v in BOOLS],
        "hexahedron": [dict(pts=HEXAS[1], colored=c, triangulate=t, volume=v) for c in BOOLS for t in BOOLS for v in BOOLS],
        "axis_aligned_cube": [dict(colored=c, triangulate=t) for c in BOOLS for t in BOOLS],
        "hexahedron_4pts": [dict(pts=QUADS4[2], colored=c, volume=v) for c in BOOLS for v in BOOLS],
        "icosahedron": [dict(center=c, radius=r, uv=u) for (c, r, u) in [(C0, 1.0, F), (C0, 2.0, T), (C1, 1.0, T), (C1, 2.0, F), (C1, 2.0, T)]],
        "cylinder": [dict(P1=P1, P2=P2, radius=r, N=n, fill_caps=fc)
                     for (r, n, fc) in [(1.0, 50, T), (1.0, 4, F), (0.5, 50, F), (0.5, 4, T), (0.5, 5, F)]],
        "torus": [dict(major=a, minor=b, R=R, r=r, triangulate=t)
                  for (a, b, R, r, t) in [(50, 30, 1.0, 0.3, F), (50, 3, 2.0, 0.5, T), (4, 30, 2.0, 0.5, T), (4, 5, 1.0, 0.5, T),
                                          (4, 5, 2.0, 0.3, T), (4, 5, 2.0, 0.5, F), (4, 5, 2.0, 0.5, T)]],
        "sphere_uv": [dict(n_lat=a, n_long=b, center=c, radius=r)
                      for (a, b, c, r) in [(30, 50, C0, 1.0), (30, 4, C1, 2.0), (3, 50, C1, 2.0), (3, 5, C0, 2.0), (3, 5, C1, 1.0),
                                           (3, 5, C1, 2.0)]],
        "icosphere": [dict(n_refine=k, center=c, radius=r)
                      for (k, c, r) in [(3, C0, 1.0), (3, C1, 2.0), (0, C0, 2.0), (1, C1, 1.0), (1, C1, 2.0)]],
        "sphere_fibonacci": [dict(n_pts=9, radius=r, build_surface=b) for r in (1.0, 2.0) for b in (T, F)],
        "quad": [dict(pts=TRIS[1], triangulate=t) for t in BOOLS],
        "unit_grid": [dict(nu=3, nv=4, triangulate=t, generate_uvs=g) for t in BOOLS for g in BOOLS],
        "unit_triangle": [dict(nu=4, nv=4, generate_uvs=g) for g in BOOLS],
        "ring": [dict(N=5, defect=0.3, open=o, n_cover=c) for o in BOOLS for c in (1, 2)],
        "flat_ring": [dict(N=5, defect=0.3, n_cover=c) for c in (1, 2)],
        "dual_mesh": [dict(src="icosahedron", mode="barycenter", bordered=F), dict(src="icosahedron", mode="circumcenter", bordered=F),
                      dict(src="grid_3x3", mode="barycenter", bordered=T)],
        "chain_of_vertices": [dict(n=4, loop=l) for l in BOOLS],
        "vector_field": [dict(n=3, K=3, mult=1.0), dict(n=3, K=3, mult=0.5), dict(n=2, K=2, mult=1.0)],
        "spherify_vertices": [dict(pts=POINT_SETS[i], radius=r, n_subdiv=k, **{"as": a})
                              for (i, r, k, a) in [(0, 0.01, 1, "PointCloud"), (0, 0.01, 0, "ndarray"), (1, 0.25, 1, "ndarray"),
                                                   (0, 0.25, 0, "PointCloud")]],
        "cylindrify_edges": [dict(poly=1, radius=r, N=n) for (r, n) in [(0.05, 50), (0.05, 4), (0.25, 50), (0.25, 4)]],
    }
    big = {"torus": lambda q: q["major"] * q["minor"] > 100, "sphere_uv": lambda q: q["n_lat"] * q["n_long"] > 100,
           "icosphere": lambda q: q["n_refine"] >= 3, "cylindrify_edges": lambda q: q["N"] >= 50}
    res = {}
    for gen, cases in out.items():
        assert OPTIONALS[gen], gen
        res[gen] = [{"p": q, "big": tier == "quick" and bool(big.get(gen, lambda _q: False)(q))} for q in cases]
        if tier == "thorough":
            res[gen] += [{"p": q, "big": False} for q in GENERATORS[gen][0]("quick") if "family" not in q and q.get("poly") != "star"]
    return res


def call_forms_of(gen, big):
    """the call forms tried on a case of a 'defaults' task (those that do not apply to it say so themselves)"""
    return (["omit:" + n for n, _d in OPTIONALS[gen]] + ["omit:ALL"] + ([] if big else ["positional", "keyword"]))


def run_defaults_task(M, task, rep):
    gen = task["gen"]
    fn = getattr(M.procedural, gen)
    # C14.defaults.signature: the signature of the generator is the documented one (names, order, default values)
    rep.count("signature_compared:" + gen)
    rep.evaluations += len(SIGNATURES[gen]) + 1
    o = call(signature_differences, gen, fn)
    if not o.ok:
        rep.violation("C14.defaults.signature", "procedural." + gen, exc_kind(o), "signature", {"generator": gen, "msg": o.msg[:300]})
    else:
        for kind, name, want, got in o.value:
            rep.violation("C14.defaults.signature", "procedural." + gen, "mismatch:" + kind, name,
                          {"generator": gen, "parameter": name, "documented": want, "found": got})
    chk = GENERATORS[gen][1]
    for c in task["cases"]:
        rep.count("default_cases:" + gen)
        run_case(M, gen, chk, c["p"], rep, forms=call_forms_of(gen, c["big"]), same_mesh=True, light=c["big"])


def _selftest_defaults(M, rep):
    """the call forms really leave out / reorder what they say, and the signature comparison notices a changed default,
    a swapped order and nothing else"""
    a = ("p1", "p2", 0.5, 50, False)
    got = {f: _reshape_call("cylinder", f, a[:3], {"N": 50, "fill_caps": False}) for f in ("positional", "keyword", "omit:N")}
    want = {"positional": (a, {}), "keyword": (a[:2], {"radius": 0.5, "N": 50, "fill_caps": False}),
            "omit:N": (a[:2], {"radius": 0.5, "fill_caps": False})}
    na = 0
    for f, args in (("omit:radius", a), ("omit:ALL", a), ("omit:N", ("p1", "p2", 1.0, 50, True)), ("omit:fill_caps", a),
                    ("omit:N", ("p1", "p2", 1.0, True, True))):
        try:
            _reshape_call("cylinder", f, args, {})
        except _NotApplicable:
            na += 1
    if got == want and na == 5 and _reshape_call("cylinder", "omit:ALL", ("p1", "p2", 1, 50, True), {}) == (("p1", "p2"), {}):
        rep.flag("selftest:call_forms")

    def cyl_ok(P1, P2, radius=1, N=50, fill_caps=True, extra=None): pass
    def cyl_default(P1, P2, radius=1.0, N=40, fill_caps=True): pass
    def cyl_bool(P1, P2, radius=1.0, N=50, fill_caps=1): pass
    def cyl_order(P1, P2, N=50, radius=1.0, fill_caps=True): pass
    def cyl_required(P1, P2, radius, N=50, fill_caps=True): pass
    def ico(center=M.Vec(0., 0., 1.), radius=1.0, uv=False): pass
    d = signature_differences
    if (d("cylinder", cyl_ok) == [] and [x[:2] for x in d("cylinder", cyl_default)] == [("default_value", "N")]
            and [x[:2] for x in d("cylinder", cyl_bool)] == [("default_value", "fill_caps")]
            and [x[:2] for x in d("cylinder", cyl_order)] == [("parameter_order", "radius")]
            and [x[:2] for x in d("cylinder", cyl_required)] == [("default_value", "radius")]
            and [x[:2] for x in d("icosahedron", ico)] == [("default_value", "center")]
            and d("icosahedron", lambda center=M.Vec(0, 0, 0), radius=1, uv=False: None) == []):
        rep.flag("selftest:signature_comparison")
    # the comparison of two returned meshes sees an attribute, a face, a position
    g1, g2 = M.procedural.unit_grid(2, 3, False, False), M.procedural.unit_grid(2, 3, False, True)
    g3, g4 = M.procedural.unit_grid(2, 3, True, False), M.procedural.unit_grid(3, 2, False, False)
    d1, d2, d3, d4 = (mesh_dump(g) for g in (g1, g2, g3, g4))
    if ([dump_difference(d1, x) for x in (mesh_dump(M.procedural.unit_grid(2, 3)), d2, d3, d4)] == [None, "attributes", "n_faces", "vertices"]):
        rep.flag("selftest:same_mesh_comparison")


# number of runs in the further forms (pinned like the boxes)
PINNED_CALLFORM_RUNS = {"quick": {"omit": 72, "positional": 70, "keyword": 70},
                        "thorough": {"omit": 787, "positional": 932, "keyword": 932}}
PINNED_RUNS = {"quick": {"repeat": 1204, "int_dtype": 654, "default_argument": 75, "unit": 2712, "ownership": 1204, "input": 168},
               "thorough": {"repeat": 5708, "int_dtype": 2400, "default_argument": 351, "unit": 25536, "ownership": 5708, "input": 356}}
PINNED_DIRECTIONS = {"quick": {"lattice": 290, "tilt": 48}, "thorough": {"lattice": 1156, "tilt": 216}}       # cylinder cases


def tasks(tier):
    out = []
    for name, (enum, _chk, batch) in GENERATORS.items():
        cases = enum(tier)
        big = [q for q in cases if q.get("poly") == "star"]          # one task each
        cases = [q for q in cases if q.get("poly") != "star"]
        for i in range(0, len(cases), batch):
            out.append({"gen": name, "tier": tier, "first_batch": i == 0, "cases": cases[i:i + batch]})
        for q in big:
            out.append({"gen": name, "tier": tier, "first_batch": False, "cases": [q]})
    dc = default_cases(tier)
    for name in GENERATORS:       # every generator: the signature; those with options: the call forms
        cases = dc.get(name, [])
        for i in range(0, max(len(cases), 1), 40):
            out.append({"gen": name, "tier": tier, "kind": "defaults", "first_batch": i == 0, "cases": cases[i:i + 40]})
    return out


def run_task(task, rep: Report):
    import warnings
    warnings.filterwarnings("ignore")
    import mouette as M
    chk = GENERATORS[task["gen"]][1]
    old = dict(_ACTIVE)
    _ACTIVE.update(tier=task["tier"])
    try:
        if task.get("kind") == "defaults":
            if task["gen"] == "cylinder" and task.get("first_batch"):
                _selftest_defaults(M, rep)
            run_defaults_task(M, task, rep)
            return
        if task.get("first_batch"):
            _selftest(M, rep)
            if task["gen"] == "triangle":
                _selftest_round5(M, rep)
        for p in task["cases"]:
            rep.count("cases:" + task["gen"])
            run_case(M, task["gen"], chk, p, rep)
            if task.get("first_batch") and p is task["cases"][-1] and task["gen"] in ("cylinder", "torus", "unit_grid", "ring"):
                rep.sample({"generator": task["gen"], "params": p})
    finally:
        _ACTIVE.update(old)


def finish(tier, rep: Report):
    fails = []
    for name in GENERATORS:
        got = rep.counters.get("cases:" + name, 0)
        if got != PINNED[tier][name]:
            fails.append(f"{name}: {got} cases run, {PINNED[tier][name]} pinned")
        if rep.counters.get("topology_ok:" + name, 0) == 0:
            fails.append(f"{name}: no output reached the end of the structural chain with the promised topology "
                         "(oracle vacuous or generator always broken)")
    for f in ("shape_ok:sphere", "shape_ok:torus", "shape_ok:disk", "shape_ok:annulus", "unequal_resolutions",
              "equal_resolutions", "volume=True", "fill_caps=True", "fill_caps=False", "open=True", "open=False",
              "generate_uvs=True", "triangulate=True", "triangulate=False", "build_surface=True", "build_surface=False",
              "loop=True", "loop=False", "dual:closed", "dual:bordered", "cylindrify:mean_edge_length==1",
              "cylindrify:mean_edge_length!=1"):
        if f not in rep.flags:
            fails.append("coverage flag missing: " + f)
    for f in (["form:primary", "form:repeat", "form:int_dtype", "form:default_argument", "selftest:args_unchanged:argument",
               "selftest:args_unchanged:default_argument", "selftest:default_argument_put_back", "selftest:unit_deviation"]
              + ["form:unit:2^%d" % e for e in UNIT_EXPONENTS[tier]]
              + (["form:unit:2^%d" % FIBONACCI_SURFACE_MIN_EXPONENT] if min(UNIT_EXPONENTS[tier]) < FIBONACCI_SURFACE_MIN_EXPONENT else [])):
        if f not in rep.flags:
            fails.append("coverage flag missing: " + f)
    for form, n in PINNED_RUNS[tier].items():
        if rep.counters.get("runs:" + form, 0) != n:
            fails.append(f"form {form}: {rep.counters.get('runs:' + form, 0)} runs, {n} pinned")
    for name in UNIT_GENERATORS:
        # every result of every unit run lies at the deviated scale (PointCloud / empty results apart: none in the boxes)
        want = sum(len(unit_exponents(name, pp, tier)) for pp in GENERATORS[name][0](tier))
        got = rep.counters.get("unit_result_at_scale:" + name, 0)
        if got == 0 or got > want:
            fails.append(f"unit deviation of {name}: {got} results at the deviated scale, {want} runs")
    if rep.counters.get("unit_orientation_side_compared", 0) < 100:
        fails.append("unit deviation: the side a surface faces was compared on fewer than 100 runs")
    # documented defaults and call forms: every entry of the pinned table was exercised, every signature compared
    dc = default_cases(tier)
    for name in GENERATORS:
        if rep.counters.get("signature_compared:" + name, 0) < 1:
            fails.append(f"signature of {name} was not compared with the documented one")
        if not OPTIONALS[name]:
            continue
        if rep.counters.get("default_cases:" + name, 0) != len(dc[name]):
            fails.append(f"defaults of {name}: {rep.counters.get('default_cases:' + name, 0)} cases run, {len(dc[name])} listed")
        for form in ["omit:" + n for n, _d in OPTIONALS[name]] + ["omit:ALL", "positional", "keyword"]:
            if rep.counters.get("callform_run:%s:%s" % (name, form), 0) < 1:
                fails.append(f"documented defaults / call forms: {name} was never called in the form {form}")
    for form, n in PINNED_CALLFORM_RUNS[tier].items():
        got = sum(v for kk, v in rep.counters.items() if kk.startswith("callform_run:") and kk.split(":", 2)[2].split(":")[0] == form)
        if got != n:
            fails.append(f"call form {form}: {got} runs, {n} pinned")
        if form != "primary" and rep.counters.get("same_mesh_compared:" + form, 0) < n - 8:
            fails.append(f"call form {form}: only {rep.counters.get('same_mesh_compared:' + form, 0)} of {n} results compared "
                         "with the result of the explicit call")
    for f in ("selftest:call_forms", "selftest:signature_comparison", "selftest:same_mesh_comparison"):
        if f not in rep.flags:
            fails.append("coverage flag missing: " + f)
    # ---- round 5
    for f in ("form:ownership", "form:input:stale", "form:input:warm", "selftest:coherent_object", "selftest:ownership",
              "selftest:input_history"):
        if f not in rep.flags:
            fails.append("coverage flag missing: " + f)
    for label, n in PINNED_DIRECTIONS[tier].items():
        if rep.counters.get("direction_cases:" + label, 0) != n:
            fails.append(f"direction family ({label}): {rep.counters.get('direction_cases:' + label, 0)} cylinder cases, {n} pinned")
    dirs = [d for d, label in direction_family(tier) if label == "lattice"]
    for ax in range(3):
        # computed coverage of the direction family: for every coordinate axis a direction within 30 degrees of it (both
        # signs) whose two other components are both non-zero, one with exactly one of them non-zero, and one orthogonal to it
        o1, o2 = [j for j in range(3) if j != ax]
        for sgn in (1, -1):
            steep = [d for d in dirs if sgn * d[ax] > 0 and 4 * d[ax] ** 2 > 3 * sum(c * c for c in d)]     # cos > sqrt(3)/2
            if not any(d[o1] and d[o2] for d in steep) or not any(bool(d[o1]) != bool(d[o2]) for d in steep):
                fails.append(f"direction family: no generic direction within 30 degrees of {'+' if sgn > 0 else '-'}e{ax}")
        if not any(d[ax] == 0 and d[o1] and d[o2] for d in dirs):
            fails.append(f"direction family: no generic direction orthogonal to e{ax}")
    n_own = PINNED_RUNS[tier]["ownership"]
    if rep.counters.get("ownership_result_moved", 0) < n_own - 8:
        fails.append(f"ownership: the returned mesh was moved in place on {rep.counters.get('ownership_result_moved', 0)} of {n_own} runs")
    for kind in ("array", "mesh", "default_argument"):
        if rep.counters.get("ownership_argument_edited:" + kind, 0) == 0:
            fails.append(f"ownership: no argument object of kind {kind} was edited after a call")
    for gen in ("dual_mesh", "cylindrify_edges"):      # (no quantity of mouette.attributes applies to a point cloud)
        if rep.counters.get("input_history_attributes_present:" + gen, 0) == 0:
            fails.append(f"history of the input mesh: no input of {gen} carried a stored attribute when it was handed over")
    if rep.counters.get("input_history_earlier_call:ok", 0) < PINNED_RUNS[tier]["input"] // 2:
        fails.append("history of the input mesh: the generator's earlier call on the object succeeded on fewer than half of the runs")
    for kind in ("surface", "volume", "polyline"):
        if rep.counters.get("coherence_examined:" + kind, 0) == 0:
            fails.append(f"coherent object: no returned {kind} mesh was asked its derived containers / connectivity")
    for kind in ("array:float", "array:int", "mesh", "default_argument"):
        if rep.counters.get("args_compared:" + kind, 0) == 0:
            fails.append(f"no argument object of kind {kind} was compared before / after a call")
    if len(rep.outcomes.get("type", ())) < 3:
        fails.append("fewer than 3 distinct result container types seen")
    return fails
